import EdpVerif.Impl.Framing
/-! Helper lemmas for C05 (framing). -/
namespace Edp.Framing
open Edp

/-- a script of a live, well-behaved transport: only `Pending` polls and non-empty reads -/
def Clean : List Ev → Prop
  | [] => True
  | .chunk bs :: r => bs ≠ [] ∧ Clean r
  | .pending :: r => Clean r
  | .eof :: _ => False
  | .fail :: _ => False
  | .stall :: _ => False

instance : (evs : List Ev) → Decidable (Clean evs)
  | [] => .isTrue trivial
  | .chunk bs :: r => by
      unfold Clean
      have := instDecidableClean r
      infer_instance
  | .pending :: r => by unfold Clean; exact instDecidableClean r
  | .eof :: _ => .isFalse (by simp [Clean])
  | .fail :: _ => .isFalse (by simp [Clean])
  | .stall :: _ => .isFalse (by simp [Clean])

/-! ### length bytes -/

theorem rdN_exact : ∀ (k : Nat) (lb : Bytes), lb.length = k →
    ∃ v, rdN k lb = some (v, []) ∧ beN k v = lb ∧ v < 256 ^ k := by
  intro k
  induction k with
  | zero => intro lb h; cases lb with
    | nil => exact ⟨0, by simp [rdN, beN]⟩
    | cons _ _ => simp at h
  | succ k ih =>
    intro lb h
    cases lb with
    | nil => simp at h
    | cons b t =>
      have ht : t.length = k := by simpa using h
      obtain ⟨v, h1, h2, h3⟩ := ih t ht
      have hP : 0 < 256 ^ k := Nat.pow_pos (by omega)
      refine ⟨b.toNat * 256 ^ k + v, by simp [rdN, h1], ?_, ?_⟩
      · simp only [beN]
        have e1 : (b.toNat * 256 ^ k + v) / 256 ^ k = b.toNat := by
          rw [Nat.add_comm, Nat.add_mul_div_right _ _ hP, Nat.div_eq_of_lt h3]; simp
        have e2 : (b.toNat * 256 ^ k + v) % 256 ^ k = v := by
          rw [Nat.add_comm, Nat.add_mul_mod_self_right, Nat.mod_eq_of_lt h3]
        rw [e1, beN_mod k, e2, h2]
        simp
      · have hb : b.toNat < 256 := b.toNat_lt
        rw [Nat.pow_succ]
        calc b.toNat * 256 ^ k + v < b.toNat * 256 ^ k + 256 ^ k := by omega
          _ = (b.toNat + 1) * 256 ^ k := by rw [Nat.add_mul]; simp
          _ ≤ 256 * 256 ^ k := Nat.mul_le_mul_right _ (by omega)
          _ = 256 ^ k * 256 := Nat.mul_comm _ _

theorem lenOf_beN (k n : Nat) (h : n < 256 ^ k) : lenOf (beN k n) = n := by
  unfold lenOf
  rw [beN_length]
  have := rdN_beN k n [] h
  simp only [List.append_nil] at this
  rw [this]

theorem beN_lenOf (lb : Bytes) : beN lb.length (lenOf lb) = lb ∧ lenOf lb < 256 ^ lb.length := by
  obtain ⟨v, h1, h2, h3⟩ := rdN_exact lb.length lb rfl
  unfold lenOf
  rw [h1]
  exact ⟨h2, h3⟩

/-! ### `readExact` -/

@[simp] theorem readExact_zero (evs : List Ev) : readExact 0 evs = (.ok [], evs) := by
  cases evs <;> rfl

@[simp] theorem readExact_pending (n : Nat) (r : List Ev) :
    readExact (n+1) (.pending :: r) = readExact (n+1) r := rfl

theorem payload_append (a b : List Ev) : payload (a ++ b) = payload a ++ payload b := by
  induction a with
  | nil => rfl
  | cons e r ih => cases e <;> simp [payload, ih]

theorem weight_append (a b : List Ev) : weight (a ++ b) = weight a + weight b := by
  induction a with
  | nil => simp [weight]
  | cons e r ih => cases e <;> simp [weight, ih] <;> omega

/-- soundness of `readExact` on every script: a success returns exactly the next `n` bytes of the stream -/
theorem readExact_ok : ∀ (evs : List Ev) (n : Nat) (bs : Bytes) (r : List Ev),
    readExact n evs = (.ok bs, r) → bs.length = n ∧ payload evs = bs ++ payload r ∧ weight r + n ≤ weight evs := by
  intro evs
  induction evs with
  | nil =>
    intro n bs r h
    cases n with
    | zero => simp at h; obtain ⟨h1, h2⟩ := h; subst h1; subst h2; simp
    | succ n => simp [readExact] at h
  | cons e t ih =>
    intro n bs r h
    cases n with
    | zero => simp at h; obtain ⟨h1, h2⟩ := h; subst h1; subst h2; simp
    | succ n =>
      cases e with
      | eof => simp [readExact] at h
      | fail => simp [readExact] at h
      | stall => simp [readExact] at h
      | pending =>
        rw [readExact_pending] at h
        obtain ⟨h1, h2, h3⟩ := ih _ _ _ h
        refine ⟨h1, by simpa [payload] using h2, by simp only [weight]; omega⟩
      | chunk c =>
        simp only [readExact] at h
        by_cases h0 : c.length = 0
        · simp [h0] at h
        · simp only [h0, if_false] at h
          by_cases hle : c.length ≤ n + 1
          · simp only [hle, if_true] at h
            cases hr : readExact (n + 1 - c.length) t with
            | mk res r' =>
              rw [hr] at h
              cases res with
              | error e => simp at h
              | ok t' =>
                simp at h
                obtain ⟨h1, h2⟩ := h
                subst h1; subst h2
                obtain ⟨i1, i2, i3⟩ := ih _ _ _ hr
                refine ⟨by simp [i1]; omega, by simp [payload, i2], by simp only [weight]; omega⟩
          · simp only [hle, if_false] at h
            simp at h
            obtain ⟨h1, h2⟩ := h
            subst h1; subst h2
            refine ⟨by simp; omega, ?_, ?_⟩
            · simp only [payload]
              rw [← List.append_assoc, List.take_append_drop]
            · simp only [weight, List.length_drop]; omega

/-- completeness on clean scripts: if the stream starts with `a`, reading `a.length` bytes returns `a`, whatever
the chunking, and leaves a clean script that delivers the rest -/
theorem readExact_clean : ∀ (c : List Ev) (a rest : Bytes) (tail : List Ev), Clean c → payload c = a ++ rest →
    ∃ c', Clean c' ∧ payload c' = rest ∧ weight c' + a.length ≤ weight c ∧
      readExact a.length (c ++ tail) = (.ok a, c' ++ tail) := by
  intro c
  induction c with
  | nil =>
    intro a rest tail _ hp
    simp [payload] at hp
    obtain ⟨h1, h2⟩ := hp
    subst h1; subst h2
    exact ⟨[], trivial, rfl, by simp, by simp⟩
  | cons e t ih =>
    intro a rest tail hc hp
    cases a with
    | nil => exact ⟨e :: t, hc, by simpa using hp, by simp, by simp⟩
    | cons x a' =>
      cases e with
      | eof => simp [Clean] at hc
      | fail => simp [Clean] at hc
      | stall => simp [Clean] at hc
      | pending =>
        obtain ⟨c', k1, k2, k3, k4⟩ := ih (x :: a') rest tail hc (by simpa [payload] using hp)
        refine ⟨c', k1, k2, by simp only [weight]; omega, ?_⟩
        simpa using k4
      | chunk bs =>
        obtain ⟨hne, hct⟩ := hc
        simp only [payload] at hp
        have hlen0 : bs.length ≠ 0 := by
          intro h; exact hne (List.length_eq_zero_iff.mp h)
        rcases List.append_eq_append_iff.mp hp with ⟨a'', h1, h2⟩ | ⟨c'', h1, h2⟩
        · -- the chunk is a prefix of what is wanted
          obtain ⟨c', k1, k2, k3, k4⟩ := ih a'' rest tail hct h2
          refine ⟨c', k1, k2, ?_, ?_⟩
          · rw [h1]; simp only [weight, List.length_append]; omega
          · have hl : (x :: a').length = bs.length + a''.length := by rw [h1]; simp
            simp only [List.length_cons] at hl
            simp only [List.length_cons, List.cons_append, readExact, hlen0, if_false]
            have hle : bs.length ≤ a'.length + 1 := by omega
            simp only [hle, if_true]
            have hsub : a'.length + 1 - bs.length = a''.length := by omega
            rw [hsub, k4, h1]
        · -- the chunk covers everything that is wanted
          by_cases hc0 : c'' = []
          · subst hc0
            simp at h1 h2
            refine ⟨t, hct, h2.symm, ?_, ?_⟩
            · rw [h1]; simp only [weight]; omega
            · simp only [List.length_cons, List.cons_append, readExact, hlen0, if_false]
              have hle : bs.length ≤ a'.length + 1 := by rw [h1]; simp
              simp only [hle, if_true]
              have hsub : a'.length + 1 - bs.length = 0 := by rw [h1]; simp
              rw [hsub, readExact_zero, h1]
              simp
          · refine ⟨.chunk c'' :: t, ⟨hc0, hct⟩, by simp [payload, h2], ?_, ?_⟩
            · rw [h1]; simp only [weight, List.length_append]; omega
            · have hpos : 0 < c''.length := List.length_pos_iff.mpr hc0
              have hl : bs.length = (x :: a').length + c''.length := by rw [h1]; simp; omega
              simp only [List.length_cons] at hl
              simp only [List.length_cons, List.cons_append, readExact, hlen0, if_false]
              have hle : ¬ bs.length ≤ a'.length + 1 := by omega
              simp only [hle, if_false]
              have e1 : List.take (a'.length + 1) bs = x :: a' := by
                rw [h1]; simp
              have e2 : List.drop (a'.length + 1) bs = c'' := by
                rw [h1]
                have : (x :: a').length = a'.length + 1 := by simp
                rw [← this, List.drop_left]
              rw [e1, e2]

/-- a clean script that ends (or hits end of stream) before `n` bytes were delivered makes `readExact n` fail with
`UnexpectedEof` -/
theorem readExact_short : ∀ (c : List Ev) (n : Nat) (tail : List Ev), Clean c → (payload c).length < n →
    (tail = [] ∨ ∃ t, tail = .eof :: t) → (readExact n (c ++ tail)).1 = .error .eof := by
  intro c
  induction c with
  | nil =>
    intro n tail _ hn ht
    cases n with
    | zero => simp at hn
    | succ n =>
      rcases ht with h | ⟨t, h⟩ <;> subst h <;> simp [readExact]
  | cons e t ih =>
    intro n tail hc hn ht
    cases n with
    | zero => simp at hn
    | succ n =>
      cases e with
      | eof => simp [Clean] at hc
      | fail => simp [Clean] at hc
      | stall => simp [Clean] at hc
      | pending =>
        simp only [List.cons_append, readExact_pending]
        exact ih (n+1) tail hc (by simpa [payload] using hn) ht
      | chunk bs =>
        obtain ⟨hne, hct⟩ := hc
        simp only [payload, List.length_append] at hn
        have hlen0 : bs.length ≠ 0 := by
          intro h; exact hne (List.length_eq_zero_iff.mp h)
        have hle : bs.length ≤ n + 1 := by omega
        simp only [List.cons_append, readExact, hlen0, if_false, hle, if_true]
        have := ih (n + 1 - bs.length) tail hct (by omega) ht
        cases hr : readExact (n + 1 - bs.length) (t ++ tail) with
        | mk res r' =>
          rw [hr] at this
          simp at this
          subst this
          rfl

/-! ### `readFramed` -/

theorem prefixSize_pos (mode : Mode) : ∃ k, mode.prefixSize = k + 1 := by
  cases mode
  · exact ⟨1, rfl⟩
  · exact ⟨3, rfl⟩

theorem readFramed_pending (cap : Nat) (mode : Mode) (r : List Ev) :
    readFramed cap mode (.pending :: r) = readFramed cap mode r := by
  obtain ⟨k, hk⟩ := prefixSize_pos mode
  simp only [readFramed, hk, readExact_pending]

/-- one frame from a clean script, whatever the chunking -/
theorem readFramed_clean (cap : Nat) (mode : Mode) (c : List Ev) (m rest : Bytes) (tail : List Ev)
    (hc : Clean c) (hp : payload c = frame mode m ++ rest) (hf : fits mode m) (hcap : m.length ≤ cap) :
    ∃ c', Clean c' ∧ payload c' = rest ∧ weight c' < weight c ∧
      readFramed cap mode (c ++ tail) = ⟨.ok m, c' ++ tail, m.length⟩ := by
  unfold frame at hp
  rw [List.append_assoc] at hp
  obtain ⟨c1, k1, k2, k3, k4⟩ := readExact_clean c _ _ tail hc hp
  rw [beN_length] at k4 k3
  obtain ⟨k, hk⟩ := prefixSize_pos mode
  have hlen : lenOf (beN mode.prefixSize m.length) = m.length := lenOf_beN _ _ hf
  by_cases h0 : m.length = 0
  · have hm : m = [] := List.length_eq_zero_iff.mp h0
    refine ⟨c1, k1, by simpa [hm] using k2, by omega, ?_⟩
    simp only [readFramed, k4, hlen]
    simp [hm]
  · obtain ⟨c2, j1, j2, j3, j4⟩ := readExact_clean c1 m rest tail k1 k2
    refine ⟨c2, j1, j2, by omega, ?_⟩
    have hcap' : ¬ m.length > cap := by omega
    simp only [readFramed, k4, hlen, h0, if_false, hcap', j4]

/-- soundness of `readFramed` on every script: a returned message is exactly the next frame of the stream -/
theorem readFramed_ok (cap : Nat) (mode : Mode) (evs : List Ev) (m : Bytes)
    (h : (readFramed cap mode evs).res = .ok m) :
    payload evs = frame mode m ++ payload (readFramed cap mode evs).rest ∧ fits mode m ∧ m.length ≤ cap ∧
      weight (readFramed cap mode evs).rest < weight evs ∧ (readFramed cap mode evs).allocRequested = m.length := by
  obtain ⟨k, hk⟩ := prefixSize_pos mode
  unfold readFramed at h ⊢
  cases h1 : readExact mode.prefixSize evs with
  | mk res r =>
    rw [h1] at h
    simp only
    cases res with
    | error e => simp at h
    | ok lb =>
      simp only at h ⊢
      obtain ⟨l1, l2, l3⟩ := readExact_ok _ _ _ _ h1
      obtain ⟨b1, b2⟩ := beN_lenOf lb
      rw [l1] at b1 b2
      by_cases h0 : lenOf lb = 0
      · simp only [h0, if_true] at h ⊢
        simp at h
        subst h
        refine ⟨?_, ?_, by simp, by omega, rfl⟩
        · rw [l2]; unfold frame; simp only [List.length_nil, List.append_nil]; rw [← h0, b1]
        · unfold fits; simp only [List.length_nil]; exact Nat.pow_pos (by omega)
      · simp only [h0, if_false] at h ⊢
        by_cases hc : lenOf lb > cap
        · simp [hc] at h
        · simp only [hc, if_false] at h ⊢
          cases h2 : readExact (lenOf lb) r with
          | mk res2 r2 =>
            rw [h2] at h
            simp only at h ⊢
            subst h
            obtain ⟨q1, q2, q3⟩ := readExact_ok _ _ _ _ h2
            refine ⟨?_, ?_, by omega, by omega, q1.symm⟩
            · rw [l2, q2]; unfold frame; rw [q1, b1, List.append_assoc]
            · unfold fits; rw [q1]; exact b2

/-- on every script: whatever happens, the body buffer requested is never larger than the cap -/
theorem readFramed_alloc_le (cap : Nat) (mode : Mode) (evs : List Ev) :
    (readFramed cap mode evs).allocRequested ≤ cap := by
  unfold readFramed
  cases h1 : readExact mode.prefixSize evs with
  | mk res r =>
    cases res with
    | error e => simp
    | ok lb =>
      simp only
      by_cases h0 : lenOf lb = 0
      · simp [h0]
      · by_cases hc : lenOf lb > cap
        · simp [h0, hc]
        · simp only [h0, if_false, hc]; omega

/-! ### iterating a frame reader -/

theorem iterF_fuel (step : List Ev → RdOut)
    (hstep : ∀ evs m, (step evs).res = .ok m → weight (step evs).rest < weight evs) :
    ∀ (f1 f2 : Nat) (evs : List Ev), weight evs < f1 → weight evs < f2 → iterF step f1 evs = iterF step f2 evs := by
  intro f1
  induction f1 with
  | zero => intro f2 evs h; omega
  | succ f1 ih =>
    intro f2 evs h1 h2
    cases f2 with
    | zero => omega
    | succ f2 =>
      simp only [iterF]
      cases hr : (step evs).res with
      | error e => rfl
      | ok m =>
        simp only
        have := hstep evs m hr
        rw [ih f2 _ (by omega) (by omega)]

theorem iterF_unfold (step : List Ev → RdOut)
    (hstep : ∀ evs m, (step evs).res = .ok m → weight (step evs).rest < weight evs) (evs : List Ev) :
    iterF step (weight evs + 1) evs =
      match (step evs).res with
      | .error e => [.error e]
      | .ok m => .ok m :: iterF step (weight (step evs).rest + 1) (step evs).rest := by
  rw [show iterF step (weight evs + 1) evs = (match (step evs).res with
      | .error e => [.error e]
      | .ok m => .ok m :: iterF step (weight evs) (step evs).rest) from rfl]
  cases hr : (step evs).res with
  | error e => rfl
  | ok m =>
    simp only
    have := hstep evs m hr
    rw [iterF_fuel step hstep (weight evs) (weight (step evs).rest + 1) _ this (by omega)]

theorem readFramed_step (cap : Nat) (mode : Mode) :
    ∀ evs m, (readFramed cap mode evs).res = .ok m → weight (readFramed cap mode evs).rest < weight evs :=
  fun evs m h => (readFramed_ok cap mode evs m h).2.2.2.1

theorem readAll_unfold (cap : Nat) (mode : Mode) (evs : List Ev) :
    readAll cap mode evs =
      match (readFramed cap mode evs).res with
      | .error e => [.error e]
      | .ok m => .ok m :: readAll cap mode (readFramed cap mode evs).rest :=
  iterF_unfold _ (readFramed_step cap mode) evs

theorem readAll_pending (cap : Nat) (mode : Mode) (r : List Ev) :
    readAll cap mode (.pending :: r) = readAll cap mode r := by
  rw [readAll_unfold, readFramed_pending, ← readAll_unfold]

theorem clean_nil_payload : ∀ (c : List Ev), Clean c → payload c = [] → ∀ x ∈ c, x = Ev.pending := by
  intro c
  induction c with
  | nil => intro _ _ x hx; simp at hx
  | cons e t ih =>
    intro hc hp x hx
    cases e with
    | eof => simp [Clean] at hc
    | fail => simp [Clean] at hc
    | stall => simp [Clean] at hc
    | chunk bs =>
      simp only [payload, List.append_eq_nil_iff] at hp
      exact absurd hp.1 hc.1
    | pending =>
      rcases List.mem_cons.mp hx with h | h
      · exact h
      · exact ih hc (by simpa [payload] using hp) x h

theorem readAll_skip_pendings (cap : Nat) (mode : Mode) (tail : List Ev) :
    ∀ (c : List Ev), (∀ x ∈ c, x = Ev.pending) → readAll cap mode (c ++ tail) = readAll cap mode tail := by
  intro c
  induction c with
  | nil => intro _; rfl
  | cons e t ih =>
    intro h
    have he : e = .pending := h e (by simp)
    subst he
    rw [List.cons_append, readAll_pending]
    exact ih (fun x hx => h x (by simp [hx]))

/-- split invariance, compositional form -/
theorem readAll_clean (cap : Nat) (mode : Mode) (tail : List Ev) :
    ∀ (msgs : List Bytes) (c : List Ev), (∀ m ∈ msgs, fits mode m ∧ m.length ≤ cap) → Clean c →
      payload c = (msgs.map (frame mode)).flatten →
      readAll cap mode (c ++ tail) = msgs.map .ok ++ readAll cap mode tail := by
  intro msgs
  induction msgs with
  | nil =>
    intro c _ hc hp
    simp only [List.map_nil, List.flatten_nil] at hp
    simp only [List.map_nil, List.nil_append]
    exact readAll_skip_pendings cap mode tail c (clean_nil_payload c hc hp)
  | cons m ms ih =>
    intro c hm hc hp
    simp only [List.map_cons, List.flatten_cons] at hp
    obtain ⟨hf, hcap⟩ := hm m (by simp)
    obtain ⟨c', k1, k2, _, k4⟩ := readFramed_clean cap mode c m _ tail hc hp hf hcap
    rw [readAll_unfold, k4]
    simp only [List.map_cons, List.cons_append]
    rw [ih c' (fun x hx => hm x (by simp [hx])) k1 k2]

theorem readAll_nil (cap : Nat) (mode : Mode) : readAll cap mode [] = [.error .eof] := by
  obtain ⟨k, hk⟩ := prefixSize_pos mode
  simp [readAll, iterF, readFramed, hk, readExact]

/-! ### the second copy of the read loop -/

theorem recvBodyF_succ (cap f : Nat) (evs : List Ev) :
    recvBodyF cap (f+1) evs =
      match readFramed cap .distribution evs with
      | ⟨.ok [], r, _⟩ => recvBodyF cap f r
      | o => o := by
  simp only [recvBodyF, readFramed, Mode.prefixSize]
  cases h1 : readExact 4 evs with
  | mk res r =>
    cases res with
    | error e => rfl
    | ok lb =>
      simp only
      by_cases h0 : lenOf lb = 0
      · simp only [h0, if_true]
      · simp only [h0, if_false]
        by_cases hc : lenOf lb > cap
        · simp only [hc, if_true]
        · simp only [hc, if_false]
          cases h2 : readExact (lenOf lb) r with
          | mk res2 r2 =>
            cases res2 with
            | error e => rfl
            | ok t =>
              cases t with
              | nil =>
                have := (readExact_ok _ _ _ _ h2).1
                simp at this
                exact absurd this.symm h0
              | cons x xs => rfl

/-- soundness of the second copy on every script -/
theorem recvBodyF_ok (cap : Nat) : ∀ (f : Nat) (evs : List Ev) (m : Bytes), (recvBodyF cap f evs).res = .ok m →
    weight (recvBodyF cap f evs).rest < weight evs ∧ m ≠ [] ∧ m.length ≤ cap ∧ fits .distribution m ∧
      (recvBodyF cap f evs).allocRequested = m.length ∧
      ∃ j, payload evs = (List.replicate j (frame .distribution [])).flatten ++ frame .distribution m
        ++ payload (recvBodyF cap f evs).rest := by
  intro f
  induction f with
  | zero => intro evs m h; simp [recvBodyF] at h
  | succ f ih =>
    intro evs m h
    rw [recvBodyF_succ] at h ⊢
    cases hr : readFramed cap .distribution evs with
    | mk res r a =>
      rw [hr] at h
      cases res with
      | error e => simp at h
      | ok t =>
        have hk := readFramed_ok cap .distribution evs t (by rw [hr])
        rw [hr] at hk
        simp only at hk
        cases t with
        | nil =>
          simp only at h ⊢
          obtain ⟨i1, i2, i3, i4, i5, j, i6⟩ := ih r m h
          refine ⟨by omega, i2, i3, i4, i5, j + 1, ?_⟩
          rw [hk.1, i6, List.replicate_succ]
          simp [List.append_assoc]
        | cons x xs =>
          simp only at h ⊢
          simp at h
          subst h
          refine ⟨hk.2.2.2.1, by simp, hk.2.2.1, hk.2.1, hk.2.2.2.2, 0, ?_⟩
          simp [hk.1]

theorem recvBodyF_fuel (cap : Nat) : ∀ (f1 f2 : Nat) (evs : List Ev), weight evs < f1 → weight evs < f2 →
    recvBodyF cap f1 evs = recvBodyF cap f2 evs := by
  intro f1
  induction f1 with
  | zero => intro f2 evs h; omega
  | succ f1 ih =>
    intro f2 evs h1 h2
    cases f2 with
    | zero => omega
    | succ f2 =>
      rw [recvBodyF_succ, recvBodyF_succ]
      cases hr : readFramed cap .distribution evs with
      | mk res r a =>
        cases res with
        | error e => rfl
        | ok t =>
          cases t with
          | cons x xs => rfl
          | nil =>
            simp only
            have hk := (readFramed_ok cap .distribution evs [] (by rw [hr])).2.2.2.1
            rw [hr] at hk
            simp only at hk
            exact ih f2 r (by omega) (by omega)

theorem recvBody_step (cap : Nat) :
    ∀ evs m, (recvBody cap evs).res = .ok m → weight (recvBody cap evs).rest < weight evs :=
  fun evs m h => (recvBodyF_ok cap _ evs m h).1

theorem recvAll_unfold (cap : Nat) (evs : List Ev) :
    recvAll cap evs =
      match (recvBody cap evs).res with
      | .error e => [.error e]
      | .ok m => .ok m :: recvAll cap (recvBody cap evs).rest :=
  iterF_unfold _ (recvBody_step cap) evs

theorem recvBody_pending (cap : Nat) (r : List Ev) : recvBody cap (.pending :: r) = recvBody cap r := by
  show recvBodyF cap (1 + weight r + 1) (.pending :: r) = recvBodyF cap (weight r + 1) r
  rw [recvBodyF_succ, recvBodyF_succ, readFramed_pending]
  cases hr : readFramed cap .distribution r with
  | mk res rr a =>
    cases res with
    | error e => rfl
    | ok t =>
      cases t with
      | cons x xs => rfl
      | nil =>
        simp only
        have hk := (readFramed_ok cap .distribution r [] (by rw [hr])).2.2.2.1
        rw [hr] at hk
        simp only at hk
        exact recvBodyF_fuel cap _ _ rr (by omega) (by omega)

/-- a tick at the head of a clean script is skipped -/
theorem recvBody_clean_tick (cap : Nat) (c : List Ev) (rest : Bytes) (tail : List Ev) (hc : Clean c)
    (hp : payload c = frame .distribution [] ++ rest) :
    ∃ c', Clean c' ∧ payload c' = rest ∧ recvBody cap (c ++ tail) = recvBody cap (c' ++ tail) := by
  obtain ⟨c', k1, k2, k3, k4⟩ := readFramed_clean cap .distribution c [] rest tail hc hp
    (by unfold fits; simp [Mode.prefixSize]) (by simp)
  refine ⟨c', k1, k2, ?_⟩
  show recvBodyF cap (weight (c ++ tail) + 1) (c ++ tail) = recvBodyF cap (weight (c' ++ tail) + 1) (c' ++ tail)
  rw [recvBodyF_succ, k4]
  simp only
  apply recvBodyF_fuel
  · simp only [weight_append]; omega
  · omega

/-- a non-empty message at the head of a clean script is returned, whatever the chunking -/
theorem recvBody_clean_msg (cap : Nat) (c : List Ev) (m rest : Bytes) (tail : List Ev) (hc : Clean c)
    (hp : payload c = frame .distribution m ++ rest) (hm : m ≠ []) (hf : fits .distribution m) (hcap : m.length ≤ cap) :
    ∃ c', Clean c' ∧ payload c' = rest ∧ recvBody cap (c ++ tail) = ⟨.ok m, c' ++ tail, m.length⟩ := by
  obtain ⟨c', k1, k2, k3, k4⟩ := readFramed_clean cap .distribution c m rest tail hc hp hf hcap
  refine ⟨c', k1, k2, ?_⟩
  show recvBodyF cap (weight (c ++ tail) + 1) (c ++ tail) = _
  rw [recvBodyF_succ, k4]
  cases m with
  | nil => exact absurd rfl hm
  | cons x xs => rfl

theorem recvAll_skip_pendings (cap : Nat) (tail : List Ev) :
    ∀ (c : List Ev), (∀ x ∈ c, x = Ev.pending) → recvAll cap (c ++ tail) = recvAll cap tail := by
  intro c
  induction c with
  | nil => intro _; rfl
  | cons e t ih =>
    intro h
    have he : e = .pending := h e (by simp)
    subst he
    rw [List.cons_append, recvAll_unfold, recvBody_pending, ← recvAll_unfold]
    exact ih (fun x hx => h x (by simp [hx]))

/-- split invariance of the second copy, compositional form: ticks vanish, the other bodies come out in order -/
theorem recvAll_clean (cap : Nat) (tail : List Ev) :
    ∀ (bodies : List Bytes) (c : List Ev), (∀ m ∈ bodies, fits .distribution m ∧ m.length ≤ cap) → Clean c →
      payload c = (bodies.map (frame .distribution)).flatten →
      recvAll cap (c ++ tail) = (bodies.filter (· ≠ [])).map .ok ++ recvAll cap tail := by
  intro bodies
  induction bodies with
  | nil =>
    intro c _ hc hp
    simp only [List.map_nil, List.flatten_nil] at hp
    simp only [List.filter_nil, List.map_nil, List.nil_append]
    exact recvAll_skip_pendings cap tail c (clean_nil_payload c hc hp)
  | cons m ms ih =>
    intro c hm hc hp
    simp only [List.map_cons, List.flatten_cons] at hp
    obtain ⟨hf, hcap⟩ := hm m (by simp)
    by_cases hne : m = []
    · subst hne
      obtain ⟨c', k1, k2, k3⟩ := recvBody_clean_tick cap c _ tail hc hp
      rw [recvAll_unfold, k3, ← recvAll_unfold]
      rw [ih c' (fun x hx => hm x (by simp [hx])) k1 k2]
      simp
    · obtain ⟨c', k1, k2, k3⟩ := recvBody_clean_msg cap c m _ tail hc hp hne hf hcap
      rw [recvAll_unfold, k3]
      simp only
      rw [ih c' (fun x hx => hm x (by simp [hx])) k1 k2]
      simp [hne]

theorem recvAll_nil (cap : Nat) : recvAll cap [] = [.error .eof] := by
  simp [recvAll, iterF, recvBody, recvBodyF, readExact]

/-! ### write side -/

theorem writeAll_nil (s : List WEv) : writeAll [] s = ⟨.ok (), [], s⟩ := by
  cases s <;> rfl

/-- what a sink accepted from `write_all` is a prefix of the buffer; all of it on success, not all of it on failure -/
theorem writeAll_spec : ∀ (s : List WEv) (buf : Bytes),
    (writeAll buf s).chunks.flatten <+: buf ∧
    ((writeAll buf s).res = .ok () → (writeAll buf s).chunks.flatten = buf) ∧
    (∀ e, (writeAll buf s).res = .error e → (writeAll buf s).chunks.flatten.length < buf.length) := by
  intro s
  induction s with
  | nil =>
    intro buf
    cases buf with
    | nil => simp [writeAll]
    | cons b bs => simp [writeAll]
  | cons e t ih =>
    intro buf
    cases buf with
    | nil => simp [writeAll_nil]
    | cons b bs =>
      cases e with
      | pending => simpa [writeAll] using ih (b :: bs)
      | fail => simp [writeAll]
      | stall => simp [writeAll]
      | accept k =>
        by_cases hk : k = 0
        · subst hk; simp [writeAll]
        · obtain ⟨i1, i2, i3⟩ := ih ((b :: bs).drop k)
          simp only [writeAll, hk, if_false, List.flatten_cons]
          refine ⟨?_, ?_, ?_⟩
          · obtain ⟨u, hu⟩ := i1
            refine ⟨u, ?_⟩
            rw [List.append_assoc, hu, List.take_append_drop]
          · intro h
            rw [i2 h, List.take_append_drop]
          · intro e h
            have := i3 e h
            have hl : ((b :: bs).take k).length + ((b :: bs).drop k).length = (b :: bs).length := by
              rw [← List.length_append, List.take_append_drop]
            rw [List.length_append]
            omega

/-- a sink that never fails, never accepts zero bytes and never stalls past the write timeout -/
def GoodSink (s : List WEv) : Prop := ∀ e ∈ s, e ≠ WEv.fail ∧ e ≠ WEv.accept 0 ∧ e ≠ WEv.stall

theorem writeAll_good : ∀ (s : List WEv) (buf : Bytes), GoodSink s →
    (writeAll buf s).res = .ok () ∧ GoodSink (writeAll buf s).rest := by
  intro s
  induction s with
  | nil =>
    intro buf h
    cases buf with
    | nil => exact ⟨rfl, h⟩
    | cons b bs => exact ⟨rfl, h⟩
  | cons e t ih =>
    intro buf h
    have ht : GoodSink t := fun x hx => h x (by simp [hx])
    cases buf with
    | nil => rw [writeAll_nil]; exact ⟨rfl, h⟩
    | cons b bs =>
      cases e with
      | pending => simpa [writeAll] using ih (b :: bs) ht
      | fail => exact absurd rfl (h .fail (by simp)).1
      | stall => exact absurd rfl (h .stall (by simp)).2.2
      | accept k =>
        by_cases hk : k = 0
        · subst hk; exact absurd rfl (h (.accept 0) (by simp)).2.1
        · simp only [writeAll, hk, if_false]
          exact ih _ ht

/-! ### over the cap, cut short -/

/-- a declared length above the cap on a clean script: refused right after the length bytes, nothing requested -/
theorem readFramed_clean_overcap (cap : Nat) (mode : Mode) (c : List Ev) (len : Nat) (rest : Bytes) (tail : List Ev)
    (hc : Clean c) (hp : payload c = beN mode.prefixSize len ++ rest) (hl : len < 256 ^ mode.prefixSize)
    (hcap : cap < len) :
    ∃ c', Clean c' ∧ payload c' = rest ∧
      readFramed cap mode (c ++ tail) = ⟨.error (.tooLarge len), c' ++ tail, 0⟩ := by
  obtain ⟨c1, k1, k2, _, k4⟩ := readExact_clean c _ _ tail hc hp
  rw [beN_length] at k4
  refine ⟨c1, k1, k2, ?_⟩
  have hlen : lenOf (beN mode.prefixSize len) = len := lenOf_beN _ _ hl
  have h0 : len ≠ 0 := by omega
  have h1 : len > cap := hcap
  simp only [readFramed, k4, hlen, h0, if_false, h1, if_true]

/-- end of stream inside a frame -/
theorem readFramed_clean_short (cap : Nat) (mode : Mode) (c : List Ev) (m missing : Bytes) (tail : List Ev)
    (hc : Clean c) (hp : payload c ++ missing = frame mode m) (hmiss : missing ≠ [])
    (hf : fits mode m) (hcap : m.length ≤ cap) (ht : tail = [] ∨ ∃ t, tail = .eof :: t) :
    (readFramed cap mode (c ++ tail)).res = .error .eof := by
  unfold frame at hp
  rcases List.append_eq_append_iff.mp hp with ⟨a', h1, h2⟩ | ⟨c', h1, h2⟩
  · -- the stream ends inside (or right after) the length bytes
    by_cases ha : a' = []
    · -- exactly the length bytes were delivered: the body read hits the end
      subst ha
      simp only [List.append_nil] at h1
      simp only [List.nil_append] at h2
      obtain ⟨c1, k1, k2, _, k4⟩ := readExact_clean c (beN mode.prefixSize m.length) [] tail hc (by simp [h1])
      rw [beN_length] at k4
      have hlen : lenOf (beN mode.prefixSize m.length) = m.length := lenOf_beN _ _ hf
      have hm0 : m.length ≠ 0 := by
        intro h; apply hmiss; rw [h2]; exact List.length_eq_zero_iff.mp h
      have hcap' : ¬ m.length > cap := by omega
      have hs := readExact_short c1 m.length tail k1 (by rw [k2]; simp; omega) ht
      simp only [readFramed, k4, hlen, hm0, if_false, hcap']
      exact hs
    · have hlt : (payload c).length < mode.prefixSize := by
        have := congrArg List.length h1
        rw [beN_length, List.length_append] at this
        have : 0 < a'.length := List.length_pos_iff.mpr ha
        omega
      have hs := readExact_short c mode.prefixSize tail hc hlt ht
      unfold readFramed
      cases hr : readExact mode.prefixSize (c ++ tail) with
      | mk res r =>
        rw [hr] at hs
        simp only at hs
        subst hs
        rfl
  · -- the length bytes arrived, the body did not (completely)
    obtain ⟨c1, k1, k2, _, k4⟩ := readExact_clean c (beN mode.prefixSize m.length) c' tail hc h1
    rw [beN_length] at k4
    have hlen : lenOf (beN mode.prefixSize m.length) = m.length := lenOf_beN _ _ hf
    have hml : m.length = c'.length + missing.length := by rw [h2]; simp
    have hpos : 0 < missing.length := List.length_pos_iff.mpr hmiss
    have hm0 : m.length ≠ 0 := by omega
    have hcap' : ¬ m.length > cap := by omega
    have hs := readExact_short c1 m.length tail k1 (by rw [k2]; omega) ht
    simp only [readFramed, k4, hlen, hm0, if_false, hcap']
    exact hs

theorem recvBodyF_alloc_le (cap : Nat) : ∀ (f : Nat) (evs : List Ev), (recvBodyF cap f evs).allocRequested ≤ cap := by
  intro f
  induction f with
  | zero => intro evs; simp [recvBodyF]
  | succ f ih =>
    intro evs
    rw [recvBodyF_succ]
    have := readFramed_alloc_le cap .distribution evs
    cases hr : readFramed cap .distribution evs with
    | mk res r a =>
      rw [hr] at this
      cases res with
      | error e => exact this
      | ok t =>
        cases t with
        | nil => exact ih r
        | cons x xs => exact this

theorem recvBody_clean_overcap (cap : Nat) (c : List Ev) (len : Nat) (rest : Bytes) (tail : List Ev)
    (hc : Clean c) (hp : payload c = beN 4 len ++ rest) (hl : len < 256 ^ 4) (hcap : cap < len) :
    ∃ c', Clean c' ∧ payload c' = rest ∧
      recvBody cap (c ++ tail) = ⟨.error (.tooLarge len), c' ++ tail, 0⟩ := by
  obtain ⟨c', k1, k2, k3⟩ := readFramed_clean_overcap cap .distribution c len rest tail hc hp hl hcap
  refine ⟨c', k1, k2, ?_⟩
  show recvBodyF cap (weight (c ++ tail) + 1) (c ++ tail) = _
  rw [recvBodyF_succ, k3]

/-- a retrying caller sees what a non-retrying one sees when no timeout occurs -/
theorem iterRetryF_eq (step : List Ev → RdOut) : ∀ (f : Nat) (evs : List Ev),
    (∀ x ∈ iterF step f evs, x ≠ .error .timeout) → iterRetryF step f evs = iterF step f evs := by
  intro f
  induction f with
  | zero => intro _ _; rfl
  | succ f ih =>
    intro evs h
    simp only [iterF, iterRetryF] at h ⊢
    cases hr : (step evs).res with
    | error e =>
      rw [hr] at h
      cases e with
      | timeout => simp at h
      | eof => rfl
      | io => rfl
      | tooLarge n => rfl
    | ok m =>
      rw [hr] at h
      simp only at h ⊢
      rw [ih _ (fun x hx => h x (by simp [hx]))]

end Edp.Framing
