import EdpVerif.Generated.MiscC16
import EdpVerif.Generated.MiscC16b
import EdpVerif.Generated.MiscState
import EdpVerif.Lemmas.PidAlloc
import EdpVerif.Lemmas.RefCounter
import EdpVerif.Lemmas.NodeIds
/-
C16 — allocated pids and references are unique under any interleaving.
Property theorems only; the model is EdpVerif/Impl/PidAlloc.lean and EdpVerif/Impl/RefCounter.lean, helper lemmas
(the inductive invariants) are in EdpVerif/Lemmas/PidAlloc.lean and EdpVerif/Lemmas/RefCounter.lean.

A schedule is a list of events (`Ev.task t`: thread `t` takes its next atomic step, `Ev.setCreation c`: a
`set_creation(c)` call); thread ids are arbitrary naturals, every thread may call `allocate` any number of times.
All statements quantify over every schedule and every start state unless a hypothesis says otherwise.
-/
namespace Edp.Props.C16
open Edp Edp.Impl

section Pids
open Edp.Impl.PidAlloc

/-- table tie, re-checked against the source on every run: the atomic steps of the model are the operations on shared
state of `allocate()` / `make_reference()` in source order (wrap branch, then the tail of the other branch), and the
process-number limit is 2^20 -/
theorem C16_model_steps_are_the_source_steps :
    Gen.ALLOCATE_SHARED_OPS =
        [Pc.idle, .locked, .gotId 0, .gotSerial 0 0, .storedWrap 0, .gotOut 0 0].map Pc.opName
          ++ [Pc.gotSerial 0 0, .gotOut 0 0].map Pc.opName
      ∧ Gen.MAKE_REFERENCE_SHARED_OPS =
        [RefCounter.RPc.idle, .f1 0, .f2 0 0, .f3 0 0 0].map RefCounter.RPc.opName
      ∧ MAXP = 2 ^ 20 := by decide

/-- nothing but the modelled steps touches the counters (regenerated from the source on every run): in node.rs
`reference_counter` is only ever advanced by `fetch_add` — three times in `make_reference`, once for a remote `unlink` —
and never stored, reset, loaded or cloned anywhere else (not in `start`, not on reconnect); in pid_allocator.rs `next_id`
and `next_serial` are touched inside `allocate()` only. The all-schedules theorems below speak about exactly these steps. -/
theorem C16_counters_touched_only_by_the_modelled_steps :
    Gen.REFERENCE_COUNTER_ACCESSES =
        ["unlink:fetch_add", "make_reference:fetch_add", "make_reference:fetch_add", "make_reference:fetch_add"]
      ∧ Gen.ALLOCATOR_COUNTER_ACCESSES =
        ["next_id@allocate:load", "next_id@allocate:store", "next_id@allocate:store",
         "next_serial@allocate:load", "next_serial@allocate:fetch_add"] := by decide

/-- the sequential function is the small-step semantics run by one thread without interruption (6 or 7 steps) -/
theorem C16_alloc_is_uninterrupted_run (s : Sh) (t : Nat) :
    (runTasks (St.init s) (List.replicate 7 t)).out.head? = some (t, (alloc s).1) := by
  by_cases h0 : s.poisoned = true <;>
  by_cases h1 : s.nextId + 1 ≥ U32 <;> by_cases h2 : s.nextId ≥ MAXP <;> by_cases h3 : s.nextSerial + 1 ≥ U64 <;>
    simp [runTasks, run, stepEv, step, hstep, St.init, upd, alloc, Pc.isGotOut, h0, h1, h2, h3]

/-- mutual exclusion: under every schedule a thread that is inside `allocate()` past `lock()` is the lock holder, so at
most one thread is between `lock()` and the return -/
theorem C16_mutual_exclusion (s0 : Sh) (evs : List Ev) (t : Nat) :
    (run (St.init s0) evs).pc t ≠ .idle → (run (St.init s0) evs).lock = some t :=
  (inv_run evs (inv_init s0)).holder t

example : (run (St.init (Sh.new 1)) [.task 3]).pc 3 ≠ .idle := by decide

/-- calls complete in the order in which `lock()` returned to them -/
theorem C16_completion_order_is_lock_order (s0 : Sh) (evs : List Ev) :
    (run (St.init s0) evs).acq =
      (run (St.init s0) evs).out.map (·.1) ++
        (match (run (St.init s0) evs).lock with | some t => [t] | none => []) :=
  (inv_run evs (inv_init s0)).acq

/-- linearisability, including `set_creation`: under every schedule the results of the finished calls, in lock
order, are those of running the ghost history `lin` sequentially; `lin` has one `alloc` per call, placed at the
step where the call loads `creation` (or fails), and the `set_creation`s in the order they happened. At most one call
(the lock holder's) is linearised but not finished. When the lock is free the shared state is the sequential one. -/
theorem C16_linearizable (s0 : Sh) (evs : List Ev) :
    let st := run (St.init s0) evs
    let q := seqRun s0 st.lin
    st.out.map (·.2) = q.1.take st.out.length ∧ q.1.length ≤ st.out.length + 1 ∧
      (st.lock = none → st.out.map (·.2) = q.1 ∧ st.sh = q.2) ∧
      Op.creations st.lin = Ev.creations evs := by
  intro st q
  have hinv : Inv s0 st := inv_run evs (inv_init s0)
  have hcre : Op.creations st.lin = Ev.creations evs := by
    show Op.creations (run (St.init s0) evs).lin = _
    rw [run_lin_creations evs (St.init s0)]
    rfl
  cases hl : st.lock with
  | none =>
    obtain ⟨hs, ho⟩ := hinv.free hl
    have hlen : q.1.length = st.out.length := by rw [← ho]; simp
    refine ⟨?_, by omega, fun _ => ⟨ho, hs⟩, hcre⟩
    rw [ho, ← hlen, List.take_length]
  | some t =>
    obtain ⟨_, hc⟩ := hinv.held t hl
    rcases hc with ⟨_, ho, _⟩ | ⟨p, _, _, ho⟩
    · have hlen : q.1.length = st.out.length := by rw [← ho]; simp
      refine ⟨?_, by omega, (fun h => by cases h), hcre⟩
      rw [ho, ← hlen, List.take_length]
    · have hlen : q.1.length = st.out.length + 1 := by rw [← ho]; simp
      refine ⟨?_, by omega, (fun h => by cases h), hcre⟩
      rw [← ho]
      exact (List.take_left' (by simp)).symm

/-- serial equivalence: under every schedule of thread steps (any number of threads, any number of calls each), the
results in lock-acquisition order are exactly those of the same number of allocations made one after the other -/
theorem C16_serial_equiv (s0 : Sh) (σ : List Nat) :
    (runTasks (St.init s0) σ).out.map (·.2) =
      (List.range (runTasks (St.init s0) σ).out.length).map (seqAlloc s0) := by
  have hnil : Ev.creations (σ.map Ev.task) = [] := by
    induction σ with
    | nil => rfl
    | cons t σ ih => simpa [Ev.creations] using ih
  obtain ⟨h1, h2, _, h4⟩ := C16_linearizable s0 (σ.map .task)
  rw [hnil] at h4
  have hall : ∀ (l : List Op), Op.creations l = [] → ∀ op ∈ l, op = .alloc := by
    intro l
    induction l with
    | nil => intro _ op h; cases h
    | cons o l ih =>
      intro h op hop
      cases o with
      | setCreation c => simp [Op.creations] at h
      | alloc =>
        simp only [Op.creations] at h
        rcases List.mem_cons.mp hop with e | e
        · exact e
        · exact ih h op e
  have hq := seqRun_allocs s0 _ (hall _ h4)
  unfold runTasks
  rw [h1, hq]
  have hlen : (run (St.init s0) (σ.map .task)).out.length ≤ (run (St.init s0) (σ.map .task)).lin.length := by
    have := congrArg List.length h1
    rw [hq] at this
    simp only [List.length_map, List.length_take, List.length_range] at this
    omega
  exact take_map_range _ _ _ hlen

/-- with `set_creation` calls interleaved anywhere, the (id, serial) stream is still that of a plain row of
allocations: concurrency and creation changes never influence which numbers are handed out -/
theorem C16_serial_equiv_keys (s0 : Sh) (evs : List Ev) :
    (run (St.init s0) evs).out.map (fun x => x.2.key) =
      (List.range (run (St.init s0) evs).out.length).map (fun i => (seqAlloc s0 i).key) := by
  obtain ⟨h1, _, _, _⟩ := C16_linearizable s0 evs
  have he := seqRun_erased s0 (run (St.init s0) evs).lin
  have hk : (seqRun s0 (run (St.init s0) evs).lin).1.map Res.key =
      (List.range (seqRun s0 (run (St.init s0) evs).lin).1.length).map (fun i => (seqAlloc s0 i).key) := by
    have := congrArg (List.map Res.key) he
    rw [List.map_map, List.map_map] at this
    have e1 : (Res.key ∘ Res.setC 0) = Res.key := funext (key_setC 0)
    have e2 : (Res.key ∘ fun i => (seqAlloc s0 i).setC 0) = fun i => (seqAlloc s0 i).key :=
      funext (fun i => key_setC 0 _)
    rw [e1, e2] at this
    exact this
  have hlen : (run (St.init s0) evs).out.length ≤ (seqRun s0 (run (St.init s0) evs).lin).1.length := by
    have := congrArg List.length h1
    simp only [List.length_map, List.length_take] at this
    omega
  have : (run (St.init s0) evs).out.map (fun x => x.2.key) =
      ((run (St.init s0) evs).out.map (·.2)).map Res.key := by simp [List.map_map, Function.comp]
  rw [this, h1, List.map_take, hk]
  exact take_map_range _ _ _ hlen

/-- injectivity of the sequential run across the id wrap and across the serial's 32-bit wrap: two successful
allocations fewer than `MAX_PROCESSES_PER_NODE * 2^32` apart never carry the same (id, serial) -/
theorem C16_seq_injective (s0 : Sh) (hg : Good s0) (i j : Nat) (hij : i < j) (hd : j - i < MAXP * U32)
    (p q : Pid) (hp : seqAlloc s0 i = .ok p) (hq : seqAlloc s0 j = .ok q) :
    (p.id, p.serial) ≠ (q.id, q.serial) :=
  seqAlloc_key_ne s0 hg i j hij hd p q hp hq

example : ∃ s0 i j p q, Good s0 ∧ i < j ∧ j - i < MAXP * U32 ∧ seqAlloc s0 i = .ok p ∧ seqAlloc s0 j = .ok q :=
  ⟨Sh.new 1, 0, 1, ⟨1, 0, 1⟩, ⟨2, 0, 1⟩, good_new 1, by decide, by decide, by decide, by decide⟩

/-- the same from every counter position, including those only reachable through the `*_test_only` accessors
(id 0, ids above the limit): the first call hands out the odd id once and the allocator is well-formed afterwards -/
theorem C16_seq_injective_any (s0 : Sh) (i j : Nat) (hij : i < j) (hd : j - i < MAXP * U32)
    (p q : Pid) (hp : seqAlloc s0 i = .ok p) (hq : seqAlloc s0 j = .ok q) :
    (p.id, p.serial) ≠ (q.id, q.serial) :=
  seqAlloc_key_ne_any s0 i j hij hd p q hp hq

example : seqAlloc ⟨0, 5, 1, false⟩ 0 = .ok ⟨0, 5, 1⟩ ∧ seqAlloc ⟨0, 5, 1, false⟩ 1 = .ok ⟨1, 5, 1⟩ ∧
    seqAlloc ⟨1048580, 5, 1, false⟩ 0 = .ok ⟨1048580, 6, 1⟩ ∧ seqAlloc ⟨1048580, 5, 1, false⟩ 1 = .ok ⟨1, 6, 1⟩ := by
  decide

/-- the bound is exact: the (id, serial) space is used completely and the stream repeats after exactly
`MAX_PROCESSES_PER_NODE * 2^32` allocations -/
theorem C16_seq_period (s0 : Sh) (hg : Good s0) (i : Nat) (p q : Pid)
    (hp : seqAlloc s0 i = .ok p) (hq : seqAlloc s0 (i + MAXP * U32) = .ok q) :
    (p.id, p.serial) = (q.id, q.serial) := by
  rw [seqAlloc_ok s0 hg i p hp, seqAlloc_ok s0 hg _ q hq]
  simp only [Prod.mk.injEq, MAXP_eq, U32]
  generalize pos s0 = a
  omega

/-- closed form: the `i`-th allocation from a well-formed state at position `a = pos s0` is
(`(a+i) mod MAX + 1`, `((a+i+1) div MAX) mod 2^32`) with the creation of the allocator -/
theorem C16_seq_closed_form (s0 : Sh) (hg : Good s0) (i : Nat) (p : Pid) (h : seqAlloc s0 i = .ok p) :
    p = ⟨(pos s0 + i) % MAXP + 1, ((pos s0 + i + 1) / MAXP) % U32, s0.creation⟩ :=
  seqAlloc_ok s0 hg i p h

example : seqAlloc (Sh.new 7) 0 = .ok ⟨1, 0, 7⟩ := by decide

/-- a well-formed allocator neither panics nor reports a poisoned lock before the 64-bit serial is exhausted -/
theorem C16_seq_never_fails (s0 : Sh) (hg : Good s0) (i : Nat) (hb : (pos s0 + i) / MAXP + 1 < U64) :
    ∃ p, seqAlloc s0 i = .ok p :=
  seqAlloc_is_ok s0 hg i hb

example : Good (Sh.new 1) ∧ (pos (Sh.new 1) + 5) / MAXP + 1 < U64 := ⟨good_new 1, by decide⟩

/-- non-vacuity of `C16_seq_period`: both allocations succeed on a fresh allocator -/
example : ∃ p q, seqAlloc (Sh.new 1) 0 = .ok p ∧ seqAlloc (Sh.new 1) (0 + MAXP * U32) = .ok q := by
  obtain ⟨p, hp⟩ := C16_seq_never_fails (Sh.new 1) (good_new 1) 0 (by decide)
  obtain ⟨q, hq⟩ := C16_seq_never_fails (Sh.new 1) (good_new 1) (0 + MAXP * U32) (by decide)
  exact ⟨p, q, hp, hq⟩

/-- uniqueness under every schedule (threads, calls and `set_creation`s in any number and order) and from every
counter position: the (id, serial) pairs of the pids handed out are pairwise distinct as long as at most
`MAX_PROCESSES_PER_NODE * 2^32` calls have finished -/
theorem C16_unique (s0 : Sh) (evs : List Ev)
    (hn : (run (St.init s0) evs).out.length ≤ MAXP * U32) :
    ((run (St.init s0) evs).out.filterMap (fun x => x.2.key)).Nodup := by
  have hk := C16_serial_equiv_keys s0 evs
  have : (run (St.init s0) evs).out.filterMap (fun x => x.2.key) =
      ((run (St.init s0) evs).out.map (fun x => x.2.key)).filterMap id := by
    rw [List.filterMap_map]; rfl
  rw [this, hk, List.filterMap_map]
  rw [List.Nodup, List.pairwise_filterMap]
  have hr : (List.range (run (St.init s0) evs).out.length).Pairwise (· < ·) := List.pairwise_lt_range
  refine List.Pairwise.imp_of_mem ?_ hr
  intro i j hi hj hij b hb b' hb'
  simp only [Function.comp, id] at hb hb'
  have hj' : j < (run (St.init s0) evs).out.length := List.mem_range.mp hj
  cases hp : seqAlloc s0 i with
  | ok p =>
    cases hq : seqAlloc s0 j with
    | ok q =>
      rw [hp] at hb; rw [hq] at hb'
      simp only [Res.key, Option.some.injEq] at hb hb'
      rw [← hb, ← hb']
      exact seqAlloc_key_ne_any s0 i j hij (by omega) p q hp hq
    | err => rw [hq] at hb'; cases hb'
    | panic => rw [hq] at hb'; cases hb'
  | err => rw [hp] at hb; cases hb
  | panic => rw [hp] at hb; cases hb

example : ∃ s0 evs, (run (St.init s0) evs).out.length ≤ MAXP * U32 ∧
    (run (St.init s0) evs).out.map (·.2) = [.ok ⟨1, 0, 1⟩, .ok ⟨2, 0, 1⟩] :=
  ⟨Sh.new 1, [.task 0, .task 1, .task 0, .task 0, .task 0, .task 1, .task 0, .task 0, .task 1, .task 1, .task 1,
    .task 1, .task 1, .task 1], by decide, by decide⟩

/-- every pid carries a creation that was in force: the allocator's initial one or one stored by a `set_creation`
of the schedule (the exact value — the one in force at the call's linearisation point — is given by
`C16_linearizable`) -/
theorem C16_creation_in_force (s0 : Sh) (evs : List Ev) (t : Nat) (p : Pid)
    (h : (t, Res.ok p) ∈ (run (St.init s0) evs).out) :
    p.creation = s0.creation ∨ Ev.setCreation p.creation ∈ evs := by
  obtain ⟨h1, _, _, h4⟩ := C16_linearizable s0 evs
  have hm : Res.ok p ∈ (run (St.init s0) evs).out.map (·.2) := List.mem_map.mpr ⟨_, h, rfl⟩
  rw [h1] at hm
  have := seqRun_creations s0 _ p (List.mem_of_mem_take hm)
  rw [h4, Ev.mem_creations] at this
  exact this

example : (0, Res.ok ⟨1, 0, 9⟩) ∈
    (run (St.init (Sh.new 1)) [.task 0, .task 0, .setCreation 9, .task 0, .task 0, .task 0, .task 0]).out := by decide

/-- without concurrent `set_creation` every pid carries the allocator's creation -/
theorem C16_creation_constant (s0 : Sh) (σ : List Nat) (t : Nat) (p : Pid)
    (h : (t, Res.ok p) ∈ (runTasks (St.init s0) σ).out) : p.creation = s0.creation := by
  rcases C16_creation_in_force s0 (σ.map .task) t p h with h | h
  · exact h
  · simp at h

example : (0, Res.ok ⟨1, 0, 1⟩) ∈ (runTasks (St.init (Sh.new 1)) [0, 0, 0, 0, 0, 0]).out := by decide

end Pids

section Refs
open Edp.Impl.RefCounter

/-- references are unique under every schedule of `make_reference` steps, remote `unlink`s and creation stores:
while at most 2^32 `fetch_add`s have been performed on the node's counter (3 per `make_reference`, 1 per remote
`unlink`), all references handed out differ — already in their first word -/
theorem C16_refs_unique (c0 cr : Nat) (hc : c0 < U32) (evs : List REv)
    (hn : (run (RSt.init c0 cr) evs).issued ≤ U32) :
    ((run (RSt.init c0 cr) evs).out.map (·.2)).Pairwise (fun r r' => r.w0 ≠ r'.w0) ∧
      ((run (RSt.init c0 cr) evs).out.map (·.2)).Nodup := by
  have hinv := rinv_run evs (rinv_init c0 cr hc) hn
  have hp : ((run (RSt.init c0 cr) evs).out.map (·.2)).Pairwise (fun r r' => r.w0 ≠ r'.w0) := by
    rw [List.pairwise_map]; exact hinv.outOut
  refine ⟨hp, ?_⟩
  exact hp.imp (fun h e => h (by rw [e]))

example : ∃ evs, (run (RSt.init 4294967295 1) evs).issued ≤ U32 ∧
    (run (RSt.init 4294967295 1) evs).out.map (·.2) = [⟨1, 0, 2, 4⟩, ⟨1, 4294967295, 1, 3⟩] :=
  ⟨[.task 0, .task 1, .task 0, .task 1, .task 0, .task 1, .task 1, .task 1, .task 0, .task 0], by decide, by decide⟩

/-- each event performs at most one `fetch_add` -/
theorem C16_refs_issued_le (c0 cr : Nat) (evs : List REv) : (run (RSt.init c0 cr) evs).issued ≤ evs.length := by
  have key : ∀ (evs : List REv) (st : RSt), (run st evs).issued ≤ st.issued + evs.length := by
    intro evs
    induction evs with
    | nil => intro st; exact Nat.le_refl _
    | cons e evs ih =>
      intro st
      have h1 : (stepEv st e).issued ≤ st.issued + 1 := by
        cases e with
        | setCreation c => exact Nat.le_succ _
        | unlink => exact Nat.le_refl _
        | task t => simp only [stepEv, step]; split <;> simp [bump]
      have := ih (stepEv st e)
      show (run (stepEv st e) evs).issued ≤ _
      simp only [List.length_cons]
      omega
  simpa [RSt.init] using key evs (RSt.init c0 cr)

/-- every reference carries a creation that was in force: the initial one or one stored during the schedule -/
theorem C16_refs_creation_in_force (c0 cr : Nat) (evs : List REv) (x : Nat × Ref)
    (h : x ∈ (run (RSt.init c0 cr) evs).out) : x.2.creation = cr ∨ REv.setCreation x.2.creation ∈ evs := by
  have hinit : CInv (fun c => c = cr ∨ REv.setCreation c ∈ evs) (RSt.init c0 cr) :=
    ⟨Or.inl rfl, by intro t r h; simp [RSt.init] at h, by intro x h; simp [RSt.init] at h⟩
  exact (cinv_run evs (fun c hc => Or.inr hc) hinit).outs x h

example : (0, (⟨5, 0, 1, 2⟩ : Ref)) ∈
    (run (RSt.init 0 1) [.task 0, .task 0, .setCreation 5, .task 0, .task 0, .task 0]).out := by decide

/-- one thread calling `make_reference` `k` times in a row obtains `[c, c+1, c+2]`, `[c+3, c+4, c+5]`, … (mod 2^32) -/
theorem C16_refs_sequential (c0 cr t k : Nat) (hc : c0 < U32) :
    (run (RSt.init c0 cr) (seqCalls t k)).out = (List.range k).map (fun i => (t, seqRef c0 cr i)) := by
  have h := run_seqCalls t k (RSt.init c0 cr) rfl hc
  rw [h]
  rfl

example : (4294967295 : Nat) < U32 := by decide

/-- sequentially made references differ while fewer than 2^32 calls apart (3 is invertible modulo 2^32) … -/
theorem C16_refs_seq_injective (c0 cr i j : Nat) (hij : i < j) (hd : j - i < U32) :
    seqRef c0 cr i ≠ seqRef c0 cr j := by
  intro h
  have h0 : (c0 + 3 * i) % U32 = (c0 + 3 * j) % U32 := congrArg Ref.w0 h
  simp only [U32] at h0 hd
  have e : c0 + 3 * j - (c0 + 3 * i) = 3 * (j - i) := by clear h0; omega
  have h1 := Nat.sub_mod_eq_zero_of_mod_eq h0.symm
  rw [e] at h1
  have hdvd : 4294967296 ∣ 3 * (j - i) := Nat.dvd_of_mod_eq_zero h1
  have hc : Nat.Coprime 4294967296 3 := by decide
  have := Nat.le_of_dvd (by clear h0 h1 hdvd; omega) (hc.dvd_of_dvd_mul_left hdvd)
  clear h0 h1 hdvd
  omega

example : (0 : Nat) < 1 ∧ 1 - 0 < U32 := by decide

/-- … and repeat exactly after 2^32 calls: the three words come from one 32-bit counter, so a reference has 32 bits of
uniqueness, not 96 -/
theorem C16_refs_seq_period (c0 cr i : Nat) : seqRef c0 cr (i + U32) = seqRef c0 cr i := by
  have h0 : (c0 + 3 * (i + U32)) % U32 = (c0 + 3 * i) % U32 := by simp only [U32]; omega
  have h1 : (c0 + 3 * (i + U32) + 1) % U32 = (c0 + 3 * i + 1) % U32 := by simp only [U32]; omega
  have h2 : (c0 + 3 * (i + U32) + 2) % U32 = (c0 + 3 * i + 2) % U32 := by simp only [U32]; omega
  simp only [seqRef, h0, h1, h2]

end Refs

section NodeLevel
open Edp.Impl.NodeIds

/-- **Every identifier a node makes carries the creation in force when it was made** — for EVERY history of `start`
(with whatever EPMD answers, including failure and repeated attempts), `spawn`, the `allocate()` of `send`/`rpc`,
`make_reference` and remote `unlink`s on a fresh node: whichever call comes next, the pid or reference it makes carries
`inForce` of the history so far — the creation EPMD assigned at the one successful `start`, and 1 before it.  The node
keeps the creation in two places (`Node.creation` for references, the allocator's for pids); the invariant of the proof
is that they never differ, so a pid and a reference made back to back carry the same creation. -/
theorem C16_node_identifiers_carry_the_creation_in_force (pre : List Op) (op : Op) (c : Nat)
    (h : (step (run NSt.new pre).2 op).1.creation? = some c) : c = inForce false 1 pre := by
  obtain ⟨hs, hc⟩ := run_inv pre NSt.new rfl
  rw [step_out_creation _ op hs c h, hc]
  rfl

/-- a refused `spawn`, a failing EPMD, a start that assigns creation 7, a second `start` that is refused: the pid and the
reference made afterwards carry 7, the reference made before carries 1 -/
example : (run NSt.new [.spawn, .makeRef, .start none, .start (some 9)]).1 =
      [.refused, .ref ⟨1, 0, 1, 2⟩, .refused, .refused] ∧
    (run NSt.new [.makeRef, .start (some 7), .start (some 9), .spawn, .makeRef, .allocate]).1 =
      [.ref ⟨1, 0, 1, 2⟩, .startOk, .refused, .pid (.ok ⟨1, 0, 7⟩), .ref ⟨7, 3, 4, 5⟩, .pid (.ok ⟨2, 0, 7⟩)] := by
  decide

/-- the creation changes at most once in a node's life: once a `start` has been attempted, no later call changes it -/
theorem C16_node_creation_fixed_after_start (c : Nat) (r : List Op) : inForce true c r = c := inForce_started c r

/-- the exact creation under concurrency: in the sequential history a schedule is equivalent to (`C16_linearizable`),
an allocation that follows the operations `pre` carries the creation stored LAST in `pre` (the allocator's initial one
when there was no `set_creation`) — "the value in force" is the latest store before the call's linearisation point -/
theorem C16_creation_is_the_latest_store (s0 : PidAlloc.Sh) (pre : List PidAlloc.Op) (p : PidAlloc.Pid)
    (h : (PidAlloc.alloc (PidAlloc.seqRun s0 pre).2).1 = .ok p) :
    p.creation = ((PidAlloc.Op.creations pre).getLast?).getD s0.creation := by
  rw [alloc_pid_creation _ p h, PidAlloc.seqRun_state_creation]

example : (PidAlloc.alloc (PidAlloc.seqRun (PidAlloc.Sh.new 1) [.setCreation 5, .alloc, .setCreation 6]).2).1 =
    .ok ⟨2, 0, 6⟩ := by decide

/-- every identifier of the local node comes from the allocator or from `make_reference` (regenerated from the source on
every run): in edp_client and edp_node an `ExternalPid` is constructed only inside `PidAllocator::allocate`, an
`ExternalReference` only inside `Node::make_reference`; `allocate()` is called by `spawn`, `send_remote` and the rpc
call, `make_reference()` by `monitor`; a creation is stored only by `set_creation` and by `Node::start` (which stores
both copies).  A second place that makes identifiers, or one that changes the creation, fails this theorem. -/
theorem C16_identifiers_are_made_by_the_modelled_code_only :
    Gen.ID_CONSTRUCTOR_SITES =
        ["edp_client/pid_allocator.rs:allocate:ExternalPid::new", "edp_client/pid_allocator.rs:allocate:ExternalPid::new",
         "edp_node/node.rs:make_reference:ExternalReference::new"]
      ∧ Gen.ALLOCATE_CALL_SITES =
        ["edp_node/node.rs:spawn", "edp_node/node.rs:send_remote", "edp_node/node.rs:rpc_call_raw_with_timeout"]
      ∧ Gen.MAKE_REFERENCE_CALL_SITES = ["edp_node/node.rs:monitor"]
      ∧ Gen.CREATION_STORE_SITES =
        ["edp_client/pid_allocator.rs:set_creation:store", "edp_node/node.rs:start:store",
         "edp_node/node.rs:start:set_creation"] := by decide

/-- **Pids handed out by a node are pairwise distinct over every history of `allocate`/`spawn`/`start`** (and
`make_reference`, `unlink`, refused and failing `start`s), already as (id, serial) — hence as (id, serial, creation)
triples WHATEVER creation EPMD assigns, in particular when it assigns the placeholder creation 1 of an unstarted node
again.  The condition the code relies on is exactly the one the model's `start` step states and `run_pidKeys` uses:
`start` stores the creation (`set_creation`) and leaves `next_id` / `next_serial` alone, so the numbers of a history
are those of ONE uninterrupted row of allocations (`C16_seq_injective_any`), inside the window of `MAX·2^32` calls. -/
theorem C16_node_pids_unique_across_start (s : NSt) (ops : List Op)
    (hn : (pidKeys (run s ops).1).length ≤ PidAlloc.MAXP * PidAlloc.U32) :
    ((pidKeys (run s ops).1).filterMap id).Nodup := by
  rw [run_pidKeys ops s]
  exact PidAlloc.seq_keys_nodup s.alloc _ hn

/-- a pid made before `start` (by an rpc call), EPMD assigning creation 1, then `spawn` and another call -/
example : pidKeys (run NSt.new [.allocate, .start (some 1), .spawn, .makeRef, .allocate]).1 =
      [some (1, 0), some (2, 0), some (3, 0)] ∧
    (run NSt.new [.allocate, .start (some 1), .spawn]).1 = [.pid (.ok ⟨1, 0, 1⟩), .startOk, .pid (.ok ⟨2, 0, 1⟩)] := by
  decide

/-- the condition is necessary: a `start` that REBUILT the allocator (`PidAllocator::new(name, creation)`) instead of
storing the creation would, when EPMD assigns creation 1, hand the pid made before `start` out again -/
theorem C16_rebuilding_the_allocator_in_start_would_repeat_a_pid :
    (step { (step NSt.new .allocate).2 with started := true, creation := 1, alloc := PidAlloc.Sh.new 1 } .spawn).1 =
      (step NSt.new .allocate).1 := by decide

/-- the allocator is built once and its field is written nowhere else (regenerated from the source on every run): one
`PidAllocator::new` in edp_client + edp_node (in `Node::with_hidden`), the `pid_allocator` field is only initialised in
that constructor and never assigned, and the raw-counter accessors (`next_id_test_only`, `next_serial_test_only`) are
not used outside tests.  With `C16_counters_touched_only_by_the_modelled_steps` and the creation stores of
`C16_identifiers_are_made_by_the_modelled_code_only`: nothing but `allocate()` moves the numbers, nothing but
`set_creation` moves the allocator's creation. -/
theorem C16_allocator_is_built_once_and_never_replaced :
    Gen.PID_ALLOCATOR_NEW_SITES = ["edp_node/node.rs:with_hidden"]
      ∧ Gen.PID_ALLOCATOR_FIELD_WRITES = ["edp_node/node.rs:with_hidden:let", "edp_node/node.rs:with_hidden:init"]
      ∧ Gen.RAW_COUNTER_ACCESSOR_USES = [] := by decide

end NodeLevel

/-- The shared state of the allocator model IS the state the code keeps (regenerated from the source on every run): the two
counters, the creation and the lock of `PidAllocator`; `Node` keeps one reference counter and one creation; nothing
process-wide. A second counter, a cache of issued identifiers or a spare slot would be state this model does not know. -/
theorem C16_state_is_the_sources_state :
    Edp.Gen.STRUCT_PidAllocator =
      ["node_name:Atom", "creation:AtomicU32", "next_id:AtomicU32", "next_serial:AtomicU64", "wrap_lock:Mutex<()>"]
    ∧ Edp.Gen.STRUCT_Node =
      ["name:Atom", "cookie:String", "creation:Arc<AtomicU32>", "pid_allocator:Arc<PidAllocator>",
       "reference_counter:Arc<AtomicU32>", "registry:Arc<ProcessRegistry>",
       "connections:Arc<DashMap<String,Arc<Mutex<Connection>>>>",
       "pending_rpcs:Arc<DashMap<String,oneshot::Sender<OwnedTerm>>>", "started:Arc<AtomicBool>",
       "listen_port:Option<u16>", "hidden:bool"]
    ∧ Edp.Gen.PROCESS_WIDE_STATE = [] := by decide

end Edp.Props.C16
