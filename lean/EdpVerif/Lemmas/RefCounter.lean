import EdpVerif.Impl.RefCounter
/-! Helper lemmas for C16 (references): the inductive invariant of the small-step semantics of `make_reference`:
every first word in circulation was issued by a distinct `fetch_add`, and fewer than 2^32 of them have happened. -/
namespace Edp.Impl.RefCounter

/-- `w` is the value returned by one of the first `n` `fetch_add`s -/
def issuedW (c0 n w : Nat) : Prop := ∃ k, k < n ∧ w = (c0 + k) % U32

theorem issuedW_mono {c0 n m w : Nat} (h : issuedW c0 n w) (hnm : n ≤ m) : issuedW c0 m w := by
  obtain ⟨k, hk, e⟩ := h
  exact ⟨k, Nat.lt_of_lt_of_le hk hnm, e⟩

/-- the next value is not among those issued, while fewer than 2^32 have been -/
theorem fresh_ne {c0 n w : Nat} (h : issuedW c0 n w) (hn : n < U32) : w ≠ (c0 + n) % U32 := by
  obtain ⟨k, hk, e⟩ := h
  subst e
  simp only [U32] at hn ⊢
  omega

/-- first word held by a thread inside `make_reference` -/
def RPc.first : RPc → Option Nat
  | .idle => none
  | .f1 a => some a
  | .f2 a _ => some a
  | .f3 a _ _ => some a
  | .got r => some r.w0

structure RInv (c0 : Nat) (st : RSt) : Prop where
  cnt : st.counter = (c0 + st.issued) % U32
  pcIss : ∀ t w, (st.pc t).first = some w → issuedW c0 st.issued w
  outIss : ∀ x ∈ st.out, issuedW c0 st.issued x.2.w0
  pcPc : ∀ t t' w, t ≠ t' → (st.pc t).first = some w → (st.pc t').first ≠ some w
  pcOut : ∀ t w, (st.pc t).first = some w → ∀ x ∈ st.out, x.2.w0 ≠ w
  outOut : st.out.Pairwise (fun x y => x.2.w0 ≠ y.2.w0)

theorem rinv_init (c0 cr : Nat) (h : c0 < U32) : RInv c0 (RSt.init c0 cr) := by
  refine ⟨?_, ?_, ?_, ?_, ?_, ?_⟩
  · simp only [RSt.init, U32] at h ⊢; omega
  · intro t w h; simp [RSt.init, RPc.first] at h
  · intro x h; simp [RSt.init] at h
  · intro t t' w _ h; simp [RSt.init, RPc.first] at h
  · intro t w h; simp [RSt.init, RPc.first] at h
  · simp [RSt.init]

theorem upd_same (f : Nat → RPc) (t : Nat) (v : RPc) : upd f t v t = v := by simp [upd]
theorem upd_other (f : Nat → RPc) (t t' : Nat) (v : RPc) (h : t' ≠ t) : upd f t v t' = f t' := by simp [upd, h]

theorem bump_inv {c0 : Nat} {st : RSt} (h : RInv c0 st) : RInv c0 (bump st) := by
  refine ⟨?_, ?_, ?_, h.pcPc, h.pcOut, h.outOut⟩
  · show (st.counter + 1) % U32 = (c0 + (st.issued + 1)) % U32
    rw [h.cnt]; simp only [U32]; omega
  · intro t w hw; exact issuedW_mono (h.pcIss t w hw) (Nat.le_succ _)
  · intro x hx; exact issuedW_mono (h.outIss x hx) (Nat.le_succ _)

/-- a step of thread `t` that keeps its first word -/
theorem keep_inv {c0 : Nat} {st : RSt} (t : Nat) (v : RPc) (h : RInv c0 st) (hv : v.first = (st.pc t).first) :
    RInv c0 { st with pc := upd st.pc t v } := by
  have hf : ∀ t', (upd st.pc t v t').first = (st.pc t').first := by
    intro t'
    by_cases e : t' = t
    · subst e; rw [upd_same]; exact hv
    · rw [upd_other _ _ _ _ e]
  refine ⟨h.cnt, ?_, h.outIss, ?_, ?_, h.outOut⟩
  · intro t' w hw; exact h.pcIss t' w (by rw [← hf]; exact hw)
  · intro t1 t2 w hne h1
    show (upd st.pc t v t2).first ≠ some w
    rw [hf]
    exact h.pcPc t1 t2 w hne (by rw [← hf]; exact h1)
  · intro t' w hw; exact h.pcOut t' w (by rw [← hf]; exact hw)

/-- the first `fetch_add` of a call: the thread obtains a word nobody else holds -/
theorem fresh_inv {c0 : Nat} {st : RSt} (t : Nat) (v : RPc) (h : RInv c0 st) (hn : st.issued < U32)
    (hidle : (st.pc t).first = none) (hv : v.first = some st.counter) :
    RInv c0 { bump st with pc := upd st.pc t v } := by
  have hb := bump_inv h
  have hfo : ∀ t', t' ≠ t → (upd st.pc t v t').first = (st.pc t').first := by
    intro t' e; rw [upd_other _ _ _ _ e]
  have hft : (upd st.pc t v t).first = some st.counter := by rw [upd_same]; exact hv
  refine ⟨hb.cnt, ?_, hb.outIss, ?_, ?_, h.outOut⟩
  · intro t' w hw
    by_cases e : t' = t
    · subst e
      have hw' : (upd st.pc t' v t').first = some w := hw
      rw [hft] at hw'
      have : w = st.counter := (Option.some.inj hw').symm
      subst this
      exact ⟨st.issued, Nat.lt_succ_self _, h.cnt⟩
    · exact hb.pcIss t' w (by show (st.pc t').first = some w; rw [← hfo t' e]; exact hw)
  · intro t1 t2 w hne h1
    show (upd st.pc t v t2).first ≠ some w
    have h1' : (upd st.pc t v t1).first = some w := h1
    by_cases e1 : t1 = t
    · subst e1
      have e2 : t2 ≠ t1 := fun e => hne e.symm
      rw [hfo t2 e2]
      rw [hft] at h1'
      have hw : w = st.counter := (Option.some.inj h1').symm
      intro h2
      have := fresh_ne (h.pcIss t2 w h2) hn
      rw [hw, h.cnt] at this
      exact this rfl
    · rw [hfo t1 e1] at h1'
      by_cases e2 : t2 = t
      · subst e2
        rw [hft]
        intro h2
        have hw : st.counter = w := Option.some.inj h2
        have := fresh_ne (h.pcIss t1 w h1') hn
        rw [← hw, h.cnt] at this
        exact this rfl
      · rw [hfo t2 e2]
        exact h.pcPc t1 t2 w hne h1'
  · intro t' w hw x hx
    have hw' : (upd st.pc t v t').first = some w := hw
    by_cases e : t' = t
    · subst e
      rw [hft] at hw'
      have hwc : st.counter = w := Option.some.inj hw'
      have := fresh_ne (h.outIss x hx) hn
      rw [← hwc, h.cnt]
      exact this
    · rw [hfo t' e] at hw'
      exact h.pcOut t' w hw' x hx

/-- the call returns: its reference joins the finished ones -/
theorem done_inv {c0 : Nat} {st : RSt} (t : Nat) (r : Ref) (h : RInv c0 st) (hpc : st.pc t = .got r) :
    RInv c0 { st with pc := upd st.pc t .idle, out := st.out ++ [(t, r)] } := by
  have hfirst : (st.pc t).first = some r.w0 := by rw [hpc]; rfl
  have hfo : ∀ t', t' ≠ t → (upd st.pc t .idle t').first = (st.pc t').first := by
    intro t' e; rw [upd_other _ _ _ _ e]
  have hft : (upd st.pc t .idle t).first = none := by rw [upd_same]; rfl
  refine ⟨h.cnt, ?_, ?_, ?_, ?_, ?_⟩
  · intro t' w hw
    have hw' : (upd st.pc t .idle t').first = some w := hw
    by_cases e : t' = t
    · subst e; rw [hft] at hw'; cases hw'
    · rw [hfo t' e] at hw'; exact h.pcIss t' w hw'
  · intro x hx
    have hx' : x ∈ st.out ++ [(t, r)] := hx
    rcases List.mem_append.mp hx' with hx' | hx'
    · exact h.outIss x hx'
    · have : x = (t, r) := by simpa using hx'
      subst this
      exact h.pcIss t r.w0 hfirst
  · intro t1 t2 w hne h1
    show (upd st.pc t .idle t2).first ≠ some w
    have h1' : (upd st.pc t .idle t1).first = some w := h1
    by_cases e1 : t1 = t
    · subst e1; rw [hft] at h1'; cases h1'
    · rw [hfo t1 e1] at h1'
      by_cases e2 : t2 = t
      · subst e2; rw [hft]; simp
      · rw [hfo t2 e2]; exact h.pcPc t1 t2 w hne h1'
  · intro t' w hw x hx
    have hw' : (upd st.pc t .idle t').first = some w := hw
    have hx' : x ∈ st.out ++ [(t, r)] := hx
    by_cases e : t' = t
    · subst e; rw [hft] at hw'; cases hw'
    · rw [hfo t' e] at hw'
      rcases List.mem_append.mp hx' with hx' | hx'
      · exact h.pcOut t' w hw' x hx'
      · have : x = (t, r) := by simpa using hx'
        subst this
        intro hEq
        exact h.pcPc t' t w e hw' (by rw [hfirst, ← hEq])
  · show (st.out ++ [(t, r)]).Pairwise _
    rw [List.pairwise_append]
    refine ⟨h.outOut, by simp, ?_⟩
    intro x hx y hy
    have : y = (t, r) := by simpa using hy
    subst this
    exact h.pcOut t r.w0 hfirst x hx

theorem issued_mono_stepEv (st : RSt) (e : REv) : st.issued ≤ (stepEv st e).issued := by
  cases e with
  | setCreation c => exact Nat.le_refl _
  | unlink => exact Nat.le_succ _
  | task t =>
    simp only [stepEv, step]
    split <;> simp [bump]

theorem issued_mono_run (evs : List REv) : ∀ st : RSt, st.issued ≤ (run st evs).issued := by
  induction evs with
  | nil => intro st; exact Nat.le_refl _
  | cons e evs ih =>
    intro st
    exact Nat.le_trans (issued_mono_stepEv st e) (ih (stepEv st e))

theorem rinv_stepEv {c0 : Nat} {st : RSt} (e : REv) (h : RInv c0 st) (hb : (stepEv st e).issued ≤ U32) :
    RInv c0 (stepEv st e) := by
  cases e with
  | setCreation c => exact ⟨h.cnt, h.pcIss, h.outIss, h.pcPc, h.pcOut, h.outOut⟩
  | unlink =>
    have hb' := bump_inv h
    exact ⟨hb'.cnt, hb'.pcIss, hb'.outIss, hb'.pcPc, hb'.pcOut, hb'.outOut⟩
  | task t =>
    simp only [stepEv, step] at hb ⊢
    cases hpc : st.pc t with
    | idle =>
      rw [hpc] at hb
      simp only [bump] at hb
      exact fresh_inv t _ h (by omega) (by rw [hpc]; rfl) rfl
    | f1 a => exact keep_inv (st := bump st) t _ (bump_inv h) (by show _ = (st.pc t).first; rw [hpc]; rfl)
    | f2 a b => exact keep_inv (st := bump st) t _ (bump_inv h) (by show _ = (st.pc t).first; rw [hpc]; rfl)
    | f3 a b c => exact keep_inv t _ h (by rw [hpc]; rfl)
    | got r => exact done_inv t r h hpc

theorem rinv_run {c0 : Nat} (evs : List REv) : ∀ {st : RSt}, RInv c0 st → (run st evs).issued ≤ U32 →
    RInv c0 (run st evs) := by
  induction evs with
  | nil => intro st h _; exact h
  | cons e evs ih =>
    intro st h hb
    have hb' : (stepEv st e).issued ≤ U32 := Nat.le_trans (issued_mono_run evs (stepEv st e)) hb
    exact ih (rinv_stepEv e h hb') hb

/-! ### creation -/

structure CInv (P : Nat → Prop) (st : RSt) : Prop where
  cur : P st.creation
  pcs : ∀ t r, st.pc t = .got r → P r.creation
  outs : ∀ x ∈ st.out, P x.2.creation

theorem cinv_stepEv {P : Nat → Prop} {st : RSt} (e : REv) (h : CInv P st)
    (he : ∀ c, e = .setCreation c → P c) : CInv P (stepEv st e) := by
  cases e with
  | setCreation c => exact ⟨he c rfl, h.pcs, h.outs⟩
  | unlink => exact ⟨h.cur, h.pcs, h.outs⟩
  | task t =>
    simp only [stepEv, step]
    have hother : ∀ (v : RPc) (t' : Nat) (r : Ref), (∀ r', v = .got r' → P r'.creation) →
        upd st.pc t v t' = .got r → P r.creation := by
      intro v t' r hv hu
      by_cases e : t' = t
      · subst e; rw [upd_same] at hu; exact hv r hu
      · rw [upd_other _ _ _ _ e] at hu; exact h.pcs t' r hu
    cases hpc : st.pc t with
    | idle => exact ⟨h.cur, fun t' r hu => hother _ t' r (by intro r' e; cases e) hu, h.outs⟩
    | f1 a => exact ⟨h.cur, fun t' r hu => hother _ t' r (by intro r' e; cases e) hu, h.outs⟩
    | f2 a b => exact ⟨h.cur, fun t' r hu => hother _ t' r (by intro r' e; cases e) hu, h.outs⟩
    | f3 a b c =>
      exact ⟨h.cur, fun t' r hu => hother _ t' r (by intro r' e; cases e; exact h.cur) hu, h.outs⟩
    | got r =>
      refine ⟨h.cur, fun t' r' hu => hother _ t' r' (by intro r' e; cases e) hu, ?_⟩
      intro x hx
      have hx' : x ∈ st.out ++ [(t, r)] := hx
      rcases List.mem_append.mp hx' with hx' | hx'
      · exact h.outs x hx'
      · have : x = (t, r) := by simpa using hx'
        subst this
        exact h.pcs t r hpc

theorem cinv_run {P : Nat → Prop} (evs : List REv) (he : ∀ c, REv.setCreation c ∈ evs → P c) :
    ∀ {st : RSt}, CInv P st → CInv P (run st evs) := by
  induction evs with
  | nil => intro st h; exact h
  | cons e evs ih =>
    intro st h
    exact ih (fun c hc => he c (by simp [hc])) (cinv_stepEv e h (fun c hc => he c (by simp [hc])))

/-! ### one thread, calls one after the other -/

/-- the five steps of one whole `make_reference` call -/
def oneCall (t : Nat) : List REv := [.task t, .task t, .task t, .task t, .task t]

theorem run_oneCall (st : RSt) (t : Nat) (hidle : st.pc t = .idle) :
    (run st (oneCall t)).out =
        st.out ++ [(t, ⟨st.creation, st.counter, (st.counter + 1) % U32, ((st.counter + 1) % U32 + 1) % U32⟩)] ∧
      (run st (oneCall t)).counter = (((st.counter + 1) % U32 + 1) % U32 + 1) % U32 ∧
      (run st (oneCall t)).creation = st.creation ∧ (run st (oneCall t)).pc t = .idle := by
  simp [run, oneCall, stepEv, step, hidle, upd, bump]


/-- `k` whole calls by thread `t`, one after the other -/
def seqCalls (t : Nat) : Nat → List REv
  | 0 => []
  | k + 1 => oneCall t ++ seqCalls t k

theorem run_append (st : RSt) (a b : List REv) : run st (a ++ b) = run (run st a) b := by
  simp [run, List.foldl_append]

theorem seqRef_shift (c cr i : Nat) :
    seqRef ((((c + 1) % U32 + 1) % U32 + 1) % U32) cr i = seqRef c cr (i + 1) := by
  have h0 : ((((c + 1) % U32 + 1) % U32 + 1) % U32 + 3 * i) % U32 = (c + 3 * (i + 1)) % U32 := by
    simp only [U32]; omega
  have h1 : ((((c + 1) % U32 + 1) % U32 + 1) % U32 + 3 * i + 1) % U32 = (c + 3 * (i + 1) + 1) % U32 := by
    simp only [U32]; omega
  have h2 : ((((c + 1) % U32 + 1) % U32 + 1) % U32 + 3 * i + 2) % U32 = (c + 3 * (i + 1) + 2) % U32 := by
    simp only [U32]; omega
  simp only [seqRef, h0, h1, h2]

theorem run_seqCalls (t k : Nat) : ∀ st : RSt, st.pc t = .idle → st.counter < U32 →
    (run st (seqCalls t k)).out = st.out ++ (List.range k).map (fun i => (t, seqRef st.counter st.creation i)) := by
  induction k with
  | zero => intro st _ _; simp [seqCalls, run]
  | succ k ih =>
    intro st hidle hc
    obtain ⟨ho, hcnt, hcr, hpc⟩ := run_oneCall st t hidle
    rw [seqCalls, run_append, ih (run st (oneCall t)) hpc (by rw [hcnt]; exact Nat.mod_lt _ (by simp [U32]))]
    rw [ho, hcnt, hcr, List.range_succ_eq_map, List.map_cons, List.map_map, List.append_assoc]
    congr 1
    have e0 : (t, seqRef st.counter st.creation 0) =
        (t, (⟨st.creation, st.counter, (st.counter + 1) % U32, ((st.counter + 1) % U32 + 1) % U32⟩ : Ref)) := by
      have h0 : (st.counter + 3 * 0) % U32 = st.counter := by simp only [U32] at hc ⊢; omega
      have h1 : (st.counter + 3 * 0 + 1) % U32 = (st.counter + 1) % U32 := by simp
      have h2 : (st.counter + 3 * 0 + 2) % U32 = ((st.counter + 1) % U32 + 1) % U32 := by simp only [U32]; omega
      simp only [seqRef, h0, h1, h2]
    rw [e0]
    simp only [List.singleton_append, List.cons.injEq, true_and]
    apply List.map_congr_left
    intro i _
    simp only [Function.comp, seqRef_shift]

end Edp.Impl.RefCounter
