import EdpVerif.Impl.Encode
import EdpVerif.Impl.Decode
import EdpVerif.Generated.MiscC15
/-
Model of crates/erltf_serde (ser.rs, de.rs, the `ElixirStruct` derive) over a universe of Rust types.

* `Ty`  — the Rust types the serde layer is asked about, `Val` — their values (untyped carrier, `hasTy` relates them);
* `ser : Val → Term`              — `to_term`: which `Serializer` method each value reaches and which `OwnedTerm` it builds;
* `de  : Ty → Term → Except _ Val` — `from_term::<T>`: which `deserialize_*` the standard / derived `Deserialize` impl of the
  type calls, which term variants that method accepts, and what the standard visitor does with the `visit_*` call it receives;
* `wireT : Term → Term`           — what `decode ∘ encode` does to a term of the fragment `ser` produces
  (proved equal to `Edp.decode (Edp.encode t)` in Lemmas/SerdeWire.lean);
* `toBytes`/`fromBytes`           — `to_bytes` / `from_bytes`.

Default features of erltf_serde (no `elixir-interop`): `None` is the atom `undefined`, `()` is the atom `nil`.
One error class (`DeErr.err`): the property never distinguishes `Error` variants.
Core Lean only (linked into the driver).
-/
namespace Edp.Serde
open Edp

/-! ### the universe -/

inductive IntTy where
  | i8 | i16 | i32 | i64 | u8 | u16 | u32 | u64
  deriving Repr, BEq, DecidableEq, Inhabited

def IntTy.lo : IntTy → Int
  | .i8 => -128 | .i16 => -32768 | .i32 => -2147483648 | .i64 => -9223372036854775808
  | _ => 0

def IntTy.hi : IntTy → Int
  | .i8 => 127 | .i16 => 32767 | .i32 => 2147483647 | .i64 => 9223372036854775807
  | .u8 => 255 | .u16 => 65535 | .u32 => 4294967295 | .u64 => 18446744073709551615

def IntTy.inRange (k : IntTy) (i : Int) : Bool := decide (k.lo ≤ i) && decide (i ≤ k.hi)

def i64Max : Int := 9223372036854775807
def i64Min : Int := -9223372036854775808

/--
Rust types.  In `enum _ vs` the second component of a variant is a *shape marker*:
`.unit` = unit variant, `.newtype _ t` = newtype variant `V(t)`, `.tuple ts` = tuple variant `V(t1, …)`,
`.struct _ fs` = struct variant `V { f: t, … }` (anything else is not a variant shape and deserialises to an error).
-/
inductive Ty where
  | int (k : IntTy) | f32 | f64 | bool | char | string | bytes | unit
  | option (t : Ty)
  | tuple (ts : List Ty)
  | seq (t : Ty)
  | map (k v : Ty)
  | struct (name : Bytes) (fs : List (Bytes × Ty))
  | unitStruct (name : Bytes)
  | newtype (name : Bytes) (t : Ty)
  | tupleStruct (name : Bytes) (ts : List Ty)
  | exStruct (module : Bytes) (fs : List (Bytes × Ty))
  | enum (name : Bytes) (vs : List (Bytes × Ty))
  deriving Repr, BEq, Inhabited

/-- Values.  `variant e v p`: variant `v` of enum `e`, payload `p` shaped like the markers of `Ty.enum`
(`.unit`, `.newtype _ x`, `.tuple xs`, `.struct _ fs`). -/
inductive Val where
  | int (k : IntTy) (i : Int)
  | f32 (bits : Nat) | f64 (bits : Nat)
  | bool (b : Bool) | char (c : Nat) | string (s : Bytes) | bytes (b : Bytes) | unit
  | none | some (v : Val)
  | tuple (vs : List Val)
  | seq (vs : List Val)
  | map (kvs : List (Val × Val))
  | struct (name : Bytes) (fs : List (Bytes × Val))
  | unitStruct (name : Bytes)
  | newtype (name : Bytes) (v : Val)
  | tupleStruct (name : Bytes) (vs : List Val)
  | exStruct (module : Bytes) (fs : List (Bytes × Val))
  | variant (ename vname : Bytes) (payload : Val)
  deriving Repr, BEq, Inhabited

inductive DeErr where
  | err
  deriving Repr, BEq, DecidableEq

abbrev SRes := Except DeErr

/-! ### atoms, text -/

/- The atom names, the struct key and the module prefix are the ones the translator reads out of ser.rs and
erltf_serde_derive (Generated/Misc.lean, regenerated on every run); `Props/C15.lean` checks that de.rs reads the same ones. -/
def sTrue : Bytes := Gen.C15_ATOM_TRUE
def sFalse : Bytes := Gen.C15_ATOM_FALSE
def sNil : Bytes := Gen.C15_ATOM_UNIT
def sUndefined : Bytes := Gen.C15_ATOM_NONE
/-- `__struct__` -/
def sStructKey : Bytes := Gen.C15_EX_STRUCT_KEY
/-- `Elixir.` -/
def sElixirDot : Bytes := Gen.C15_EX_MODULE_PREFIX
/-- `integer_term_as`: the largest number of significant digits of a big integer that is still read (regenerated from de.rs) -/
def maxBigDigits : Nat := Gen.C15_BIG_MAX_DIGITS

/-- `char::encode_utf8` (a `char` is a scalar value: < 0x110000 and not a surrogate) -/
def utf8Enc (c : Nat) : Bytes :=
  if c < 128 then [UInt8.ofNat c]
  else if c < 2048 then [UInt8.ofNat (192 + c / 64), UInt8.ofNat (128 + c % 64)]
  else if c < 65536 then [UInt8.ofNat (224 + c / 4096), UInt8.ofNat (128 + c / 64 % 64), UInt8.ofNat (128 + c % 64)]
  else [UInt8.ofNat (240 + c / 262144), UInt8.ofNat (128 + c / 4096 % 64), UInt8.ofNat (128 + c / 64 % 64),
        UInt8.ofNat (128 + c % 64)]

def isScalar (c : Nat) : Bool := decide (c < 55296) || (decide (57343 < c) && decide (c < 1114112))

/-! ### floats: `f32 as f64` and `f64 as f32` on bit patterns -/

/-- position of the highest set bit of `m`, searched below `k` (0 when there is none) -/
def topBit : Nat → Nat → Nat
  | 0, _ => 0
  | k+1, m => if 2 ^ k ≤ m then k else topBit k m

/-- `f32 as f64` (exact; a NaN keeps sign and payload and is made quiet) -/
def f32to64 (b : Nat) : Nat :=
  let s := b / 2 ^ 31 % 2
  let e := b / 2 ^ 23 % 256
  let m := b % 2 ^ 23
  if e = 255 then
    if m = 0 then s * 2 ^ 63 + 2047 * 2 ^ 52
    else s * 2 ^ 63 + 2047 * 2 ^ 52 + 2 ^ 51 + (m * 2 ^ 29) % 2 ^ 51
  else if e = 0 then
    if m = 0 then s * 2 ^ 63
    else
      let k := topBit 23 m
      s * 2 ^ 63 + (k + 874) * 2 ^ 52 + (m * 2 ^ (52 - k) - 2 ^ 52)
  else s * 2 ^ 63 + (e + 896) * 2 ^ 52 + m * 2 ^ 29

/-- round-to-nearest-even of `sig / 2^shift` -/
def rneShift (sig shift : Nat) : Nat :=
  let q := sig / 2 ^ shift
  let r := sig % 2 ^ shift
  let half := 2 ^ shift / 2
  if r > half ∨ (r = half ∧ q % 2 = 1) then q + 1 else q

/-- `f64 as f32` (round to nearest, ties to even; overflow to infinity; a NaN keeps sign and the top of its payload, quiet) -/
def f64to32 (b : Nat) : Nat :=
  let s := b / 2 ^ 63 % 2
  let e := b / 2 ^ 52 % 2048
  let m := b % 2 ^ 52
  if e = 2047 then
    if m = 0 then s * 2 ^ 31 + 255 * 2 ^ 23
    else s * 2 ^ 31 + 255 * 2 ^ 23 + 2 ^ 22 + (m / 2 ^ 29) % 2 ^ 22
  else if e = 0 then s * 2 ^ 31
  else
    let sig := 2 ^ 52 + m
    if e ≥ 897 then
      if e - 896 ≥ 255 then s * 2 ^ 31 + 255 * 2 ^ 23
      else s * 2 ^ 31 + ((e - 896) * 2 ^ 23 + (rneShift sig 29 - 2 ^ 23))
    else s * 2 ^ 31 + rneShift sig (926 - e)

def f32IsNaN (b : Nat) : Bool := b / 2 ^ 23 % 256 == 255 && b % 2 ^ 23 != 0
def f64IsNaN (b : Nat) : Bool := b / 2 ^ 52 % 2048 == 2047 && b % 2 ^ 52 != 0

/-! ### `to_term` -/

/-- `BTreeMap::insert` for every pair, in order -/
def insertAll (kvs : List (Term × Term)) : List (Term × Term) :=
  kvs.foldl (fun m kv => mapInsert m kv.1 kv.2) []

/-- `serialize_i8 … serialize_u64` -/
def serInt (k : IntTy) (i : Int) : Term :=
  if k = .u64 ∧ i > i64Max then .big false (leN 8 i.toNat) else .int i

mutual
/-- `value.serialize(&mut Serializer)` -/
def ser : Val → Term
  | .int k i => serInt k i
  | .f32 b => .float (f32to64 b)
  | .f64 b => .float b
  | .bool b => .atom (if b then sTrue else sFalse)
  | .char c => .str (utf8Enc c)
  | .string s => .bin s
  | .bytes b => .bin b
  | .unit => .atom sNil
  | .none => .atom sUndefined
  | .some v => ser v
  | .tuple vs => .tuple (serL vs)
  | .seq vs => .list (serL vs)
  | .map kvs => .map (insertAll (serKV kvs))
  | .struct _ fs => .map (insertAll (serFields fs))
  | .unitStruct n => .atom n
  | .newtype _ v => ser v
  | .tupleStruct _ vs => .tuple (serL vs)
  | .exStruct m fs => .map (insertAll ((Term.atom sStructKey, Term.atom (sElixirDot ++ m)) :: serAtomFields fs))
  | .variant _ vn p => serVariant vn p
/-- the four `serialize_*_variant` methods, selected by the payload's shape -/
def serVariant (vn : Bytes) : Val → Term
  | .unit => .atom vn
  | .newtype _ v => .tuple [.atom vn, ser v]
  | .tuple vs => .tuple (.atom vn :: serL vs)
  | .struct _ fs => .tuple [.atom vn, .map (insertAll (serFields fs))]
  | _ => .atom vn
def serL : List Val → List Term
  | [] => []
  | v :: vs => ser v :: serL vs
def serKV : List (Val × Val) → List (Term × Term)
  | [] => []
  | (k, v) :: r => (ser k, ser v) :: serKV r
/-- `SerializeStruct::serialize_field`: the key is the field name as a binary -/
def serFields : List (Bytes × Val) → List (Term × Term)
  | [] => []
  | (n, v) :: r => (.bin n, ser v) :: serFields r
/-- `ElixirStruct`: `AtomKey(name)` -/
def serAtomFields : List (Bytes × Val) → List (Term × Term)
  | [] => []
  | (n, v) :: r => (.atom n, ser v) :: serAtomFields r
end

/-! ### `from_term` -/

def mapME (f : α → SRes β) : List α → SRes (List β)
  | [] => .ok []
  | a :: as =>
    match f a with
    | .ok b =>
      match mapME f as with
      | .ok bs => .ok (b :: bs)
      | .error e => .error e
    | .error e => .error e

/-- `deserialize_str` / `deserialize_string` / `deserialize_identifier` followed by a string visitor -/
def deStr : Term → SRes Bytes
  | .bin b => if validUtf8 b then .ok b else .error .err
  | .str s => .ok s
  | .atom a => .ok a
  | _ => .error .err

def isOkStr (t : Term) : Bool :=
  match deStr t with
  | .ok _ => true
  | .error _ => false

def keyIs (n : Bytes) (kv : Term × Term) : Bool :=
  match deStr kv.1 with
  | .ok s => s == n
  | .error _ => false

/-- number of digits up to the last non-zero one (`rposition(|d| d != 0).map_or(0, |p| p + 1)`) -/
def sigCount (d : Bytes) : Nat := (d.reverse.dropWhile (· == 0)).length

/-- `integer_term_as::<T>` behind `deserialize_i8 … deserialize_u64`: an `Integer`, or a `BigInt` of at most 8
significant little-endian digits with its sign applied (so non-minimal digits, negative zero and −2^63 are read),
then `T::try_from(i128)` -/
def deInt (k : IntTy) : Term → SRes Val
  | .int i => if k.inRange i then .ok (.int k i) else .error .err
  | .big neg d =>
    if sigCount d > maxBigDigits then .error .err else
    let mag : Int := (magVal (d.take (sigCount d)) : Nat)
    let v : Int := if neg then -mag else mag
    if k.inRange v then .ok (.int k v) else .error .err
  | _ => .error .err

/-- `deserialize_char`: an `OwnedTerm::String`, or a UTF-8 `Binary` (how a string comes back from the wire), of exactly one `char` -/
def deChar : Term → SRes Val
  | .str s =>
    match utf8Decode s with
    | some [c] => .ok (.char c)
    | _ => .error .err
  | .bin b =>
    match utf8Decode b with
    | some [c] => .ok (.char c)
    | _ => .error .err
  | _ => .error .err

/-- the atom `undefined` (what `deserialize_option` takes for `None`) -/
def isUndef : Term → Bool
  | .atom a => decide (a = sUndefined)
  | _ => false

def isOption : Ty → Bool
  | .option _ => true
  | _ => false

/-- how many entries of the map have a key that reads as the string `n` -/
def countKey (n : Bytes) (m : List (Term × Term)) : Nat := (m.filter (keyIs n)).length

mutual
/-- `T::deserialize(&mut Deserializer { term })` -/
def de : Ty → Term → SRes Val
  | .int k, t => deInt k t
  | .f32, t => match t with
    | .float b => .ok (.f32 (f64to32 b))
    | _ => .error .err
  | .f64, t => match t with
    | .float b => .ok (.f64 b)
    | _ => .error .err
  | .bool, t => match t with
    | .atom a => if a = sTrue then .ok (.bool true) else if a = sFalse then .ok (.bool false) else .error .err
    | _ => .error .err
  | .char, t => deChar t
  | .string, t => match deStr t with
    | .ok s => .ok (.string s)
    | .error e => .error e
  | .bytes, t => match t with
    | .bin b => .ok (.bytes b)
    | _ => .error .err
  | .unit, t => match t with
    | .atom a => if a = sNil then .ok .unit else .error .err
    | _ => .error .err
  | .option ty, t =>
    if isUndef t then .ok .none else
    match de ty t with
    | .ok v => .ok (.some v)
    | .error e => .error e
  | .tuple ts, t => match t with
    | .tuple l => match deL ts l with
      | .ok vs => .ok (.tuple vs)
      | .error e => .error e
    | _ => .error .err
  | .seq ty, t => match t with
    | .list l => match mapME (de ty) l with
      | .ok vs => .ok (.seq vs)
      | .error e => .error e
    | .nil => .ok (.seq [])
    | _ => .error .err
  | .map kt vt, t => match t with
    | .map m => match mapME (fun kv => match de kt kv.1 with
        | .ok k => match de vt kv.2 with
          | .ok v => .ok (k, v)
          | .error e => .error e
        | .error e => .error e) m with
      | .ok kvs => .ok (.map kvs)
      | .error e => .error e
    | _ => .error .err
  | .struct n fs, t => match t with
    | .map m =>
      -- every key goes through `deserialize_identifier`; a field seen twice is `duplicate_field`
      if !(m.all fun kv => isOkStr kv.1) then .error .err else
      match deFields fs m with
      | .ok vs => .ok (.struct n vs)
      | .error e => .error e
    | _ => .error .err
  | .unitStruct n, t => match t with
    | .atom a => if a = n then .ok (.unitStruct n) else .error .err
    | _ => .error .err
  | .newtype n ty, t => match de ty t with
    | .ok v => .ok (.newtype n v)
    | .error e => .error e
  | .tupleStruct n ts, t => match t with
    | .tuple l => match deL ts l with
      | .ok vs => .ok (.tupleStruct n vs)
      | .error e => .error e
    | _ => .error .err
  | .exStruct md fs, t => match t with
    | .map m =>
      if !(m.all fun kv => isOkStr kv.1) then .error .err else
      -- every `__struct__` entry must read as the string `Elixir.<module>` (no entry at all is accepted)
      if !((m.filter (keyIs sStructKey)).all fun kv => match deStr kv.2 with
            | .ok s => s == sElixirDot ++ md
            | .error _ => false) then .error .err else
      match deExFields fs m with
      | .ok vs => .ok (.exStruct md vs)
      | .error e => .error e
    | _ => .error .err
  | .enum en vs, t => match t with
    | .atom a => deVariant en a vs []
    | .tuple (h :: rest) => match deStr h with
      | .ok a => deVariant en a vs rest
      | .error e => .error e
    | _ => .error .err
/-- `visit_seq` of a tuple-like visitor: one element per type, extra elements are not looked at -/
def deL : List Ty → List Term → SRes (List Val)
  | [], _ => .ok []
  | _ :: _, [] => .error .err
  | ty :: ts, x :: xs =>
    match de ty x with
    | .ok v => match deL ts xs with
      | .ok vs => .ok (v :: vs)
      | .error e => .error e
    | .error e => .error e
/-- `visit_map` of a `#[derive(Deserialize)]` struct, field by field: exactly one entry → its value;
none → `None` for an `Option` field (serde's `missing_field`), an error otherwise; several → `duplicate_field` -/
def deFields : List (Bytes × Ty) → List (Term × Term) → SRes (List (Bytes × Val))
  | [], _ => .ok []
  | (n, ty) :: fs, m =>
    match m.filter (keyIs n) with
    | [] =>
      if isOption ty then
        match deFields fs m with
        | .ok vs => .ok ((n, .none) :: vs)
        | .error e => .error e
      else .error .err
    | [kv] =>
      match de ty kv.2 with
      | .ok v => match deFields fs m with
        | .ok vs => .ok ((n, v) :: vs)
        | .error e => .error e
      | .error e => .error e
    | _ => .error .err
/-- `visit_map` generated by `derive(ElixirStruct)`: every entry of a field is deserialised, the last one stays;
a field with no entry is `missing_field` (also for `Option`); a field called `__struct__` is never assigned -/
def deExFields : List (Bytes × Ty) → List (Term × Term) → SRes (List (Bytes × Val))
  | [], _ => .ok []
  | (n, ty) :: fs, m =>
    if n = sStructKey then .error .err else
    match mapME (fun kv => de ty kv.2) (m.filter (keyIs n)) with
    | .ok xs =>
      match xs.getLast? with
      | some v => match deExFields fs m with
        | .ok vs => .ok ((n, v) :: vs)
        | .error e => .error e
      | none => .error .err
    | .error e => .error e
/-- `visit_enum` of a derived enum: find the variant called `a` … -/
def deVariant (en a : Bytes) : List (Bytes × Ty) → List Term → SRes Val
  | [], _ => .error .err
  | (vn, sh) :: vs, rest => if vn = a then deShape en vn sh rest else deVariant en a vs rest
/-- … then `unit_variant` / `newtype_variant_seed` / `tuple_variant` / `struct_variant` on the remaining tuple
elements `rest`, by the variant's shape -/
def deShape (en vn : Bytes) : Ty → List Term → SRes Val
  | .unit, rest => if rest.isEmpty then .ok (.variant en vn .unit) else .error .err
  | .newtype _ ty, rest =>
    match rest with
    | [x] =>
      match de ty x with
      | .ok v => .ok (.variant en vn (.newtype [] v))
      | .error e => .error e
    | _ => .error .err
  | .tuple ts, rest =>
    match deL ts rest with
    | .ok xs => .ok (.variant en vn (.tuple xs))
    | .error e => .error e
  | .struct _ fs, rest =>
    match rest with
    | [.map m] =>
      if !(m.all fun kv => isOkStr kv.1) then .error .err else
      match deFields fs m with
      | .ok xs => .ok (.variant en vn (.struct [] xs))
      | .error e => .error e
    | _ => .error .err
  | _, _ => .error .err
end

/-! ### the wire -/

/-- minimal little-endian digits as `encode_integer` writes them for a value outside the i32 range -/
def intDigits (v : Int) : Bytes :=
  let le := leN 8 v.natAbs
  le.take (sigLen le)

def inI32 (i : Int) : Bool := decide (-2147483648 ≤ i) && decide (i ≤ 2147483647)

mutual
/-- what `erltf::decode (erltf::encode t)` returns for the terms `ser` builds -/
def wireT : Term → Term
  | .int i => if inI32 i then .int i else .big (decide (i < 0)) (intDigits i)
  | .str s => .bin s
  | .list l => if l.isEmpty then .nil else .list (wireL l)
  | .tuple l => .tuple (wireL l)
  | .map kvs => .map (insertAll (wireKV kvs))
  | t => t
def wireL : List Term → List Term
  | [] => []
  | t :: ts => wireT t :: wireL ts
def wireKV : List (Term × Term) → List (Term × Term)
  | [] => []
  | (k, v) :: r => (wireT k, wireT v) :: wireKV r
end

/-- `to_bytes` (`to_term` cannot fail on this universe) -/
def toBytes (v : Val) : Except EncErr Bytes := encode (ser v)

/-- `from_bytes::<T>` -/
def fromBytes (x : Ext) (ty : Ty) (b : Bytes) : SRes Val :=
  match decode x b with
  | .ok t => de ty t
  | .error _ => .error .err

/-! ### 128-bit integers

`serialize_i128` / `serialize_u128` and `deserialize_i128` / `deserialize_u128` are not overridden in ser.rs / de.rs
(`Gen.C15_WIDE_OVERRIDDEN = []`, re-extracted on every run), so serde's provided methods answer: "i128 is not supported".
Every compound serializer forwards the error of an element with `?`, so `to_term` of a value that contains a 128-bit
integer anywhere is that error.  (They are therefore outside the universe `Ty`: nothing of that type is ever carried.) -/

inductive WideTy where
  | i128 | u128
  deriving Repr, BEq, DecidableEq

/-- `to_term(&x)` for `x: i128` / `u128` (whatever the value) -/
def serWide (_ : WideTy) (_ : Int) : SRes Term := if Gen.C15_WIDE_OVERRIDDEN.isEmpty then .error .err else .ok .nil

/-- `from_term::<i128>(t)` / `from_term::<u128>(t)` (whatever the term) -/
def deWide (_ : WideTy) (_ : Term) : SRes Int := if Gen.C15_WIDE_OVERRIDDEN.isEmpty then .error .err else .ok 0

/-! ### typing -/

mutual
/-- `v` is a value of the Rust type `ty` -/
def hasTy : Val → Ty → Bool
  | .int k i, .int k' => decide (k = k') && k.inRange i
  | .f32 b, .f32 => decide (b < 2 ^ 32)
  | .f64 b, .f64 => decide (b < 2 ^ 64)
  | .bool _, .bool => true
  | .char c, .char => isScalar c
  | .string s, .string => validUtf8 s
  | .bytes _, .bytes => true
  | .unit, .unit => true
  | .none, .option _ => true
  | .some v, .option t => hasTy v t
  | .tuple vs, .tuple ts => hasTyL vs ts
  | .seq vs, .seq t => vs.all fun v => hasTy v t
  | .map kvs, .map k v => kvs.all fun kv => hasTy kv.1 k && hasTy kv.2 v
  | .struct n fs, .struct n' fts => n == n' && hasTyF fs fts
  | .unitStruct n, .unitStruct n' => n == n'
  | .newtype n v, .newtype n' t => n == n' && hasTy v t
  | .tupleStruct n vs, .tupleStruct n' ts => n == n' && hasTyL vs ts
  | .exStruct m fs, .exStruct m' fts => m == m' && hasTyF fs fts
  | .variant e vn p, .enum e' vs => e == e' && hasTyV vn p vs
  | _, _ => false
def hasTyL : List Val → List Ty → Bool
  | [], [] => true
  | v :: vs, t :: ts => hasTy v t && hasTyL vs ts
  | _, _ => false
def hasTyF : List (Bytes × Val) → List (Bytes × Ty) → Bool
  | [], [] => true
  | (n, v) :: fs, (n', t) :: fts => n == n' && hasTy v t && hasTyF fs fts
  | _, _ => false
/-- the payload has the shape and types of the variant called `vn` (the first one with that name) -/
def hasTyV (vn : Bytes) (p : Val) : List (Bytes × Ty) → Bool
  | [] => false
  | (n, sh) :: vs => if n = vn then hasTyP p sh else hasTyV vn p vs
/-- payload against shape marker -/
def hasTyP : Val → Ty → Bool
  | .unit, .unit => true
  | .newtype n v, .newtype _ t => n.isEmpty && hasTy v t
  | .tuple xs, .tuple ts => hasTyL xs ts
  | .struct n fs, .struct _ fts => n.isEmpty && hasTyF fs fts
  | _, _ => false
end

end Edp.Serde
