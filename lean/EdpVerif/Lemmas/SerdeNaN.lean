import EdpVerif.Lemmas.SerdeFloat
/-! C15: an `f32` NaN comes back as a NaN of the same sign (only the payload, which `==` cannot see, may change). -/
namespace Edp.SerdeNaN
open Edp Edp.Serde

set_option maxRecDepth 8000 in
theorem f64to32_nan (s p : Nat) (hs : s < 2) (hp : p < 2 ^ 51) :
    f64to32 (s * 2 ^ 63 + 2047 * 2 ^ 52 + 2 ^ 51 + p) =
      s * 2 ^ 31 + 255 * 2 ^ 23 + 2 ^ 22 + ((2 ^ 51 + p) / 2 ^ 29) % 2 ^ 22 := by
  unfold f64to32
  simp only [Nat.reducePow] at *
  have h1 : (s * 9223372036854775808 + 2047 * 4503599627370496 + 2251799813685248 + p) / 9223372036854775808 % 2 = s := by omega
  have h2 : (s * 9223372036854775808 + 2047 * 4503599627370496 + 2251799813685248 + p) / 4503599627370496 % 2048 = 2047 := by omega
  have h3 : (s * 9223372036854775808 + 2047 * 4503599627370496 + 2251799813685248 + p) % 4503599627370496 = 2251799813685248 + p := by omega
  have h4 : ¬ (2251799813685248 + p = 0) := by omega
  simp [h1, h2, h3, h4]

set_option maxRecDepth 8000 in
theorem f32_nan_stays_nan (b : Nat) (h : b < 2 ^ 32) (hn : f32IsNaN b = true) :
    f32IsNaN (f64to32 (f32to64 b)) = true ∧ f64to32 (f32to64 b) / 2 ^ 31 = b / 2 ^ 31 := by
  simp only [f32IsNaN, Bool.and_eq_true, beq_iff_eq, bne_iff_ne, ne_eq] at hn
  obtain ⟨he, hm⟩ := hn
  have hs2 : b / 2 ^ 31 < 2 := by
    simp only [Nat.reducePow] at h ⊢; omega
  have hs : b / 2 ^ 31 % 2 = b / 2 ^ 31 := Nat.mod_eq_of_lt hs2
  have hp' : (b % 2 ^ 23 * 2 ^ 29) % 2 ^ 51 < 2 ^ 51 := Nat.mod_lt _ (by decide)
  have e : f32to64 b = b / 2 ^ 31 * 2 ^ 63 + 2047 * 2 ^ 52 + 2 ^ 51 + (b % 2 ^ 23 * 2 ^ 29) % 2 ^ 51 := by
    unfold f32to64
    simp only [he, if_true, hm, if_false, hs]
  rw [e, f64to32_nan _ _ hs2 hp']
  generalize (b % 2 ^ 23 * 2 ^ 29) % 2 ^ 51 = p at hp'
  generalize b / 2 ^ 31 = s at hs2
  have hq : (2 ^ 51 + p) / 2 ^ 29 % 2 ^ 22 < 2 ^ 22 := Nat.mod_lt _ (by decide)
  generalize (2 ^ 51 + p) / 2 ^ 29 % 2 ^ 22 = q at hq
  simp only [f32IsNaN, Nat.reducePow, Bool.and_eq_true, beq_iff_eq, bne_iff_ne, ne_eq] at *
  refine ⟨⟨by omega, by omega⟩, by omega⟩

end Edp.SerdeNaN
