import EdpVerif.Impl.Encode
import EdpVerif.Impl.Control
import EdpVerif.Impl.Handshake
import EdpVerif.Generated.Control
import EdpVerif.Impl.Den
import EdpVerif.Spec.Wire
import EdpVerif.Generated.MiscC04
import EdpVerif.Generated.MiscC07
/-!
Model of the send side of crates/edp_client/src/connection.rs
(`send_message`, `send_to_name`, `link`, `unlink`, `monitor`, `demonitor`, `send_control_message`), of
`erltf::encode_with_dist_header(_multi)` (crates/erltf/src/encoder.rs) as far as the send side uses it, and of the way
crates/edp_node/src/node.rs runs these operations from concurrent tasks (`conn.lock().await` around every call).

* `sendOp`      — one operation on one `Connection`: the LIST OF WRITES it performs on the socket (pass-through mode: the
                  4-byte length, the marker byte, the control bytes and the payload bytes are separate writes, with the
                  H3 yield points `send:after_len`, `send:after_marker`, `send:after_control` between them; header mode:
                  one buffer), or the error it returns having written nothing.
* `step/run`    — small-step semantics of any number of tasks that each issue a list of operations through one
                  `Arc<Mutex<Connection>>`: lock; write; ...; write; unlock, under an arbitrary schedule.

The header-mode encoder iterates a `HashSet<&Atom>`, so the order of the atoms in the header is not a function of the
arguments.  The model takes that order as an input (`order`) and insists that it enumerates the atom set exactly once
(`orderOk`); the harness reads the order off the real output.  A full model of the distribution-header encoder
(`Impl/DistHeader.lean`, property C14) is written concurrently; `distHeader` below is the part the send side needs and
is meant to be unified with it.
-/
namespace Edp.Send
open Edp Edp.Control
open Edp.Impl.Handshake (ConnState)

/-- the flag `send_control_message` looks for in the negotiated flags (`Gen.C07_HEADER_MODE_FLAG`, read off the source),
with the value flags.rs gives it (`Gen.DIST_FLAGS`): `DistributionFlags::DIST_HDR_ATOM_CACHE` -/
def DIST_HDR_ATOM_CACHE : Nat := (Gen.DIST_FLAGS.lookup Gen.C07_HEADER_MODE_FLAG).getD 0

/-- `DistributionFlags::has` for a single-bit flag -/
def hasFlag (flags bit : Nat) : Bool := flags / bit % 2 = 1

/-- an `ExternalReference` -/
structure RefF where
  node : Bytes
  creation : Nat
  ids : List Nat
  loc : Option Bytes := none
  deriving Repr, BEq, DecidableEq, Inhabited

def RefF.term (r : RefF) : Term := .ref r.node r.creation r.ids r.loc

/-- the parts of a `Connection` the send side reads -/
structure Conn where
  /-- `self.handshake.state()` -/
  state : ConnState
  /-- `self.negotiated_flags()` -/
  neg : Option Nat
  /-- `self.transport.write_half_mut().is_some()` -/
  stream : Bool
  deriving Repr

/-- the public send-side operations of `Connection` with their arguments -/
inductive Op where
  | send (frm to : PidF) (msg : Term)
  | regSend (frm : PidF) (name : Bytes) (msg : Term)
  | link (frm to : PidF)
  | unlink (frm to : PidF) (id : Nat)
  | monitor (frm to : PidF) (r : RefF)
  | demonitor (frm to : PidF) (r : RefF)
  deriving Repr

inductive Err where
  /-- `Error::InvalidState { state }` -/
  | invalidState
  /-- `Error::Encode(_)` -/
  | encode
  /-- `Error::MessageTooLarge { .. }`: the frame length does not fit the 32-bit prefix (`frame_length`) -/
  | tooLarge
  /-- `Error::InvalidStateMessage("no active stream")` -/
  | noStream
  /-- not an outcome of the code: the control message has no serialiser arm (excluded by `TableOK`) -/
  | badControl
  /-- not an outcome of the code: the supplied atom order is not an enumeration of the atom set -/
  | badOrder
  deriving Repr, DecidableEq

/-- the `ControlMessage` value each operation builds (`Atom::new("")` is the empty atom) -/
def Op.control : Op → Msg
  | .send _ to _ => .known "Send" [("cookie", .term (.atom [])), ("to_pid", .term (.pid to))]
  | .regSend frm name _ =>
    .known "RegSend" [("from_pid", .term (.pid frm)), ("cookie", .term (.atom [])), ("to_name", .term (.atom name))]
  | .link frm to => .known "Link" [("from_pid", .term (.pid frm)), ("to_pid", .term (.pid to))]
  | .unlink frm to id => .known "UnlinkId" [("id", .uid id), ("from_pid", .term (.pid frm)), ("to_pid", .term (.pid to))]
  | .monitor frm to r =>
    .known "MonitorP" [("from_pid", .term (.pid frm)), ("to_proc", .term (.pid to)), ("reference", .term r.term)]
  | .demonitor frm to r =>
    .known "DemonitorP" [("from_pid", .term (.pid frm)), ("to_proc", .term (.pid to)), ("reference", .term r.term)]

/-- the `message` argument of `send_control_message` -/
def Op.payload : Op → Option Term
  | .send _ _ m => some m
  | .regSend _ _ m => some m
  | _ => none

/-! ### `encode_with_dist_header_multi` -/

def pidAtoms (p : PidF) : List Bytes := [p.node]

mutual
/-- `collect_atoms`, in traversal order, with repetitions (the code inserts into a set) -/
def collectAtoms : Term → List Bytes
  | .atom a => [a]
  | .tuple l => collectAtomsL l
  | .list l => collectAtomsL l
  | .ilist l t => collectAtomsL l ++ collectAtoms t
  | .map kvs => collectAtomsKV kvs
  | .pid p => [p.node]
  | .port n _ _ _ => [n]
  | .ref n _ _ _ => [n]
  | .xfun m f _ => [m, f]
  | .ifun _ _ _ _ m _ _ p fr => m :: p.node :: collectAtomsL fr
  | _ => []
def collectAtomsL : List Term → List Bytes
  | [] => []
  | t :: ts => collectAtoms t ++ collectAtomsL ts
def collectAtomsKV : List (Term × Term) → List Bytes
  | [] => []
  | (k, v) :: r => collectAtoms k ++ collectAtoms v ++ collectAtomsKV r
end

/-- the supplied iteration order lists every atom of the set exactly once -/
def orderOk (order atoms : List Bytes) : Bool :=
  order.all (fun a => atoms.contains a) && atoms.all (fun a => order.contains a) &&
    order.eraseDups.length == order.length

/-- flag byte `k` of a header with `n` new-entry references (segment index 0), LongAtoms in field `n` -/
def flagByte (n : Nat) (long : Bool) (k : Nat) : UInt8 :=
  UInt8.ofNat ((if 2 * k < n then 8 else 0) + (if 2 * k + 1 < n then 128 else 0) +
    (if long && k == n / 2 then (if n % 2 = 0 then 1 else 16) else 0))

def flagBytes (n : Nat) (long : Bool) : Bytes := (List.range (n / 2 + 1)).map (flagByte n long)

/-- the references: internal index `i`, length (one or two bytes), text -/
def refBytes (long : Bool) : Nat → List Bytes → Bytes
  | _, [] => []
  | i, a :: r => UInt8.ofNat i :: (if long then be16 a.length else be8 a.length) ++ a ++ refBytes long (i + 1) r

/-- `encode_with_dist_header_multi(terms)` when the set iterates in `order` -/
def distHeader (order : List Bytes) (terms : List Term) : Except Err Bytes :=
  let atoms := collectAtomsL terms
  if !orderOk order atoms then .error .badOrder
  else if order.isEmpty then
    match encL [] terms with
    | .ok b => .ok (131 :: 68 :: 0 :: b)
    | .error _ => .error .encode
  -- `if atom_set.len() > 255 { return Err(TooManyAtoms) }`: the limit is read off the source
  else if order.length > Gen.C07_HEADER_MAX_ATOMS then .error .encode
  else if order.any (fun a => decide (a.length > u16max)) then .error .encode
  else
    let long := order.any (fun a => decide (a.length > 255))
    match encL order terms with
    | .ok b => .ok (131 :: 68 :: UInt8.ofNat order.length :: flagBytes order.length long ++ refBytes long 0 order ++ b)
    | .error _ => .error .encode

/-! ### `send_control_message` and the operations -/

/-- `use_pass_through` -/
def usePassThrough (c : Conn) : Bool :=
  match c.neg with
  | some f => !hasFlag f DIST_HDR_ATOM_CACHE
  | none => true

/-! The writes themselves are not transcribed by hand: the translator reads the guarded write sequences of
`send_control_message` off the source (`Gen.C07_SEND_BRANCHES`, `Gen.C07_HEADER_BUFFER`) and the functions below interpret
them.  Reordering, dropping or adding a write in the source changes what the model writes. -/

/-- one step of a pass-through branch: the bytes it writes (`none` for the guard, yield points, flush) -/
def writeOfStep (frameLen : Nat) (ce me : Bytes) (step : String) : Option Bytes :=
  if step = "write_u32:frame_len" then some (be32 frameLen)
  else if step = "write_u8:PASS_THROUGH" then some [UInt8.ofNat Gen.C07_PASS_THROUGH]
  else if step = "write_all:control_encoded" then some ce
  else if step = "write_all:msg_encoded" then some me
  else none

def writesFromSteps (frameLen : Nat) (ce me : Bytes) (steps : List String) : List Bytes :=
  steps.filterMap (writeOfStep frameLen ce me)

/-- the writes of the pass-through branch with (`0`) / without (`1`) a payload -/
def ptWrites (withPayload : Bool) (frameLen : Nat) (ce me : Bytes) : List Bytes :=
  writesFromSteps frameLen ce me (Gen.C07_SEND_BRANCHES.getD (if withPayload then 0 else 1) [])

/-- header mode: the single buffer (`put_u32(frame_length(encoded.len())?)`, `put_slice(&encoded)`) -/
def bufOf (enc : Bytes) (puts : List String) : Bytes :=
  (puts.map fun p =>
    if p = "put_u32:Self::frame_length(encoded.len())?" then be32 enc.length
    else if p = "put_slice:encoded" then enc
    else []).flatten

/-- the writes of the distribution-header branch -/
def hdrWrites (withPayload : Bool) (enc : Bytes) : List Bytes :=
  (Gen.C07_SEND_BRANCHES.getD 2 []).filterMap fun s =>
    if s = "write_all:buf" then some (bufOf enc (Gen.C07_HEADER_BUFFER.getD (if withPayload then 0 else 1) [])) else none

/-- `send_control_message`: the writes, in order -/
def sendControlMessage (c : Conn) (order : List Bytes) (control : Msg) (message : Option Term) :
    Except Err (List Bytes) :=
  match toTerm Gen.controlTable control with
  | none => .error .badControl
  | some ct =>
    if usePassThrough c then
      match encode ct with
      | .error _ => .error .encode
      | .ok ce =>
        match message with
        | some m =>
          match encode m with
          | .error _ => .error .encode
          | .ok me =>
            if 1 + ce.length + me.length > u32max then .error .tooLarge
            else if !c.stream then .error .noStream
            -- `write_u32(frame_len)`, `write_u8(112)`, `write_all(control)`, `write_all(msg)`
            else .ok (ptWrites true (1 + ce.length + me.length) ce me)
        | none =>
          if 1 + ce.length > u32max then .error .tooLarge
          else if !c.stream then .error .noStream
          else .ok (ptWrites false (1 + ce.length) ce [])
    else
      let terms := match message with
        | some m => [ct, m]
        | none => [ct]
      match distHeader order terms with
      | .error e => .error e
      | .ok enc =>
        if enc.length > u32max then .error .tooLarge
        else if !c.stream then .error .noStream
        -- one buffer: `put_u32(frame_length(encoded.len())?)`, `put_slice(&encoded)`, one `write_all`
        else .ok (hdrWrites message.isSome enc)

/-- the gate at the top of every operation, then `send_control_message` -/
def sendOp (c : Conn) (order : List Bytes) (op : Op) : Except Err (List Bytes) :=
  if c.state ≠ .connected then .error .invalidState
  else sendControlMessage c order op.control op.payload

/-- the bytes an operation puts on the wire -/
def wireOf (r : Except Err (List Bytes)) : Bytes :=
  match r with
  | .ok ws => ws.flatten
  | .error _ => []

/-- `Node::unlink`: the id of the UNLINK_ID signal, from the value `reference_counter.fetch_add(1)` returned (a `u32`) -/
def nodeUnlinkId (counter : Nat) : Nat := counter + 1

/-! ### concurrent tasks sharing one connection (node.rs) -/

/-- per-task control state -/
structure TSt where
  /-- index of the task's next operation (or of the one in progress) -/
  next : Nat
  /-- `some ws`: the task holds the connection lock and still has to perform the writes `ws` -/
  rem : Option (List Bytes)
  deriving Repr

/-- global state: the bytes on the wire, the lock holder, the tasks, and (ghost) the operations in the order in which
the lock was acquired for them -/
structure St where
  wire : Bytes
  lock : Option Nat
  ts : Nat → TSt
  acq : List (Nat × Nat)

def St.init : St := { wire := [], lock := none, ts := fun _ => { next := 0, rem := none }, acq := [] }

def upd (f : Nat → TSt) (t : Nat) (v : TSt) : Nat → TSt := fun x => if x = t then v else f x

/-- task `t` takes one step (`prog t` = the write lists of its operations, in issue order):
acquire the lock for its next operation (blocked = `none` while somebody holds it), perform the next write, or
release the lock after the last write.  A task with no operation left cannot step. -/
def step (prog : Nat → List (List Bytes)) (st : St) (t : Nat) : Option St :=
  match (st.ts t).rem with
  | none =>
    match (prog t)[(st.ts t).next]? with
    | none => none
    | some ws =>
      match st.lock with
      | some _ => none
      | none =>
        some { st with lock := some t, ts := upd st.ts t { next := (st.ts t).next, rem := some ws },
                       acq := st.acq ++ [(t, (st.ts t).next)] }
  | some [] => some { st with lock := none, ts := upd st.ts t { next := (st.ts t).next + 1, rem := none } }
  | some (w :: ws) => some { st with wire := st.wire ++ w, ts := upd st.ts t { next := (st.ts t).next, rem := some ws } }

/-- run a schedule (a list of task numbers); a step of a blocked or finished task is skipped -/
def run (prog : Nat → List (List Bytes)) (st : St) (σ : List Nat) : St :=
  σ.foldl (fun st t => (step prog st t).getD st) st

/-- the whole frame of operation `i` of task `t` -/
def frameOf (prog : Nat → List (List Bytes)) (ti : Nat × Nat) : Bytes := ((prog ti.1)[ti.2]?.getD []).flatten

/-! ### bridge to the Spec: the operation with its arguments as Erlang values -/

def pidDen (p : PidF) : Value := (Term.pid p).den

/-- the protocol-level operation an implementation-level operation stands for -/
def Op.den : Op → Spec.Wire.SOp
  | .send _ to m => .send (pidDen to) m.den
  | .regSend frm name m => .regSend (pidDen frm) (.atom (cps name)) m.den
  | .link frm to => .link (pidDen frm) (pidDen to)
  | .unlink frm to id => .unlinkId id (pidDen frm) (pidDen to)
  | .monitor frm to r => .monitorP (pidDen frm) (pidDen to) r.term.den
  | .demonitor frm to r => .demonitorP (pidDen frm) (pidDen to) r.term.den

end Edp.Send
