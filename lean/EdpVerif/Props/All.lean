import EdpVerif.Props.C01
import EdpVerif.Props.C09
import EdpVerif.Props.C11
import EdpVerif.Props.C12
import EdpVerif.Props.C13
import EdpVerif.Props.C05
import EdpVerif.Props.C10
import EdpVerif.Props.C04
