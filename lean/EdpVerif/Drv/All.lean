import EdpVerif.Drv.Etf
import EdpVerif.Drv.C02
import EdpVerif.Drv.C03
import EdpVerif.Drv.C04
import EdpVerif.Drv.C04Net
import EdpVerif.Drv.C05
import EdpVerif.Drv.C06
import EdpVerif.Drv.C07
import EdpVerif.Drv.C08
import EdpVerif.Drv.C09
import EdpVerif.Drv.C10
import EdpVerif.Drv.C11
import EdpVerif.Drv.C12
import EdpVerif.Drv.C13
import EdpVerif.Drv.C14
import EdpVerif.Drv.C15
import EdpVerif.Drv.C16
import EdpVerif.Drv.C17
import EdpVerif.Drv.C18
import EdpVerif.Drv.C18b
import EdpVerif.Drv.C19
import EdpVerif.Drv.C20
namespace Edp.Drv

def handlers : List (List String → Option String) :=
  [handleEtf, handleC02, handleC03, handleC04, handleC04Net, handleC05, handleC06, handleC07, handleC08, handleC09, handleC10,
   handleC11, handleC12, handleC13, handleC14, handleC15, handleC16, handleC17, handleC18, handleC18b, handleC19, handleC20]

def handle (args : List String) : String :=
  match handlers.findSome? (· args) with
  | some r => r
  | none => "bad-op unknown"

end Edp.Drv
