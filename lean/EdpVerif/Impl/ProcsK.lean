import EdpVerif.Impl.Procs
import EdpVerif.Impl.Behaviours
import EdpVerif.Impl.Chan
/-!
The local-process model (`Impl/Procs.lean`) with the FORM of every mailbox send as a parameter.

`Impl/Procs.lean` models every mailbox send as `sender.send(m).await` on a bounded channel: the step is not enabled while the
target's mailbox is full. Whether the source really uses that form at every delivery site is a fact about the source; here
the six sending steps of the model are given the form as a parameter (`Site → Chan.Form`): with a form that can give up
(`try_send`, `send_timeout`) the step IS enabled on a full mailbox, the call goes on as it does after an error, and the
message is not in the mailbox (ghost `dropped`). `srcForms` reads the forms from the tables regenerated from the source.

* process.rs `propagate_exit_signals` — `Site.exitLinks`, `Site.exitMonitors` (`let _ = handle.send(..).await`)
* node.rs `send_local` — `Site.sendLocal` (`handle.send(..).await?`: an error is the call's result; `ProcessHandle::send`
  maps every error of the channel to `MailboxClosed`)
* node.rs `signal_noproc_exit`, `monitor` — `Site.noprocExit`, `Site.noprocMonitor` (`let _ = …`)
* gen_server.rs `handle_gen_call`, gen_event.rs `handle_message` (three reply sites) — `replyK`
-/
namespace Edp.Impl.ProcsK
open Edp Edp.Impl.Procs Edp.Chan

inductive Site where
  | sendLocal | exitLinks | exitMonitors | noprocExit | noprocMonitor
  deriving DecidableEq, Repr

/-- the forms as written in the source on this run -/
def srcForms : Site → Form
  | .sendLocal => siteForm "node.rs" "send_local" "Regular"
  | .exitLinks => siteForm "process.rs" "propagate_exit_signals" "Exit"
  | .exitMonitors => siteForm "process.rs" "propagate_exit_signals" "MonitorExit"
  | .noprocExit => siteForm "node.rs" "signal_noproc_exit" "Exit"
  | .noprocMonitor => siteForm "node.rs" "monitor" "MonitorExit"

/-- the form of the reply sends of the behaviours (`handle_gen_call`; the three sites of `GenEventManager::handle_message`) -/
def srcReplyForms : List Form :=
  [siteForm "gen_server.rs" "handle_gen_call" "Regular", siteForm "gen_event.rs" "handle_message" "Regular"]

structure KSt where
  st : St
  /-- ghost: (target, message) of every send that gave up on a full mailbox whose receiver was still there -/
  dropped : List (Pid × Msg) := []

/-- the target's receiver is there and its mailbox has no room -/
def isFull (st : St) (p : Pid) : Bool := !(st.procs p).closed && !decide ((st.procs p).mailbox.length < st.cap)

def clientStepK (F : Site → Form) (k : KSt) (t : Tid) : Option KSt :=
  let st := k.st
  match st.cpc t with
  | .sendPut p _ _ =>
    if isFull st p ∧ (F .sendLocal).givesUp then some ⟨st.ret t .closed, k.dropped⟩
    else (clientStep st t).map (⟨·, k.dropped⟩)
  | .lkB a b =>
    if isFull st b ∧ (F .noprocExit).givesUp then some ⟨st.setC t (.lk3 true a b), k.dropped ++ [(b, .exitNoproc a)]⟩
    else (clientStep st t).map (⟨·, k.dropped⟩)
  | .lkD a b =>
    if isFull st a ∧ (F .noprocExit).givesUp then some ⟨st.ret t .ok, k.dropped ++ [(a, .exitNoproc b)]⟩
    else (clientStep st t).map (⟨·, k.dropped⟩)
  | .monN2 a b r =>
    if isFull st a ∧ (F .noprocMonitor).givesUp then some ⟨st.ret t (.ref r), k.dropped ++ [(a, .monNoproc b r)]⟩
    else (clientStep st t).map (⟨·, k.dropped⟩)
  | _ => (clientStep st t).map (⟨·, k.dropped⟩)

def procStepK (F : Site → Form) (k : KSt) (p : Pid) (i : Nat) : Option KSt :=
  let st := k.st
  match (st.procs p).pc with
  | .sendL a rest =>
    if isFull st a ∧ (F .exitLinks).givesUp then
      some ⟨st.modP p fun q => { q with pc := .notifyL rest, skipL := q.skipL ++ [a] }, k.dropped ++ [(a, .exit p)]⟩
    else (procStep st p i).map (⟨·, k.dropped⟩)
  | .sendM a r rest =>
    if isFull st a ∧ (F .exitMonitors).givesUp then
      some ⟨st.modP p fun q => { q with pc := .notifyM rest, skipM := q.skipM ++ [(a, r)] }, k.dropped ++ [(a, .monExit p r)]⟩
    else (procStep st p i).map (⟨·, k.dropped⟩)
  | _ => (procStep st p i).map (⟨·, k.dropped⟩)

def stepEvK (F : Site → Form) (k : KSt) : Ev → Option KSt
  | .start t op => (stepEv k.st (.start t op)).map (⟨·, k.dropped⟩)
  | .cont t => clientStepK F k t
  | .proc p i => procStepK F k p i

def runK (F : Site → Form) (k : KSt) (evs : List Ev) : KSt := evs.foldl (fun k e => (stepEvK F k e).getD k) k

/-- the mailbox the next step of a client task sends into, when that step is a mailbox send -/
def cTarget : CPc → Option Pid
  | .sendPut p _ _ => some p
  | .lkB _ b => some b
  | .lkD a _ => some a
  | .monN2 a _ _ => some a
  | _ => none

/-- the mailbox the next step of a process task sends into -/
def pTarget : PPc → Option Pid
  | .sendL a _ => some a
  | .sendM a _ _ => some a
  | _ => none

/-! ### the reply sends of the behaviours -/

/-- `if let Some(handle) = registry.get(&pid).await { let _ = handle.<send form>(Message::Regular { .. }) }` with the caller's
mailbox possibly full (`full to`): a waiting send is completed once the caller has taken a message — the reply is in its
mailbox; a form that gives up loses it -/
def replyK (f : Form) (full : PidF → Bool) (env : Beh.Env) (to : PidF) (body : Term) : List Beh.Out :=
  match env to with
  | .live => if full to ∧ f.givesUp then [] else [.send to body]
  | .absent => []
  | .closed => []

end Edp.Impl.ProcsK
