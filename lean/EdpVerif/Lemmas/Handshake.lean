import EdpVerif.Impl.Handshake
import EdpVerif.Spec.Handshake
/-! Helper lemmas for C04: the model's decoders are the Spec parsers (hence never panic), and what one step does. -/
namespace Edp.Lemmas.Handshake
open Edp
open Edp.Impl.Handshake
open Edp.Spec.Handshake (Op Hist histStep histFrom hist parseAck parseChallenge parseStatus)

theorem rdN_some_of_le : ∀ (k : Nat) (bs : Bytes), k ≤ bs.length → ∃ v r, rdN k bs = some (v, r) := by
  intro k
  induction k with
  | zero => intro bs _; exact ⟨0, bs, rfl⟩
  | succ k ih =>
    intro bs h
    cases bs with
    | nil => simp at h
    | cons b bs =>
      obtain ⟨v, r, hr⟩ := ih bs (by simpa using h)
      exact ⟨b.toNat * 256 ^ k + v, r, by simp [rdN, hr]⟩

theorem rdN_none_of_lt : ∀ (k : Nat) (bs : Bytes), bs.length < k → rdN k bs = none := by
  intro k
  induction k with
  | zero => intro bs h; omega
  | succ k ih =>
    intro bs h
    cases bs with
    | nil => rfl
    | cons b bs => simp [rdN, ih bs (by simpa using h)]

/-- a successful read: the value, the rest, and how much is left -/
theorem getN_of_le (k : Nat) (bs : Bytes) (h : k ≤ bs.length) :
    ∃ v r, rdN k bs = some (v, r) ∧ getN k bs = .ok (v, r) ∧ bs.length = k + r.length := by
  obtain ⟨v, r, hr⟩ := rdN_some_of_le k bs h
  exact ⟨v, r, hr, by simp [getN, hr], rdN_length k bs v r hr⟩

/-! ### decoders = Spec parsers -/

theorem decodeAck_eq (bs : Bytes) :
    decodeAck bs = match parseAck bs with
      | some d => .ok d
      | none => .err .malformed := by
  cases bs with
  | nil => simp [decodeAck, parseAck]
  | cons t r =>
    by_cases ht : t = 97
    · by_cases hl : 16 ≤ r.length
      · simp [decodeAck, parseAck, getU8, copy16, ht, hl]
      · simp [decodeAck, parseAck, getU8, ht, hl]
    · simp [decodeAck, parseAck, getU8, ht]

def convMsg (m : Spec.Handshake.ChallengeMsg) : ChallengeMsg := ⟨m.flags, m.challenge, m.creation, m.name⟩

theorem decodeChallenge_eq (bs : Bytes) :
    decodeChallenge bs = match parseChallenge bs with
      | some m => .ok (convMsg m)
      | none => .err .malformed := by
  cases bs with
  | nil => simp [decodeChallenge, parseChallenge]
  | cons t r =>
    by_cases ht : t = 78
    · by_cases hl : r.length < 18
      · -- too short: some field read fails in the Spec
        have hspec : parseChallenge (t :: r) = none := by
          simp only [parseChallenge, ht]
          cases h8 : rdN 8 r with
          | none => simp
          | some p8 =>
            obtain ⟨f, r1⟩ := p8
            have l1 := rdN_length 8 r f r1 h8
            cases h4 : rdN 4 r1 with
            | none => simp [h4]
            | some p4 =>
              obtain ⟨c, r2⟩ := p4
              have l2 := rdN_length 4 r1 c r2 h4
              cases h4' : rdN 4 r2 with
              | none => simp [h4, h4']
              | some p4' =>
                obtain ⟨cr, r3⟩ := p4'
                have l3 := rdN_length 4 r2 cr r3 h4'
                have : rdN 2 r3 = none := rdN_none_of_lt 2 r3 (by omega)
                simp [h4, h4', this]
        rw [hspec]
        simp [decodeChallenge, getU8, ht, hl]
      · have hl' : 18 ≤ r.length := by omega
        obtain ⟨f, r1, h8, g8, l1⟩ := getN_of_le 8 r (by omega)
        obtain ⟨c, r2, h4, g4, l2⟩ := getN_of_le 4 r1 (by omega)
        obtain ⟨cr, r3, h4', g4', l3⟩ := getN_of_le 4 r2 (by omega)
        obtain ⟨nl, r4, h2, g2, l4⟩ := getN_of_le 2 r3 (by omega)
        have hnot : ¬ (r.length < 8 + 4 + 4 + 2) := by omega
        simp only [decodeChallenge, parseChallenge, getU8, ht, h8, h4, h4', h2, g8, g4, g4', g2, HRes.bind_ok]
        by_cases hn : nl ≤ r4.length
        · by_cases hu : validUtf8 (r4.take nl) = true
          · simp [hnot, hn, hu, sliceTo, convMsg]
          · simp [hnot, hn, hu, sliceTo]
        · simp [hnot, hn, sliceTo]
    · simp [decodeChallenge, parseChallenge, getU8, ht]

def convStatus : Spec.Handshake.Status → Status
  | .ok => .ok
  | .okSimultaneous => .okSimultaneous
  | .nok => .nok
  | .notAllowed => .notAllowed
  | .alive => .alive

theorem convStatus_isOk (s : Spec.Handshake.Status) : (convStatus s).isOk = s.accepts := by
  cases s <;> rfl

theorem decodeStatus_eq (bs : Bytes) :
    decodeStatus bs = match parseStatus bs with
      | some s => .ok (convStatus s)
      | none => .err .malformed := by
  cases bs with
  | nil => simp [decodeStatus, parseStatus]
  | cons t r =>
    by_cases ht : t = 115
    · simp only [decodeStatus, parseStatus, getU8, ht, HRes.bind_ok,
        Spec.Handshake.txtOk, Spec.Handshake.txtOkSimultaneous, Spec.Handshake.txtNok,
        Spec.Handshake.txtNotAllowed, Spec.Handshake.txtAlive]
      by_cases h1 : r = [111, 107]
      · subst h1; simp [convStatus]; decide
      by_cases h2 : r = [111, 107, 95, 115, 105, 109, 117, 108, 116, 97, 110, 101, 111, 117, 115]
      · subst h2; simp [convStatus]; decide
      by_cases h3 : r = [110, 111, 107]
      · subst h3; simp [convStatus]; decide
      by_cases h4 : r = [110, 111, 116, 95, 97, 108, 108, 111, 119, 101, 100]
      · subst h4; simp [convStatus]; decide
      by_cases h5 : r = [97, 108, 105, 118, 101]
      · subst h5; simp [convStatus]; decide
      simp [h1, h2, h3, h4, h5]
    · simp [decodeStatus, parseStatus, getU8, ht]


/-! ### the two decoders the state machine does not use -/

theorem decodeReply_no_panic (bs : Bytes) : decodeReply bs ≠ .panic := by
  cases bs with
  | nil => simp [decodeReply]
  | cons t r =>
    by_cases ht : t = 114
    · by_cases hl : r.length < 20
      · simp [decodeReply, getU8, ht, hl]
      · obtain ⟨c, r1, _, g4, l1⟩ := getN_of_le 4 r (by omega)
        have h16 : 16 ≤ r1.length := by omega
        simp [decodeReply, getU8, ht, hl, g4, copy16, h16]
    · simp [decodeReply, getU8, ht]

theorem decodeSendName_no_panic (bs : Bytes) : decodeSendName bs ≠ .panic := by
  cases bs with
  | nil => simp [decodeSendName]
  | cons t r =>
    by_cases ht : t = 78
    · by_cases hl : r.length < 14
      · simp [decodeSendName, getU8, ht, hl]
      · obtain ⟨f, r1, _, g8, l1⟩ := getN_of_le 8 r (by omega)
        obtain ⟨cr, r2, _, g4, l2⟩ := getN_of_le 4 r1 (by omega)
        obtain ⟨nl, r3, _, g2, l3⟩ := getN_of_le 2 r2 (by omega)
        have hnot : ¬ (r.length < 8 + 4 + 2) := by omega
        simp only [decodeSendName, getU8, ht, g8, g4, g2, HRes.bind_ok]
        by_cases hn : r3.length < nl
        · simp [hnot, hn]
        · have hn' : nl ≤ r3.length := by omega
          by_cases hu : validUtf8 (r3.take nl) = true <;> simp [hnot, hn, sliceTo, hn', hu]
    · simp [decodeSendName, getU8, ht]

/-! ### one step of the state machine -/

/-- the mutable fields other than `state` are what the history says -/
def Agrees (s : State) (h : Hist) : Prop := s.our = h.our ∧ s.their = h.their ∧ s.neg = h.neg

theorem agrees_init : Agrees State.init Hist.empty := ⟨rfl, rfl, rfl⟩

theorem step_agrees (cfg : Cfg) (dg : Bytes → Nat → Bytes) (s : State) (h : Hist) (op : Op)
    (ha : Agrees s h) : Agrees (step cfg dg s op).1 (histStep cfg.flags h op) := by
  obtain ⟨h1, h2, h3⟩ := ha
  cases op with
  | beginConnect =>
    simp only [step, histStep]; split <;> exact ⟨h1, h2, h3⟩
  | prepareSendName =>
    simp only [step, histStep]; split <;> exact ⟨h1, h2, h3⟩
  | handleStatus b =>
    simp only [step, histStep]; split
    · split <;> exact ⟨h1, h2, h3⟩
    · exact ⟨h1, h2, h3⟩
    · exact ⟨h1, h2, h3⟩
  | prepareComplement => exact ⟨h1, h2, h3⟩
  | handleChallenge b c =>
    simp only [step, histStep, decodeChallenge_eq]
    cases parseChallenge b with
    | none => exact ⟨h1, h2, h3⟩
    | some m => exact ⟨rfl, rfl, rfl⟩
  | prepareChallengeReply =>
    simp only [step, histStep]; split <;> exact ⟨h1, h2, h3⟩
  | handleChallengeAck b =>
    simp only [step, histStep]; split
    · split
      · exact ⟨h1, h2, h3⟩
      · split <;> exact ⟨h1, h2, h3⟩
    · exact ⟨h1, h2, h3⟩
    · exact ⟨h1, h2, h3⟩
  | disconnect => exact ⟨rfl, rfl, rfl⟩

theorem runFrom_cons (cfg : Cfg) (dg : Bytes → Nat → Bytes) (s : State) (op : Op) (ops : List Op) :
    runFrom cfg dg s (op :: ops) = runFrom cfg dg (step cfg dg s op).1 ops := rfl

theorem histFrom_cons (f : Nat) (h : Hist) (op : Op) (ops : List Op) :
    histFrom f h (op :: ops) = histFrom f (histStep f h op) ops := rfl

theorem runFrom_agrees (cfg : Cfg) (dg : Bytes → Nat → Bytes) (ops : List Op) :
    ∀ (s : State) (h : Hist), Agrees s h → Agrees (runFrom cfg dg s ops) (histFrom cfg.flags h ops) := by
  induction ops with
  | nil => intro s h ha; exact ha
  | cons op rest ih =>
    intro s h ha
    rw [runFrom_cons, histFrom_cons]
    exact ih _ _ (step_agrees cfg dg s h op ha)

theorem run_agrees (cfg : Cfg) (dg : Bytes → Nat → Bytes) (ops : List Op) :
    Agrees (run cfg dg ops) (hist cfg.flags ops) :=
  runFrom_agrees cfg dg ops _ _ agrees_init

/-- the only way into `connected`: an ack whose digest is that of the cookie and the current challenge of ours -/
theorem step_connected (cfg : Cfg) (dg : Bytes → Nat → Bytes) (s : State) (op : Op)
    (hc : (step cfg dg s op).1.state = .connected) :
    (s.state = .connected ∧ op.keepsConnected = true) ∨
    (∃ a c, op = .handleChallengeAck a ∧ s.our = some c ∧ parseAck a = some (dg cfg.cookie c) ∧
      (step cfg dg s op).2 = .unit) := by
  cases op with
  | beginConnect =>
    simp only [step] at hc
    split at hc
    · exact .inl ⟨hc, rfl⟩
    · simp at hc
  | prepareSendName =>
    simp only [step] at hc
    split at hc <;> simp at hc
  | handleStatus b =>
    simp only [step] at hc
    left
    refine ⟨?_, rfl⟩
    split at hc
    · split at hc <;> exact hc
    · exact hc
    · exact hc
  | prepareComplement => exact .inl ⟨hc, rfl⟩
  | handleChallenge b c =>
    simp only [step] at hc
    split at hc <;> simp at hc
  | prepareChallengeReply =>
    simp only [step] at hc
    split at hc <;> simp at hc
  | handleChallengeAck b =>
    simp only [step, decodeAck_eq] at hc ⊢
    cases hp : parseAck b with
    | none => simp only [hp] at hc; exact .inl ⟨hc, rfl⟩
    | some d =>
      simp only [hp] at hc ⊢
      cases ho : s.our with
      | none => simp only [ho] at hc; exact .inl ⟨hc, rfl⟩
      | some o =>
        simp only [ho] at hc ⊢
        by_cases hd : d = dg cfg.cookie o
        · right
          exact ⟨b, o, rfl, rfl, by rw [hp, hd], by simp [hd]⟩
        · simp only [hd, if_false] at hc
          exact .inl ⟨hc, rfl⟩
  | disconnect => simp [step] at hc

/-- no call panics -/
theorem step_no_panic (cfg : Cfg) (dg : Bytes → Nat → Bytes) (s : State) (op : Op) :
    (step cfg dg s op).2 ≠ .panic := by
  cases op with
  | beginConnect => simp only [step]; split <;> simp
  | prepareSendName =>
    by_cases h : cfg.name.length > 255 <;> simp [step, encodeSendNameOld, h]
  | handleStatus b =>
    simp only [step, decodeStatus_eq]
    cases parseStatus b with
    | none => simp
    | some st => simp only []; split <;> simp
  | prepareComplement => simp [step]
  | handleChallenge b c =>
    simp only [step, decodeChallenge_eq]
    cases parseChallenge b <;> simp
  | prepareChallengeReply => simp only [step]; split <;> simp
  | handleChallengeAck b =>
    simp only [step, decodeAck_eq]
    cases parseAck b with
    | none => simp
    | some d =>
      simp only []
      split
      · simp
      · split <;> simp
  | disconnect => simp [step]

/-! ### op sequences -/

/-- from any state whose fields agree with the history: `connected` at the end means either it was connected all
along, or there is a last successful ack, justified by the history before it -/
theorem connected_from (cfg : Cfg) (dg : Bytes → Nat → Bytes) (ops : List Op) :
    ∀ (s : State) (h : Hist), Agrees s h → (runFrom cfg dg s ops).state = .connected →
    (s.state = .connected ∧ ∀ op ∈ ops, op.keepsConnected = true) ∨
    ∃ pre a post c, ops = pre ++ Op.handleChallengeAck a :: post ∧
      (histFrom cfg.flags h pre).our = some c ∧ parseAck a = some (dg cfg.cookie c) ∧
      ∀ op ∈ post, op.keepsConnected = true := by
  induction ops with
  | nil => intro s h _ hc; exact .inl ⟨hc, by simp⟩
  | cons op rest ih =>
    intro s h ha hc
    rw [runFrom_cons] at hc
    rcases ih _ _ (step_agrees cfg dg s h op ha) hc with ⟨hs', hrest⟩ | ⟨pre, a, post, c, e, hh, hp, hk⟩
    · rcases step_connected cfg dg s op hs' with ⟨hs, hk⟩ | ⟨a, c, e, ho, hp, _⟩
      · left
        refine ⟨hs, ?_⟩
        intro o ho
        rcases List.mem_cons.mp ho with rfl | h'
        · exact hk
        · exact hrest o h'
      · right
        subst e
        refine ⟨[], a, rest, c, rfl, ?_, hp, hrest⟩
        show h.our = some c
        rw [← ha.1]; exact ho
    · right
      refine ⟨op :: pre, a, post, c, by simp [e], ?_, hp, hk⟩
      rw [histFrom_cons]; exact hh

theorem histStep_quiet (f : Nat) (h : Hist) (op : Op) (hq : op.keepsChallenge = true) : histStep f h op = h := by
  cases op with
  | handleChallenge b c =>
    simp only [Spec.Handshake.Op.keepsChallenge, Option.isNone_iff_eq_none] at hq
    simp [histStep, hq]
  | disconnect => simp [Spec.Handshake.Op.keepsChallenge] at hq
  | _ => rfl

theorem histFrom_quiet (f : Nat) (ops : List Op) : ∀ (h : Hist), (∀ op ∈ ops, op.keepsChallenge = true) →
    histFrom f h ops = h := by
  induction ops with
  | nil => intro h _; rfl
  | cons op rest ih =>
    intro h hq
    rw [histFrom_cons, histStep_quiet f h op (hq op (by simp))]
    exact ih h (fun o ho => hq o (by simp [ho]))

theorem histFrom_append (f : Nat) (h : Hist) (a b : List Op) :
    histFrom f h (a ++ b) = histFrom f (histFrom f h a) b := by
  simp [histFrom, List.foldl_append]

/-- the history functions unfolded: where the current challenge of ours comes from -/
theorem histFrom_explicit (f : Nat) (ops : List Op) : ∀ (h : Hist) (c : Nat), (histFrom f h ops).our = some c →
    (h.our = some c ∧ histFrom f h ops = h ∧ ∀ op ∈ ops, op.keepsChallenge = true) ∨
    ∃ p1 b m p2, ops = p1 ++ Op.handleChallenge b c :: p2 ∧ parseChallenge b = some m ∧
      (∀ op ∈ p2, op.keepsChallenge = true) ∧
      histFrom f h ops = ⟨some c, some m.challenge, some (m.flags &&& f)⟩ := by
  induction ops with
  | nil => intro h c hc; exact .inl ⟨hc, rfl, by simp⟩
  | cons op rest ih =>
    intro h c hc
    rw [histFrom_cons] at hc ⊢
    rcases ih _ c hc with ⟨h1, h2, h3⟩ | ⟨p1, b, m, p2, e, hp, hq, hh⟩
    · by_cases hk : op.keepsChallenge = true
      · left
        rw [histStep_quiet f h op hk] at h1 h2 ⊢
        refine ⟨h1, h2, ?_⟩
        intro o ho
        rcases List.mem_cons.mp ho with rfl | h'
        · exact hk
        · exact h3 o h'
      · right
        cases op with
        | disconnect => simp [histStep, Hist.empty] at h1
        | handleChallenge b c0 =>
          cases hp : parseChallenge b with
          | none => simp [Spec.Handshake.Op.keepsChallenge, hp] at hk
          | some m =>
            simp only [histStep, hp] at h1 h2 ⊢
            simp only [Option.some.injEq] at h1
            subst h1
            exact ⟨[], b, m, rest, rfl, hp, h3, h2⟩
        | beginConnect => simp [Spec.Handshake.Op.keepsChallenge] at hk
        | prepareSendName => simp [Spec.Handshake.Op.keepsChallenge] at hk
        | handleStatus _ => simp [Spec.Handshake.Op.keepsChallenge] at hk
        | prepareComplement => simp [Spec.Handshake.Op.keepsChallenge] at hk
        | prepareChallengeReply => simp [Spec.Handshake.Op.keepsChallenge] at hk
        | handleChallengeAck _ => simp [Spec.Handshake.Op.keepsChallenge] at hk
    · right
      exact ⟨op :: p1, b, m, p2, by simp [e], hp, hq, hh⟩

end Edp.Lemmas.Handshake
