import EdpVerif.Drv.Common
namespace Edp.Drv

/-- driver requests of property C13 (stub: nothing handled yet) -/
def handleC13 : List String → Option String
  | _ => none

end Edp.Drv
