import EdpVerif.Impl.Elixir
/-!
Helper lemmas for C20: struct maps.

A struct map is built by inserting atom-keyed entries; which entry ends up where depends on the keys only.
`insA`/`getA`/`mkA` are `mapInsert`/`mapGet`/`mkMap` for atom keys and an arbitrary value type, so that facts about
key placement are closed propositions (values replaced by their positions) that `decide` evaluates in the kernel,
and transfer to the real values by naturality (`getA_mkA_reidx`).
-/
namespace Edp.Ex
open Edp

theorem cmp_atom (a b : Bytes) : Term.cmp (.atom a) (.atom b) = bytesCmp a b := by
  simp [Term.cmp, Term.norm, Term.cmpN, Term.rank]

/-- an atom-keyed entry as a map entry -/
def lift (kv : Bytes × Term) : Term × Term := (.atom kv.1, kv.2)

def insA {α : Type} : List (Bytes × α) → Bytes → α → List (Bytes × α)
  | [], k, v => [(k, v)]
  | (k', v') :: r, k, v =>
    match bytesCmp k k' with
    | .lt => (k, v) :: (k', v') :: r
    | .eq => (k', v) :: r
    | .gt => (k', v') :: insA r k v

def getA {α : Type} : List (Bytes × α) → Bytes → Option α
  | [], _ => none
  | (k', v') :: r, k =>
    match bytesCmp k k' with
    | .lt => none
    | .eq => some v'
    | .gt => getA r k

def mkA {α : Type} (l : List (Bytes × α)) : List (Bytes × α) := l.foldl (fun m kv => insA m kv.1 kv.2) []

theorem mapInsert_lift (m : List (Bytes × Term)) (k : Bytes) (v : Term) :
    mapInsert (m.map lift) (.atom k) v = (insA m k v).map lift := by
  induction m with
  | nil => rfl
  | cons h t ih =>
    obtain ⟨k', v'⟩ := h
    simp only [List.map_cons, lift, mapInsert, insA, cmp_atom]
    cases bytesCmp k k' with
    | lt => rfl
    | eq => rfl
    | gt => simp only [List.map_cons, lift]; rw [← ih]

theorem mapGet_lift (m : List (Bytes × Term)) (k : Bytes) : mapGet (m.map lift) (.atom k) = getA m k := by
  induction m with
  | nil => rfl
  | cons h t ih =>
    obtain ⟨k', v'⟩ := h
    simp only [List.map_cons, lift, mapGet, getA, cmp_atom]
    cases bytesCmp k k' with
    | lt => rfl
    | eq => rfl
    | gt => simp only; rw [← ih]

theorem foldl_insert_lift (l acc : List (Bytes × Term)) :
    l.foldl (fun m kv => mapInsert m (.atom kv.1) kv.2) (acc.map lift) =
      (l.foldl (fun m kv => insA m kv.1 kv.2) acc).map lift := by
  induction l generalizing acc with
  | nil => rfl
  | cons h t ih => simp only [List.foldl_cons, mapInsert_lift, ih]

theorem mkMap_eq (l : List (Bytes × Term)) : mkMap l = (mkA l).map lift := by
  unfold mkMap mkA
  exact foldl_insert_lift l []

theorem fld_lift (m : List (Bytes × Term)) (k : Bytes) : fld (m.map lift) k = getA m k := mapGet_lift m k

theorem fldWith_lift (rd : Term → Option Int) (m : List (Bytes × Term)) (k : Bytes) :
    fldWith rd (m.map lift) k = (getA m k).bind rd := by
  unfold fldWith; rw [fld_lift]

theorem structModule_lift (m : List (Bytes × Term)) :
    structModule (.map (m.map lift)) = (getA m kStruct).bind atomName := by
  simp only [structModule, mapGet_lift]

/-! ### naturality in the values -/

theorem insA_map {α β : Type} (f : α → β) (m : List (Bytes × α)) (k : Bytes) (v : α) :
    insA (m.map fun p => (p.1, f p.2)) k (f v) = (insA m k v).map fun p => (p.1, f p.2) := by
  induction m with
  | nil => rfl
  | cons h t ih =>
    obtain ⟨k', v'⟩ := h
    simp only [List.map_cons, insA]
    cases bytesCmp k k' with
    | lt => rfl
    | eq => rfl
    | gt => simp only [List.map_cons]; rw [← ih]

theorem foldl_insA_map {α β : Type} (f : α → β) (l acc : List (Bytes × α)) :
    (l.map fun p => (p.1, f p.2)).foldl (fun m kv => insA m kv.1 kv.2) (acc.map fun p => (p.1, f p.2)) =
      (l.foldl (fun m kv => insA m kv.1 kv.2) acc).map fun p => (p.1, f p.2) := by
  induction l generalizing acc with
  | nil => rfl
  | cons h t ih => simp only [List.map_cons, List.foldl_cons, insA_map, ih]

theorem mkA_map {α β : Type} (f : α → β) (l : List (Bytes × α)) :
    mkA (l.map fun p => (p.1, f p.2)) = (mkA l).map fun p => (p.1, f p.2) := by
  unfold mkA
  exact foldl_insA_map f l []

theorem getA_map {α β : Type} (f : α → β) (m : List (Bytes × α)) (k : Bytes) :
    getA (m.map fun p => (p.1, f p.2)) k = (getA m k).map f := by
  induction m with
  | nil => rfl
  | cons h t ih =>
    obtain ⟨k', v'⟩ := h
    simp only [List.map_cons, getA]
    cases bytesCmp k k' with
    | lt => rfl
    | eq => rfl
    | gt => simp only; exact ih

/-- the `i`-th value of a field list -/
def val (l : List (Bytes × Term)) (i : Nat) : Term := (l.map Prod.snd).getD i .nil

/-- `l` is the key list `ks` (keys with their positions) with the values of `l` filled in -/
def Reidx (l : List (Bytes × Term)) (ks : List (Bytes × Nat)) : Prop := l = ks.map fun p => (p.1, val l p.2)

theorem getA_mkA_reidx {l : List (Bytes × Term)} {ks : List (Bytes × Nat)} (h : Reidx l ks) (k : Bytes) :
    getA (mkA l) k = (getA (mkA ks) k).map (val l) := by
  have e : getA (mkA (ks.map fun p => (p.1, val l p.2))) k = (getA (mkA ks) k).map (val l) := by
    rw [mkA_map, getA_map]
  unfold Reidx at h
  rw [← h] at e
  exact e

/-! ### the wire normal form of a struct map -/

/-- values are normalised and re-inserted; the keys are atoms, which the wire leaves alone -/
def wireA (m acc : List (Bytes × Term)) : List (Bytes × Term) :=
  m.foldl (fun a kv => insA a kv.1 (wireNorm kv.2)) acc

theorem wireNormKV_lift (m acc : List (Bytes × Term)) :
    wireNormKV (m.map lift) (acc.map lift) = (wireA m acc).map lift := by
  induction m generalizing acc with
  | nil => simp [wireNormKV, wireA]
  | cons h t ih =>
    obtain ⟨k, v⟩ := h
    simp only [List.map_cons, lift, wireNormKV, wireNorm, mapInsert_lift, wireA, List.foldl_cons]
    exact ih _

theorem wireNorm_map_lift (m : List (Bytes × Term)) :
    wireNorm (.map (m.map lift)) = .map ((wireA m []).map lift) := by
  have := wireNormKV_lift m []
  simp only [List.map_nil] at this
  simp only [wireNorm, this]

theorem wireA_eq (m : List (Bytes × Term)) : wireA m [] = mkA (m.map fun p => (p.1, wireNorm p.2)) := by
  unfold wireA mkA
  rw [List.foldl_map]

theorem getA_wire_reidx {l : List (Bytes × Term)} {ks : List (Bytes × Nat)} (h : Reidx l ks) (k : Bytes) :
    getA (wireA (mkA l) []) k = (getA (mkA (mkA ks)) k).map (fun i => wireNorm (val l i)) := by
  have e : getA (wireA (mkA (ks.map fun p => (p.1, val l p.2))) []) k =
      (getA (mkA (mkA ks)) k).map (fun i => wireNorm (val l i)) := by
    rw [wireA_eq, mkA_map, mkA_map, mkA_map, getA_map, getA_map, Option.map_map]
    rfl
  unfold Reidx at h
  rw [← h] at e
  exact e

theorem magVal_natDigits (n : Nat) : magVal (natDigits n) = n := by
  induction n using Nat.strongRecOn with
  | _ n ih =>
    rw [natDigits]
    split
    · simp [magVal, *]
    · simp only [magVal]
      rw [ih (n / 256) (by omega)]
      simp only [UInt8.toNat_ofNat']
      omega

/-- the field reader sees through the big-integer form the wire gives to wide integers -/
theorem intOf_wireInt (i : Int) : intOf (wireInt i) = some i := by
  unfold wireInt
  split
  · rfl
  · simp only [intOf, magVal_natDigits, Option.some.injEq]
    by_cases h : i < 0
    · simp only [h, decide_true, if_true]; omega
    · simp only [h, decide_false, Bool.false_eq_true, if_false]; omega

theorem intIn_wireInt (lo hi i : Int) : intIn lo hi (wireInt i) = intIn lo hi (.int i) := by
  unfold intIn; rw [intOf_wireInt]; rfl

theorem intIn_int (lo hi i : Int) (h : lo ≤ i ∧ i ≤ hi) : intIn lo hi (.int i) = some i := by
  simp [intIn, intOf, h]

theorem prefix_append_drop (p s : Bytes) : (p ++ s).drop p.length = s := by simp

theorem withoutElixir_withElixir (m : Bytes) : withoutElixir (withElixir m) = m := by
  unfold withElixir withoutElixir stripPrefix
  have : elixirDot.isPrefixOf (elixirDot ++ m) = true := by simp
  simp only [this, if_true, Option.getD_some]
  exact prefix_append_drop _ _

theorem elixir_atom_not_nil (m : Bytes) : isNilAtom (.atom (withElixir m)) = false := by
  simp [isNilAtom, atomName, withElixir, elixirDot, kNil]

end Edp.Ex
