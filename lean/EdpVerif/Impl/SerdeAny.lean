import EdpVerif.Impl.Serde
/-
Model of `impl Deserializer for &mut Deserializer :: deserialize_any` (crates/erltf_serde/src/de.rs) — the
self-describing entry point. serde's buffered representations go through it: `#[serde(untagged)]`, `#[serde(tag = ..)]`,
`#[serde(tag = .., content = ..)]` and `#[serde(flatten)]` first read the input into serde's private `Content` with
`deserialize_any` on every node and interpret that afterwards. `content` is exactly that reading: which `visit_*` each
term variant is shown as, recursively (`SeqDeserializer` / `MapDeserializer` hand each element to the element's own
`deserialize_any`).

  OwnedTerm::Atom "true"/"false"      visit_bool          Content.bool
  OwnedTerm::Atom "nil"               visit_unit          Content.unit        (default features)
  OwnedTerm::Atom "undefined"         visit_none          Content.none
  OwnedTerm::Atom other               visit_str           Content.str
  OwnedTerm::Integer                  visit_i64           Content.i64
  OwnedTerm::BigInt                   integer_term_as::<i64> → visit_i64, else integer_term_as::<u64> → visit_u64, else error
  OwnedTerm::Float                    visit_f64           Content.f64 (bits)
  OwnedTerm::Binary                   visit_str when UTF-8, else visit_bytes
  OwnedTerm::String                   visit_str
  OwnedTerm::List / Tuple / Nil       visit_seq
  OwnedTerm::Map                      visit_map (entries in key order)
  anything else                       Error::UnsupportedType
-/
namespace Edp.Serde
open Edp

/-- what a visitor that accepts everything is shown (the shape of serde's `Content`) -/
inductive Content where
  | bool (b : Bool)
  | i64 (i : Int)
  | u64 (n : Int)
  | f64 (bits : Nat)
  | str (s : Bytes)
  | bytes (b : Bytes)
  | unit
  | none
  | seq (xs : List Content)
  | map (kvs : List (Content × Content))
  deriving Repr, BEq, Inhabited

/-- the `BigInt` arm: a 64-bit value is shown as `i64` when it fits, else as `u64`, else it is an error -/
def contentBig (t : Term) : SRes Content :=
  match deInt .i64 t with
  | .ok (.int _ i) => .ok (.i64 i)
  | _ =>
    match deInt .u64 t with
    | .ok (.int _ i) => .ok (.u64 i)
    | _ => .error .err

mutual
def content : Term → SRes Content
  | .atom a =>
    if a = sTrue then .ok (.bool true)
    else if a = sFalse then .ok (.bool false)
    else if a = sNil then .ok .unit
    else if a = sUndefined then .ok .none
    else .ok (.str a)
  | .int i => .ok (.i64 i)
  | .big neg d => contentBig (.big neg d)
  | .float b => .ok (.f64 b)
  | .bin b => if validUtf8 b then .ok (.str b) else .ok (.bytes b)
  | .str s => .ok (.str s)
  | .list l =>
    match contentL l with
    | .ok xs => .ok (.seq xs)
    | .error e => .error e
  | .tuple l =>
    match contentL l with
    | .ok xs => .ok (.seq xs)
    | .error e => .error e
  | .nil => .ok (.seq [])
  | .map kvs =>
    match contentKV kvs with
    | .ok xs => .ok (.map xs)
    | .error e => .error e
  | _ => .error .err
def contentL : List Term → SRes (List Content)
  | [] => .ok []
  | t :: ts =>
    match content t with
    | .error e => .error e
    | .ok c =>
      match contentL ts with
      | .ok cs => .ok (c :: cs)
      | .error e => .error e
def contentKV : List (Term × Term) → SRes (List (Content × Content))
  | [] => .ok []
  | (k, v) :: r =>
    match content k with
    | .error e => .error e
    | .ok ck =>
      match content v with
      | .error e => .error e
      | .ok cv =>
        match contentKV r with
        | .ok cs => .ok ((ck, cv) :: cs)
        | .error e => .error e
end

def hexA (b : Bytes) : String := if b.isEmpty then "-" else hexOf b

def hex16 (n : Nat) : String := hexOf (be64 n)

mutual
def Content.text : Content → String
  | .bool b => if b then "b1" else "b0"
  | .i64 i => "i" ++ toString i
  | .u64 n => "u" ++ toString n
  | .f64 b => "f" ++ hex16 b
  | .str s => "s" ++ hexA s
  | .bytes s => "y" ++ hexA s
  | .unit => "unit"
  | .none => "none"
  | .seq xs => "q[" ++ ",".intercalate (Content.textL xs) ++ "]"
  | .map kvs => "m[" ++ ",".intercalate (Content.textKV kvs) ++ "]"
def Content.textL : List Content → List String
  | [] => []
  | c :: cs => c.text :: Content.textL cs
def Content.textKV : List (Content × Content) → List String
  | [] => []
  | (k, v) :: r => (k.text ++ "=" ++ v.text) :: Content.textKV r
end

end Edp.Serde
