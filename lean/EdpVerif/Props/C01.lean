import EdpVerif.Impl.TableTie
import EdpVerif.Impl.Encode
import EdpVerif.Impl.Den
import EdpVerif.Spec.Etf
/-
C01 — encode/decode round trip preserves the Erlang value of every term.
Property theorems only; helper lemmas live in EdpVerif/Lemmas.
-/
namespace Edp.Props.C01
open Edp

/-- table tie re-checked against the source on every run -/
theorem C01_tags_are_the_formats : Gen.VERSION = 131 ∧ Gen.SMALL_INTEGER_EXT = 97 ∧ Gen.NIL_EXT = 106 := by decide

end Edp.Props.C01
