import EdpVerif.Impl.Receiver
import EdpVerif.Impl.Recv
/-!
`Receiver.classify` (property C19) and `Recv.recvRH` (property C06) are two models of ONE Rust function,
`Connection::receive_message_from_read_half` (connection.rs l.741-785, the part after the frame body has been read).
They must agree; this file states it against the CURRENT `Recv.recvRH`. `Recv.Res` has one error class, `RxErr` keeps the
variants apart, and an empty body is `none` there (never reached: a zero length is a tick) and `Error::InvalidStateMessage`
here. To be unified (one definition, used by both properties) once the rewrite of `Impl/Recv.lean` has been merged.
-/
namespace Edp.Receiver
open Edp

theorem decodeTrailing_eq_recv (x : Ext) (bs : Bytes) : decodeTrailing x bs = Recv.decodeTrailing x bs := by
  cases bs with
  | nil => rfl
  | cons v r => rfl

/-- the coarser result type of `Impl/Recv.lean` -/
def toRecvRes : Except RxErr Received → Option Recv.Res
  | .ok (m, p) => some (.ok m p)
  | .error .empty => none
  | .error .panic => some .panic
  | .error _ => some .err

theorem classify_eq_recvRH (x : Ext) (tbl : Control.Table) (body : Bytes) :
    toRecvRes (classify x tbl body) = Recv.recvRH x tbl body := by
  cases body with
  | nil => rfl
  | cons b r =>
    unfold classify Recv.recvRH
    by_cases hb : b = 112
    · subst hb
      simp only [ne_eq, not_true_eq_false, if_false, bne_self_eq_false, Bool.false_eq_true]
      rw [← decodeTrailing_eq_recv]
      cases hd : decodeTrailing x r with
      | error e => cases e <;> rfl
      | ok v =>
        obtain ⟨ct, rest⟩ := v
        simp only
        cases hm : Control.parse tbl ct with
        | error e => cases e <;> rfl
        | ok m =>
          simp only
          cases rest with
          | nil => rfl
          | cons a t =>
            simp only
            rw [← decodeTrailing_eq_recv]
            cases hp : decodeTrailing x (a :: t) with
            | error e => cases e <;> rfl
            | ok w =>
              obtain ⟨p, rr⟩ := w
              cases rr <;> rfl
    · have : (b != 112) = true := by simpa using hb
      simp [hb, this, toRecvRes]

end Edp.Receiver
