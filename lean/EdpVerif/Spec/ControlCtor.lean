import EdpVerif.Spec.Control
/-
What the protocol expects from a constructor of a control message: called with one argument per named parameter, the
message it builds goes on the wire as the operation's tuple `{Tag, E1, .., En}` where `Ek` is the argument passed
for the parameter that plays the k-th role of the operation (`Spec.roleOfField` on the parameter's name).
Written from the protocol table; independent of the library's variants' field lists and serialiser arms.
-/
namespace Edp.Spec

/-- the argument passed for the parameter that plays role `r` -/
def argOfRole (params : List String) (args : List Term) (r : String) : Option Term :=
  match params.findIdx? (fun p => Edp.Control.lookup roleOfField p = some r) with
  | some i => args[i]?
  | none => none

def rolesArgs (params : List String) (args : List Term) : List String → Option (List Term)
  | [] => some []
  | r :: rs =>
    match argOfRole params args r, rolesArgs params args rs with
    | some t, some ts => some (t :: ts)
    | _, _ => none

/-- the control tuple the protocol expects for the operation implemented by `variant`, built from `args` -/
def ctorTuple (variant : String) (params : List String) (args : List Term) : Option Term :=
  match Edp.Control.lookup opOfVariant variant with
  | none => none
  | some pn =>
    match findOp pn with
    | none => none
    | some op =>
      if op.fields.length = params.length then
        (rolesArgs params args op.fields).map fun es => .tuple (.int (op.tag : Int) :: es)
      else none

end Edp.Spec
