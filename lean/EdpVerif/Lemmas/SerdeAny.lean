import EdpVerif.Impl.SerdeAny
import EdpVerif.Lemmas.SerdeInt
import EdpVerif.Lemmas.SerdeWire
import EdpVerif.Generated.MiscC15any
/-! C15, `deserialize_any`: an integer term of either representation is shown as the 64-bit integer it is; the arms of the
model against the arms of the source. -/
namespace Edp.SerdeAny
open Edp Edp.Serde
open Edp.Spec.Serde (intVal)

/-- how a 64-bit integer is shown: `visit_i64` when it fits, `visit_u64` otherwise -/
def rep (i : Int) : Content := if IntTy.i64.inRange i then .i64 i else .u64 i

theorem contentBig_of_intVal (neg : Bool) (d : Bytes) (i : Int) (hv : intVal (.big neg d) = some i)
    (h : IntTy.i64.inRange i = true ∨ IntTy.u64.inRange i = true) : content (.big neg d) = .ok (rep i) := by
  simp only [content, contentBig]
  by_cases h64 : IntTy.i64.inRange i = true
  · have := (SerdeInt.deInt_exact .i64 (.big neg d) (.int .i64 i)).mpr ⟨i, hv, h64, rfl⟩
    simp [this, rep, h64]
  · have hu : IntTy.u64.inRange i = true := by cases h with
      | inl h => exact absurd h h64
      | inr h => exact h
    have h1 : ∀ v, deInt .i64 (.big neg d) ≠ .ok v := by
      intro v hd
      obtain ⟨j, hj, hr, _⟩ := (SerdeInt.deInt_exact .i64 _ v).mp hd
      rw [hv] at hj
      injection hj with hj
      subst hj
      exact h64 hr
    have h2 := (SerdeInt.deInt_exact .u64 (.big neg d) (.int .u64 i)).mpr ⟨i, hv, hu, rfl⟩
    cases hd : deInt .i64 (.big neg d) with
    | ok v => exact absurd hd (h1 v)
    | error e => simp [h2, rep, h64]

/-- a big-integer term whose value is beyond 64 bits is an error, not a truncated number -/
theorem contentBig_out_of_range (neg : Bool) (d : Bytes) (i : Int) (hv : intVal (.big neg d) = some i)
    (h1 : IntTy.i64.inRange i = false) (h2 : IntTy.u64.inRange i = false) : content (.big neg d) = .error .err := by
  simp only [content, contentBig]
  have e1 : ∀ v, deInt .i64 (.big neg d) ≠ .ok v := by
    intro v hd
    obtain ⟨j, hj, hr, _⟩ := (SerdeInt.deInt_exact .i64 _ v).mp hd
    rw [hv] at hj; injection hj with hj; subst hj; simp [h1] at hr
  have e2 : ∀ v, deInt .u64 (.big neg d) ≠ .ok v := by
    intro v hd
    obtain ⟨j, hj, hr, _⟩ := (SerdeInt.deInt_exact .u64 _ v).mp hd
    rw [hv] at hj; injection hj with hj; subst hj; simp [h2] at hr
  cases hd1 : deInt .i64 (.big neg d) with
  | ok v => exact absurd hd1 (e1 v)
  | error e =>
    cases hd2 : deInt .u64 (.big neg d) with
    | ok v => exact absurd hd2 (e2 v)
    | error e' => cases e'; rfl

theorem inRange_64 (k : IntTy) (i : Int) (h : k.inRange i = true) :
    IntTy.i64.inRange i = true ∨ IntTy.u64.inRange i = true := by
  simp only [IntTy.inRange, Bool.and_eq_true, decide_eq_true_eq] at h ⊢
  cases k <;> simp only [IntTy.lo, IntTy.hi] at h ⊢ <;> omega

/-- an integer term that `deInt k` reads as `i` is shown by `deserialize_any` as `rep i` -/
theorem content_of_deInt (k : IntTy) (t : Term) (i : Int) (h : deInt k t = .ok (.int k i))
    (hint : ∀ j, t = .int j → IntTy.i64.inRange j = true) : content t = .ok (rep i) := by
  obtain ⟨j, hj, hr, hji⟩ := (SerdeInt.deInt_exact k t _).mp h
  injection hji with _ hji
  subst hji
  cases t with
  | int j' =>
    simp only [intVal] at hj
    injection hj with hj
    subst hj
    simp [content, rep, hint _ rfl]
  | big neg d => exact contentBig_of_intVal neg d _ hj (inRange_64 k _ hr)
  | _ => simp [intVal] at hj

/-! ### the arms of the model, computed by evaluation on probe terms -/

def visitOf : SRes Content → String
  | .ok (.bool _) => "visit_bool"
  | .ok (.i64 _) => "visit_i64"
  | .ok (.u64 _) => "visit_u64"
  | .ok (.f64 _) => "visit_f64"
  | .ok (.str _) => "visit_str"
  | .ok (.bytes _) => "visit_bytes"
  | .ok .unit => "visit_unit"
  | .ok .none => "visit_none"
  | .ok (.seq _) => "visit_seq"
  | .ok (.map _) => "visit_map"
  | .error _ => "error"

/-- per constructor of `OwnedTerm`: probe terms that reach every branch of its arm, in the order of the source -/
def probes : List (String × List Term) :=
  [("Atom", [.atom sTrue, .atom sFalse, .atom sNil, .atom sUndefined, .atom [120]]),
   ("Integer", [.int (-5)]),
   ("BigInt", [.big true [0, 0, 0, 0, 0, 0, 0, 128], .big false [255, 255, 255, 255, 255, 255, 255, 255]]),
   ("Float", [.float 0]),
   ("Binary", [.bin [97], .bin [255]]),
   ("String", [.str [97]]),
   ("List", [.list [.int 1]]),
   ("Tuple", [.tuple [.int 1]]),
   ("Map", [.map [(.int 1, .int 2)]]),
   ("Nil", [.nil])]

def modelArms : List (String × List String) := probes.map fun (c, ts) => (c, ts.map fun t => visitOf (content t))

/-- term constructors `deserialize_any` has no arm for -/
def unsupportedProbes : List Term :=
  [.big false [0, 0, 0, 0, 0, 0, 0, 0, 1], .big true [1, 0, 0, 0, 0, 0, 0, 128], .ilist [.int 1] (.int 2), .bits [1] 3,
   .xfun [97] [98] 1, .port [110] 1 1 none, .ref [110] 1 [1] none]

end Edp.SerdeAny
