import EdpVerif.Lemmas.ElixirTerms
/-!
C20: where each wrapper's keys end up in its struct map.  Generated tables: for every wrapper the keys in insertion
order with their positions (`…Ks`), and the closed facts "looking key k up in the built map gives position i"
(`…_look`, and `…_lookW` for the map re-built by the wire), evaluated by `decide`.
-/
namespace Edp.Ex
open Edp

def rangeKs : List (Bytes × Nat) := [(kStruct, 0), (kFirst, 1), (kLast, 2), (kStep, 3)]

set_option maxRecDepth 8000 in
theorem range_look :
    getA (mkA rangeKs) kStruct = some 0 ∧
    getA (mkA rangeKs) kFirst = some 1 ∧
    getA (mkA rangeKs) kLast = some 2 ∧
    getA (mkA rangeKs) kStep = some 3 := by decide

set_option maxRecDepth 8000 in
theorem range_lookW :
    getA (mkA (mkA rangeKs)) kStruct = some 0 ∧
    getA (mkA (mkA rangeKs)) kFirst = some 1 ∧
    getA (mkA (mkA rangeKs)) kLast = some 2 ∧
    getA (mkA (mkA rangeKs)) kStep = some 3 := by decide

def mapsetKs : List (Bytes × Nat) := [(kStruct, 0), (kMap, 1)]

set_option maxRecDepth 8000 in
theorem mapset_look :
    getA (mkA mapsetKs) kStruct = some 0 ∧
    getA (mkA mapsetKs) kMap = some 1 := by decide

set_option maxRecDepth 8000 in
theorem mapset_lookW :
    getA (mkA (mkA mapsetKs)) kStruct = some 0 ∧
    getA (mkA (mkA mapsetKs)) kMap = some 1 := by decide

def dateKs : List (Bytes × Nat) := [(kStruct, 0), (kYear, 1), (kMonth, 2), (kDay, 3), (kCalendar, 4)]

set_option maxRecDepth 8000 in
theorem date_look :
    getA (mkA dateKs) kStruct = some 0 ∧
    getA (mkA dateKs) kYear = some 1 ∧
    getA (mkA dateKs) kMonth = some 2 ∧
    getA (mkA dateKs) kDay = some 3 ∧
    getA (mkA dateKs) kCalendar = some 4 := by decide

set_option maxRecDepth 8000 in
theorem date_lookW :
    getA (mkA (mkA dateKs)) kStruct = some 0 ∧
    getA (mkA (mkA dateKs)) kYear = some 1 ∧
    getA (mkA (mkA dateKs)) kMonth = some 2 ∧
    getA (mkA (mkA dateKs)) kDay = some 3 ∧
    getA (mkA (mkA dateKs)) kCalendar = some 4 := by decide

def timeKs : List (Bytes × Nat) := [(kStruct, 0), (kHour, 1), (kMinute, 2), (kSecond, 3), (kMicrosecond, 4), (kCalendar, 5)]

set_option maxRecDepth 8000 in
theorem time_look :
    getA (mkA timeKs) kStruct = some 0 ∧
    getA (mkA timeKs) kHour = some 1 ∧
    getA (mkA timeKs) kMinute = some 2 ∧
    getA (mkA timeKs) kSecond = some 3 ∧
    getA (mkA timeKs) kMicrosecond = some 4 ∧
    getA (mkA timeKs) kCalendar = some 5 := by decide

set_option maxRecDepth 8000 in
theorem time_lookW :
    getA (mkA (mkA timeKs)) kStruct = some 0 ∧
    getA (mkA (mkA timeKs)) kHour = some 1 ∧
    getA (mkA (mkA timeKs)) kMinute = some 2 ∧
    getA (mkA (mkA timeKs)) kSecond = some 3 ∧
    getA (mkA (mkA timeKs)) kMicrosecond = some 4 ∧
    getA (mkA (mkA timeKs)) kCalendar = some 5 := by decide

def naiveKs : List (Bytes × Nat) := [(kStruct, 0), (kYear, 1), (kMonth, 2), (kDay, 3), (kHour, 4), (kMinute, 5), (kSecond, 6), (kMicrosecond, 7), (kCalendar, 8)]

set_option maxRecDepth 8000 in
theorem naive_look :
    getA (mkA naiveKs) kStruct = some 0 ∧
    getA (mkA naiveKs) kYear = some 1 ∧
    getA (mkA naiveKs) kMonth = some 2 ∧
    getA (mkA naiveKs) kDay = some 3 ∧
    getA (mkA naiveKs) kHour = some 4 ∧
    getA (mkA naiveKs) kMinute = some 5 ∧
    getA (mkA naiveKs) kSecond = some 6 ∧
    getA (mkA naiveKs) kMicrosecond = some 7 ∧
    getA (mkA naiveKs) kCalendar = some 8 := by decide

set_option maxRecDepth 8000 in
theorem naive_lookW :
    getA (mkA (mkA naiveKs)) kStruct = some 0 ∧
    getA (mkA (mkA naiveKs)) kYear = some 1 ∧
    getA (mkA (mkA naiveKs)) kMonth = some 2 ∧
    getA (mkA (mkA naiveKs)) kDay = some 3 ∧
    getA (mkA (mkA naiveKs)) kHour = some 4 ∧
    getA (mkA (mkA naiveKs)) kMinute = some 5 ∧
    getA (mkA (mkA naiveKs)) kSecond = some 6 ∧
    getA (mkA (mkA naiveKs)) kMicrosecond = some 7 ∧
    getA (mkA (mkA naiveKs)) kCalendar = some 8 := by decide

def dtKs : List (Bytes × Nat) := [(kStruct, 0), (kYear, 1), (kMonth, 2), (kDay, 3), (kHour, 4), (kMinute, 5), (kSecond, 6), (kMicrosecond, 7), (kTimeZone, 8), (kZoneAbbr, 9), (kUtcOffset, 10), (kStdOffset, 11), (kCalendar, 12)]

set_option maxRecDepth 8000 in
theorem dt_look :
    getA (mkA dtKs) kStruct = some 0 ∧
    getA (mkA dtKs) kYear = some 1 ∧
    getA (mkA dtKs) kMonth = some 2 ∧
    getA (mkA dtKs) kDay = some 3 ∧
    getA (mkA dtKs) kHour = some 4 ∧
    getA (mkA dtKs) kMinute = some 5 ∧
    getA (mkA dtKs) kSecond = some 6 ∧
    getA (mkA dtKs) kMicrosecond = some 7 ∧
    getA (mkA dtKs) kTimeZone = some 8 ∧
    getA (mkA dtKs) kZoneAbbr = some 9 ∧
    getA (mkA dtKs) kUtcOffset = some 10 ∧
    getA (mkA dtKs) kStdOffset = some 11 ∧
    getA (mkA dtKs) kCalendar = some 12 := by decide

set_option maxRecDepth 8000 in
theorem dt_lookW :
    getA (mkA (mkA dtKs)) kStruct = some 0 ∧
    getA (mkA (mkA dtKs)) kYear = some 1 ∧
    getA (mkA (mkA dtKs)) kMonth = some 2 ∧
    getA (mkA (mkA dtKs)) kDay = some 3 ∧
    getA (mkA (mkA dtKs)) kHour = some 4 ∧
    getA (mkA (mkA dtKs)) kMinute = some 5 ∧
    getA (mkA (mkA dtKs)) kSecond = some 6 ∧
    getA (mkA (mkA dtKs)) kMicrosecond = some 7 ∧
    getA (mkA (mkA dtKs)) kTimeZone = some 8 ∧
    getA (mkA (mkA dtKs)) kZoneAbbr = some 9 ∧
    getA (mkA (mkA dtKs)) kUtcOffset = some 10 ∧
    getA (mkA (mkA dtKs)) kStdOffset = some 11 ∧
    getA (mkA (mkA dtKs)) kCalendar = some 12 := by decide

def condKs : List (Bytes × Nat) := [(kStruct, 0), (kException, 1)]

set_option maxRecDepth 8000 in
theorem cond_look :
    getA (mkA condKs) kStruct = some 0 ∧
    getA (mkA condKs) kException = some 1 := by decide

set_option maxRecDepth 8000 in
theorem cond_lookW :
    getA (mkA (mkA condKs)) kStruct = some 0 ∧
    getA (mkA (mkA condKs)) kException = some 1 := by decide

def msgKs : List (Bytes × Nat) := [(kStruct, 0), (kException, 1), (kMessage, 2)]

set_option maxRecDepth 8000 in
theorem msg_look :
    getA (mkA msgKs) kStruct = some 0 ∧
    getA (mkA msgKs) kException = some 1 ∧
    getA (mkA msgKs) kMessage = some 2 := by decide

set_option maxRecDepth 8000 in
theorem msg_lookW :
    getA (mkA (mkA msgKs)) kStruct = some 0 ∧
    getA (mkA (mkA msgKs)) kException = some 1 ∧
    getA (mkA (mkA msgKs)) kMessage = some 2 := by decide

def texcKs : List (Bytes × Nat) := [(kStruct, 0), (kException, 1), (kTerm, 2)]

set_option maxRecDepth 8000 in
theorem texc_look :
    getA (mkA texcKs) kStruct = some 0 ∧
    getA (mkA texcKs) kException = some 1 ∧
    getA (mkA texcKs) kTerm = some 2 := by decide

set_option maxRecDepth 8000 in
theorem texc_lookW :
    getA (mkA (mkA texcKs)) kStruct = some 0 ∧
    getA (mkA (mkA texcKs)) kException = some 1 ∧
    getA (mkA (mkA texcKs)) kTerm = some 2 := by decide

def keyerrKs : List (Bytes × Nat) := [(kStruct, 0), (kException, 1), (kKey, 2), (kTerm, 3), (kMessage, 4)]

set_option maxRecDepth 8000 in
theorem keyerr_look :
    getA (mkA keyerrKs) kStruct = some 0 ∧
    getA (mkA keyerrKs) kException = some 1 ∧
    getA (mkA keyerrKs) kKey = some 2 ∧
    getA (mkA keyerrKs) kTerm = some 3 ∧
    getA (mkA keyerrKs) kMessage = some 4 := by decide

set_option maxRecDepth 8000 in
theorem keyerr_lookW :
    getA (mkA (mkA keyerrKs)) kStruct = some 0 ∧
    getA (mkA (mkA keyerrKs)) kException = some 1 ∧
    getA (mkA (mkA keyerrKs)) kKey = some 2 ∧
    getA (mkA (mkA keyerrKs)) kTerm = some 3 ∧
    getA (mkA (mkA keyerrKs)) kMessage = some 4 := by decide

def undefKs : List (Bytes × Nat) := [(kStruct, 0), (kException, 1), (kModule, 2), (kFunction, 3), (kArity, 4), (kReason, 5)]

set_option maxRecDepth 8000 in
theorem undef_look :
    getA (mkA undefKs) kStruct = some 0 ∧
    getA (mkA undefKs) kException = some 1 ∧
    getA (mkA undefKs) kModule = some 2 ∧
    getA (mkA undefKs) kFunction = some 3 ∧
    getA (mkA undefKs) kArity = some 4 ∧
    getA (mkA undefKs) kReason = some 5 := by decide

set_option maxRecDepth 8000 in
theorem undef_lookW :
    getA (mkA (mkA undefKs)) kStruct = some 0 ∧
    getA (mkA (mkA undefKs)) kException = some 1 ∧
    getA (mkA (mkA undefKs)) kModule = some 2 ∧
    getA (mkA (mkA undefKs)) kFunction = some 3 ∧
    getA (mkA (mkA undefKs)) kArity = some 4 ∧
    getA (mkA (mkA undefKs)) kReason = some 5 := by decide

def fnclKs : List (Bytes × Nat) := [(kStruct, 0), (kException, 1), (kModule, 2), (kFunction, 3), (kArity, 4), (kArgs, 5)]

set_option maxRecDepth 8000 in
theorem fncl_look :
    getA (mkA fnclKs) kStruct = some 0 ∧
    getA (mkA fnclKs) kException = some 1 ∧
    getA (mkA fnclKs) kModule = some 2 ∧
    getA (mkA fnclKs) kFunction = some 3 ∧
    getA (mkA fnclKs) kArity = some 4 ∧
    getA (mkA fnclKs) kArgs = some 5 := by decide

set_option maxRecDepth 8000 in
theorem fncl_lookW :
    getA (mkA (mkA fnclKs)) kStruct = some 0 ∧
    getA (mkA (mkA fnclKs)) kException = some 1 ∧
    getA (mkA (mkA fnclKs)) kModule = some 2 ∧
    getA (mkA (mkA fnclKs)) kFunction = some 3 ∧
    getA (mkA (mkA fnclKs)) kArity = some 4 ∧
    getA (mkA (mkA fnclKs)) kArgs = some 5 := by decide

theorem range_reidx (r : Range) : Reidx r.fields rangeKs := rfl
theorem mapset_reidx (s : MapSet) : Reidx s.fields mapsetKs := rfl
theorem date_reidx (d : Date) : Reidx d.fields dateKs := rfl
theorem time_reidx (x : Time) : Reidx x.fields timeKs := rfl
theorem naive_reidx (x : Naive) : Reidx x.fields naiveKs := rfl
theorem dt_reidx (x : DateTime) : Reidx x.fields dtKs := rfl
theorem cond_reidx (m : Bytes) : Reidx (excFields m []) condKs := rfl
theorem msg_reidx (m : Bytes) (v : Term) : Reidx (excFields m [(kMessage, v)]) msgKs := rfl
theorem texc_reidx (m : Bytes) (v : Term) : Reidx (excFields m [(kTerm, v)]) texcKs := rfl
theorem keyerr_reidx (m : Bytes) (a b c : Term) : Reidx (excFields m [(kKey, a), (kTerm, b), (kMessage, c)]) keyerrKs := rfl
theorem undef_reidx (m : Bytes) (a b c d : Term) :
    Reidx (excFields m [(kModule, a), (kFunction, b), (kArity, c), (kReason, d)]) undefKs := rfl
theorem fncl_reidx (m : Bytes) (a b c d : Term) :
    Reidx (excFields m [(kModule, a), (kFunction, b), (kArity, c), (kArgs, d)]) fnclKs := rfl

end Edp.Ex
