import EdpVerif.Impl.Receiver
import EdpVerif.Impl.Chan
/-!
Inbound routing with BOUNDED mailboxes (core Lean only, linked into the driver).

`Impl/Receiver.lean` appends a routed message to the recipient's mailbox, a list without bound. The real mailbox is a bounded
channel (`mailbox.rs`, capacity regenerated into `Generated/MiscMailbox.lean`), the receiver task of a connection is
SEQUENTIAL (`spawn_receiver_task`: one `route_message(..).await` after the other), and `route_message` hands a message
to the recipient through `ProcessHandle::send(..).await`. Here that system is modelled as an interleaving of

* `Ev.rx`      — the receiver task routes the next message it has read, if it can: with the waiting form of send and the
                 recipient's mailbox full the step is not enabled (the task is suspended inside `route_message`; no later frame
                 of this connection — for whatever recipient, rpc replies included — is routed: head-of-line blocking);
                 with a form that gives up, `route_message` returns `Err`, the loop logs it and goes on: the message is lost;
* `Ev.take k`  — `mailbox.recv()` of process `k` returns the oldest message of its mailbox (the process task then runs the
                 handler; a process whose handler does not return takes nothing more).

The form of each arm's send is a parameter (`Arm → Chan.Form`); `srcRouteForms` reads it from the regenerated table.
-/
namespace Edp.ReceiverBP
open Edp Edp.Receiver Edp.Chan

/-- what `route_message` does with one message: nothing, one mailbox send (by which arm), or one answer to a call -/
inductive Act where
  | nothing
  | deliver (k : PidKey) (m : LMsg) (arm : Arm)
  | answer (key : RpcKey) (body : Term)
  deriving Repr

/-- `route_message` up to (not including) its effect; the registry is looked at through `live` (`registry.get(..).is_some()`),
`names` (`whereis`) and `pending` only -/
def routeActG (live : PidKey → Bool) (names : List (Bytes × PidKey)) (pending : List RpcKey)
    (m : Control.Msg) (payload : Option Term) : Act :=
  match m with
  | .generic _ _ => .nothing
  | .known v fs =>
    match armOf v with
    | .send =>
      match payload, fld fs "to_pid" with
      | some body, some (.pid p) =>
        if live p.key then .deliver p.key (.regular body) .send
        else if rpcKey p ∈ pending then .answer (rpcKey p) body
        else .nothing
      | _, _ => .nothing
    | .regSend =>
      match payload, fld fs "to_name" with
      | some body, some (.atom n) =>
        match (names.find? (fun p => p.1 = n)) with
        | some e => if live e.2 then .deliver e.2 (.regular body) .regSend else .nothing
        | none => .nothing
      | _, _ => .nothing
    | .exit =>
      match fld fs "from_pid", fld fs "to_pid", fld fs "reason" with
      | some (.pid sender), some (.pid to), some reason =>
        if live to.key then .deliver to.key (.exit sender reason) .exit else .nothing
      | _, _, _ => .nothing
    | .monitorExit =>
      match fld fs "from_proc", fld fs "to_pid", fld fs "reference", fld fs "reason" with
      | some (.pid sender), some (.pid to), some (.ref n c ids l), some reason =>
        if live to.key then .deliver to.key (.monitorExit sender (.ref n c ids l) reason) .monitorExit else .nothing
      | _, _, _, _ => .nothing
    | .ignored => .nothing

def routeAct (st : NodeSt) (m : Control.Msg) (payload : Option Term) : Act :=
  routeActG (isLive st) st.names st.pending m payload

def applyAct (st : NodeSt) : Act → NodeSt
  | .nothing => st
  | .deliver k m _ => sendTo st k m
  | .answer key body => answer st key body

/-- what a list of received results does to the unbounded model: errors are skipped (`routeAll` on classified bodies) -/
def routeRes (st : NodeSt) : List (Except RxErr Received) → NodeSt
  | [] => st
  | .ok (m, p) :: r => routeRes (route st m p) r
  | .error _ :: r => routeRes st r

/-- a process's mailbox: what `recv()` has handed to the process task so far, and what is in the channel -/
structure Box where
  key : PidKey
  taken : List LMsg
  queue : List LMsg
  deriving Repr

structure BSt where
  boxes : List Box
  names : List (Bytes × PidKey)
  pending : List RpcKey
  replies : List (RpcKey × Term)
  /-- ghost: every message a send gave up on (the recipient was live) -/
  dropped : List (PidKey × LMsg) := []
  deriving Repr

/-- the node as `route_message` sees it: the channels -/
def BSt.view (b : BSt) : NodeSt := ⟨b.boxes.map fun x => (x.key, x.queue), b.names, b.pending, b.replies⟩
/-- the node with every mailbox as the whole history of what it accepted: taken ++ queued -/
def BSt.total (b : BSt) : NodeSt := ⟨b.boxes.map fun x => (x.key, x.taken ++ x.queue), b.names, b.pending, b.replies⟩

/-- number of messages in the channel of `k` (`registry.get(k)`'s mailbox) -/
def BSt.queued (b : BSt) (k : PidKey) : Nat := ((mailbox b.view k).getD []).length

def BSt.push (b : BSt) (k : PidKey) (m : LMsg) : BSt :=
  { b with boxes := b.boxes.map fun x => if x.key = k then { x with queue := x.queue ++ [m] } else x }

def BSt.answerB (b : BSt) (key : RpcKey) (body : Term) : BSt :=
  { b with pending := b.pending.filter (· ≠ key), replies := b.replies ++ [(key, body)] }

/-- `recv()` of the first process with key `k` whose channel is not empty -/
def takeFirst (k : PidKey) : List Box → Option (List Box)
  | [] => none
  | x :: r =>
    if x.key = k then
      match x.queue with
      | m :: q => some ({ x with taken := x.taken ++ [m], queue := q } :: r)
      | [] => (takeFirst k r).map (x :: ·)
    else (takeFirst k r).map (x :: ·)

/-- the receiver task and the processes it delivers to -/
structure Sys where
  b : BSt
  /-- the results of `receive_message_from_read_half` the loop has not routed yet (it survives every one of them) -/
  todo : List (Except RxErr Received)
  /-- ghost: the results it is through with, oldest first -/
  done : List (Except RxErr Received) := []

inductive Ev where
  | rx
  | take (k : PidKey)
  deriving Repr

def Sys.advance (s : Sys) (b : BSt) : Sys :=
  match s.todo with
  | [] => s
  | r :: rest => { b := b, todo := rest, done := s.done ++ [r] }

def rxStep (F : Arm → Form) (cap : Nat) (s : Sys) : Option Sys :=
  match s.todo with
  | [] => none
  | .error _ :: _ => some (s.advance s.b)
  | .ok (m, p) :: _ =>
    match routeAct s.b.view m p with
    | .nothing => some (s.advance s.b)
    | .answer key body => some (s.advance (s.b.answerB key body))
    | .deliver k msg arm =>
      if s.b.queued k < cap then some (s.advance (s.b.push k msg))
      else if (F arm).givesUp then some (s.advance { s.b with dropped := s.b.dropped ++ [(k, msg)] })
      else none

def takeStep (s : Sys) (k : PidKey) : Option Sys :=
  (takeFirst k s.b.boxes).map fun bs => { s with b := { s.b with boxes := bs } }

def stepB (F : Arm → Form) (cap : Nat) (s : Sys) : Ev → Option Sys
  | .rx => rxStep F cap s
  | .take k => takeStep s k

/-- run a schedule; an event that is not enabled is skipped -/
def runB (F : Arm → Form) (cap : Nat) (s : Sys) (evs : List Ev) : Sys :=
  evs.foldl (fun s e => (stepB F cap s e).getD s) s

/-- the forms of `route_message`'s sends as written in the source on this run -/
def srcRouteForms : Arm → Form
  | .send => siteForm "node.rs" "route_message" "Regular"
  | .regSend => siteForm "node.rs" "route_message" "Regular"
  | .exit => siteForm "node.rs" "route_message" "Exit"
  | .monitorExit => siteForm "node.rs" "route_message" "MonitorExit"
  | .ignored => .await

/-- the message the receiver is suspended on, and for whom -/
def Sys.blockedOn (cap : Nat) (s : Sys) : Option (PidKey × LMsg) :=
  match s.todo with
  | .ok (m, p) :: _ =>
    match routeAct s.b.view m p with
    | .deliver k msg _ => if s.b.queued k < cap then none else some (k, msg)
    | _ => none
  | _ => none

end Edp.ReceiverBP
