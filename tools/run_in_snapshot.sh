#!/bin/sh
# For `vp run --with-repo -- sh tools/run_in_snapshot.sh <tier> [Cxx ...]`: runs checks in the snapshot of /verif against
# the snapshot of /repo ($VP_RUN_REPO), so that try-runs of seeded changes in /repo and /verif do not disturb it (and vice
# versa). Results are NOT evidence (evidence is only ever written by checks run in /verif against /repo itself).
tier=${1:-thorough}; shift
here=$(pwd)
repo=${VP_RUN_REPO:-/repo}
sed -i "s#\"/repo/#\"$repo/#" harness/Cargo.toml
mkdir -p harness/.cargo
printf '[net]\noffline = true\n[build]\ntarget-dir = "%s/.cache/target"\nrustflags = ["--cfg", "edp_rs_verif"]\n' "$here" > harness/.cargo/config.toml
export EDP_REPO=$repo
python3 tools/setup.py > setup.log 2>&1 || { echo "setup failed"; tail -20 setup.log; exit 2; }
props=${*:-C01 C02 C03 C04 C05 C06 C07 C08 C09 C10 C11 C12 C13 C14 C15 C16 C17 C18 C19 C20}
rc=0
for p in $props; do
  python3 check.py $p $tier 2>&1 | grep -v "^WARNING" | cut -c1-300
  grep -q '"violations": 0' evidence/$p.json || rc=1
done
exit $rc
