import EdpVerif.Drv.Common
namespace Edp.Drv

/-- driver requests of property C17 (stub: nothing handled yet) -/
def handleC17 : List String → Option String
  | _ => none

end Edp.Drv
