import EdpVerif.Generated.MiscC18
import EdpVerif.Generated.MiscRegistry
import EdpVerif.Generated.MiscState
import EdpVerif.Lemmas.ProcsLate
import EdpVerif.Lemmas.Behaviours
import EdpVerif.Lemmas.ProcsK
import EdpVerif.Lemmas.RegistryLocks
/-
C18 — local processes: ordered exactly-once delivery, exit notices, name lifecycle.
Property theorems only; the model is EdpVerif/Impl/Procs.lean (small-step semantics of the registry, the mailboxes, the
process tasks and the `Node` calls, one step per locked access), the inductive invariants are in EdpVerif/Lemmas/Procs.lean.

A schedule is a list of events: `Ev.start t op` (client task `t`, between calls, calls `op`), `Ev.cont t` (task `t` takes the
next atomic step of its call), `Ev.proc p k` (the task of process `p` takes its next step). Task and process ids are arbitrary
naturals; every task may make any number of calls. All statements quantify over every mailbox capacity and every schedule
unless a hypothesis says otherwise; a step that would block is skipped by `run`.

The former known findings kf-c18-late-link / kf-c18-late-monitor are repaired in the code (closed link / monitor sets,
`noproc` notices); `C18_exit_notice_for_every_link` / `C18_monitor_notice_for_every_monitor` are the unguarded statements.
-/
namespace Edp.Props.C18
open Edp Edp.Impl.Procs

/-! ## A. delivery: exactly once, in order -/

/-- FIFO, exactly once: at every moment of every schedule, what a process's mailbox has accepted (a send returned Ok) is, in
order, what its handler has been given followed by what is still queued. So nothing is handled twice, nothing is invented,
nothing overtakes; a message that was accepted and is neither handled nor queued does not exist. -/
theorem C18_fifo_exactly_once (cap : Nat) (evs : List Ev) (p : Pid) :
    let st := run (St.init cap) evs
    (st.procs p).accepted.map (·.2) = (st.procs p).handled ++ (st.procs p).mailbox :=
  (allInv_run cap evs).fifo p

set_option maxRecDepth 8000 in
example : ((run (St.init 8) (callEvs 0 (.spawn true) ++ callEvs 0 (.send 0 5 false) ++ callEvs 0 (.send 0 6 false) ++
    [.proc 0 0])).procs 0).handled = [.regular 5 false] := by decide

/-- each message is handled at most as often as it was accepted, and the handled sequence is a prefix of the accepted one -/
theorem C18_handled_at_most_once (cap : Nat) (evs : List Ev) (p : Pid) (m : Msg) :
    let st := run (St.init cap) evs
    (st.procs p).handled.count m + (st.procs p).mailbox.count m = st.timesAccepted p m ∧
      (st.procs p).handled <+: (st.procs p).accepted.map (·.2) := by
  intro st
  have h := C18_fifo_exactly_once cap evs p
  simp only at h
  refine ⟨?_, ?_⟩
  · show _ = ((st.procs p).accepted.map (·.2)).count m
    rw [h, List.count_append]
  · rw [h]; exact List.prefix_append _ _

/-- per-sender order: the messages a process accepted from one client task are exactly the messages that task's sends
returned Ok for, in the order the task issued them (by pid or by name alike) -/
theorem C18_per_sender_order (cap : Nat) (evs : List Ev) (t : Tid) (p : Pid) :
    let st := run (St.init cap) evs
    st.acceptedFrom p t = st.sentTo t p :=
  (allInv_run cap evs).order t p

set_option maxRecDepth 8000 in
example : (run (St.init 8) (callEvs 0 (.spawn true) ++ callEvs 1 (.send 0 5 false) ++ callEvs 0 (.send 0 6 false) ++
    callEvs 1 (.send 0 7 false))).sentTo 1 0 = [.regular 5 false, .regular 7 false] := by decide

/-- progress: a process in its loop with a queued message can always take its step, and that step hands the OLDEST queued
message to the handler; it stays in the loop unless the handler fails on it -/
theorem C18_live_process_handles_head (st : St) (p : Pid) (k : Nat) (m : Msg) (rest : List Msg)
    (hpc : (st.procs p).pc = .recv) (hq : (st.procs p).mailbox = m :: rest) :
    ∃ st', procStep st p k = some st' ∧ (st'.procs p).handled = (st.procs p).handled ++ [m] ∧
      (st'.procs p).mailbox = rest ∧
      (st'.procs p).pc = (if m.fails (st.procs p).trap then .exiting else .recv) := by
  have hstep : procStep st p k = some (st.modP p fun q =>
      { q with mailbox := rest, handled := q.handled ++ [m], pc := if m.fails q.trap then .exiting else .recv }) := by
    unfold procStep; rw [hpc]; simp only [hq]
  exact ⟨_, hstep, by simp [St.modP], by simp [St.modP], by simp [St.modP]⟩

/-- what happens to messages still queued (or accepted later) when a process terminates: once a process has left its loop
its handled sequence never changes again, whatever happens afterwards — those messages are dropped with the mailbox -/
theorem C18_handled_frozen_after_loop (cap : Nat) (evs more : List Ev) (p : Pid)
    (h : ((run (St.init cap) evs).procs p).pc.terminating = true) :
    ((run (St.init cap) (evs ++ more)).procs p).handled = ((run (St.init cap) evs).procs p).handled := by
  rw [run_append]
  exact handled_frozen (allInv_run cap evs).reg h more

/-- the window is real (dismissed candidate, not a violation: the process is not live any more): a send to a process that
has left its loop but is still in the registry returns Ok and the message is never handled -/
theorem C18_send_to_terminating_is_accepted_and_dropped :
    ∃ evs : List Ev, let st := run (St.init 1000) evs
      st.out.getLast? = some (0, .ok) ∧ (st.procs 0).pc = .dead ∧ st.timesAccepted 0 (.regular 9 false) = 1 ∧
        (.regular 9 false) ∉ (st.procs 0).handled :=
  ⟨callEvs 0 (.spawn true) ++ callEvs 0 (.send 0 7 true) ++ [.proc 0 0, .proc 0 0] ++
      callEvs 0 (.send 0 9 false) ++ [.proc 0 0, .proc 0 0, .proc 0 0, .proc 0 0], by decide⟩

/-! ## B. exit notices -/

/-- at most once, and only to a process of the link set: under every schedule a mailbox accepts `Exit{from: p}` at most
once, and only if `p` has left its loop and the receiver was in `p`'s link set when `p` read it -/
theorem C18_exit_at_most_once (cap : Nat) (evs : List Ev) (p a : Pid) :
    let st := run (St.init cap) evs
    st.timesAccepted a (.exit p) ≤ 1 ∧
      (1 ≤ st.timesAccepted a (.exit p) → a ∈ (st.procs p).snapL ∧ (st.procs p).pc.startedL = true) := by
  dsimp only
  have hi := allInv_run cap evs
  generalize run (St.init cap) evs = st at hi ⊢
  have hc := hi.exitCount p a
  have hl := hi.linkCons p a
  have hn := nodup_count_le_one (hi.nodup p).2.1 a
  cases hs : (st.procs p).pc.startedL with
  | false =>
    have := (hl.2 hs).1
    have h0 : st.timesAccepted a (.exit p) = 0 := by rw [hc, this]; rfl
    exact ⟨by omega, by omega⟩
  | true =>
    have := hl.1 hs
    refine ⟨by omega, fun h1 => ⟨?_, rfl⟩⟩
    have : 1 ≤ (st.procs p).snapL.count a := by omega
    exact List.count_pos_iff.mp this

/-- never two: under every schedule a mailbox accepts at most one exit notice about `p`, whatever its reason — the one the
terminating task sends to its link set, or the `noproc` one `Node::link` sends for a link that reached the closed set;
repeating the `link`, or `unlink` followed by `link`, after the set was closed does not produce a second one -/
theorem C18_exit_notice_never_twice (cap : Nat) (evs : List Ev) (p a : Pid) :
    let st := run (St.init cap) evs
    st.timesAccepted a (.exit p) + st.timesAccepted a (.exitNoproc p) ≤ 1 := by
  dsimp only
  have hi2 := allInv2_run cap evs
  generalize run (St.init cap) evs = st at hi2 ⊢
  have hi := hi2.base
  have hc := hi.exitCount p a
  have hn := hi2.exitN p a
  have hcl := (hi2.closed p).1
  have hnl := nodup_count_le_one (hi.nodup p).1 a
  have hd : (doneL st).count (p, a) = st.sentNL.count (p, a) + st.skipNL.count (p, a) + st.noRegL.count (p, a) := by
    simp [doneL, List.count_append, Nat.add_assoc]
  have hlate : st.sentNL.count (p, a) ≤ st.lateL.count (p, a) := by
    by_cases hp : ∃ t, (st.cpc t).pendL = some (p, a)
    · have := hi2.lateL.owed _ hp; omega
    · have := hi2.lateL.settled (p, a) (fun t ht => hp ⟨t, ht⟩); omega
  cases hs : (st.procs p).pc.startedL with
  | false =>
    rw [hs] at hcl
    have h0 := (hi2.lsplit p a).2 hcl
    have := ((hi.linkCons p a).2 hs).1
    have : st.timesAccepted a (.exit p) = 0 := by rw [hc, this]; rfl
    omega
  | true =>
    rw [hs] at hcl
    have h0 := (hi2.lsplit p a).1 hcl
    have := (hi.linkCons p a).1 hs
    omega

/-- never zero (the full statement; formerly known finding kf-c18-late-link): when `p` is through with its links, EVERY
process in `p`'s link set — whether the link was there when `p` collected the set or was accepted afterwards, from either
side of `link` — has accepted exactly one exit notice about `p` (reason `error` or `noproc`), unless it was not in the
registry when its notice was due (`liveL` / `noRegL`), has itself left the registry, or the `link` call that came late is
still running: then exactly one client task is inside that call and owes the notice (`C18_late_notice_is_sent`) -/
theorem C18_exit_notice_for_every_link (cap : Nat) (evs : List Ev) (p a : Pid) :
    let st := run (St.init cap) evs
    (st.procs p).pc.linksDone = true → a ∈ (st.procs p).links →
      st.timesAccepted a (.exit p) + st.timesAccepted a (.exitNoproc p) = 1 ∨
        (st.timesAccepted a (.exit p) + st.timesAccepted a (.exitNoproc p) = 0 ∧
          (a ∉ (st.procs p).liveL ∨ (st.procs a).pc.gone = true ∨ (p, a) ∈ st.noRegL ∨
            ∃ t, (st.cpc t).pendL = some (p, a) ∧ ∀ t', (st.cpc t').pendL = some (p, a) → t' = t)) := by
  dsimp only
  have hi2 := allInv2_run cap evs
  generalize run (St.init cap) evs = st at hi2 ⊢
  have hi := hi2.base
  intro hdone hm
  obtain ⟨hs, ht⟩ := linksDone_started hdone
  have hc := hi.exitCount p a
  have hn := hi2.exitN p a
  have hcl := (hi2.closed p).1
  rw [hs] at hcl
  have h0 := (hi2.lsplit p a).1 hcl
  have hl := (hi.linkCons p a).1 hs
  rw [ht] at hl
  simp only [List.count_nil, Nat.zero_add] at hl
  have hnl := nodup_count_le_one (hi.nodup p).1 a
  have h1 := count_pos_of_mem hm
  have hd : (doneL st).count (p, a) = st.sentNL.count (p, a) + st.skipNL.count (p, a) + st.noRegL.count (p, a) := by
    simp [doneL, List.count_append, Nat.add_assoc]
  by_cases hp : ∃ t, (st.cpc t).pendL = some (p, a)
  · have := hi2.lateL.owed _ hp
    obtain ⟨t, ht'⟩ := hp
    right
    exact ⟨by omega, Or.inr (Or.inr (Or.inr ⟨t, ht', fun t' h' => hi2.lateL.uniq t' t _ h' ht'⟩))⟩
  · have := hi2.lateL.settled (p, a) (fun t ht => hp ⟨t, ht⟩)
    by_cases e1 : a ∈ (st.procs p).skipL
    · have := count_pos_of_mem e1
      right
      refine ⟨by omega, ?_⟩
      rcases hi.skip.1 p a e1 with h | h
      · exact Or.inl h
      · exact Or.inr (Or.inl h)
    · have e1' : (st.procs p).skipL.count a = 0 := List.count_eq_zero.mpr e1
      by_cases e2 : (p, a) ∈ st.skipNL
      · have := count_pos_of_mem e2
        right
        exact ⟨by omega, Or.inr (Or.inl (hi2.skipN.1 _ e2))⟩
      · have e2' : st.skipNL.count (p, a) = 0 := List.count_eq_zero.mpr e2
        by_cases e3 : (p, a) ∈ st.noRegL
        · have := count_pos_of_mem e3
          right
          exact ⟨by omega, Or.inr (Or.inr (Or.inl e3))⟩
        · have e3' : st.noRegL.count (p, a) = 0 := List.count_eq_zero.mpr e3
          left
          omega

set_option maxRecDepth 8000 in
example : let st := run (St.init 8) (callEvs 0 (.spawn true) ++ callEvs 0 (.spawn true) ++ callEvs 0 (.link 0 1) ++
    callEvs 0 (.send 1 7 true) ++ List.replicate 5 (.proc 1 0))
    (st.procs 1).pc.linksDone = true ∧ st.timesAccepted 0 (.exit 1) = 1 := by decide

set_option maxRecDepth 8000 in
/-- the former witness of kf-c18-late-link: `link(0, 1)` completes after process 1 has closed its link set and before it leaves
the registry — process 0 now gets the `noproc` notice, once -/
example : let st := run (St.init 1000) (callEvs 0 (.spawn true) ++ callEvs 0 (.spawn true) ++ callEvs 0 (.send 1 7 true) ++
    [.proc 1 0, .proc 1 0] ++ callEvs 0 (.link 0 1) ++ [.proc 1 0, .proc 1 0, .proc 1 0, .proc 1 0])
    st.out.getLast? = some (0, .ok) ∧ (st.procs 1).pc = .dead ∧ 0 ∈ (st.procs 1).links ∧
      st.timesAccepted 0 (.exit 1) = 0 ∧ st.timesAccepted 0 (.exitNoproc 1) = 1 := by decide

set_option maxRecDepth 8000 in
/-- and from the other side: `link(1, 0)` with the terminating process as `from` -/
example : let st := run (St.init 1000) (callEvs 0 (.spawn true) ++ callEvs 0 (.spawn true) ++ callEvs 0 (.send 1 7 true) ++
    [.proc 1 0, .proc 1 0] ++ callEvs 0 (.link 1 0) ++ callEvs 0 (.unlink 0 1) ++ callEvs 0 (.link 0 1) ++
    [.proc 1 0, .proc 1 0, .proc 1 0, .proc 1 0])
    (st.procs 1).pc = .dead ∧ st.timesAccepted 0 (.exit 1) = 0 ∧ st.timesAccepted 0 (.exitNoproc 1) = 1 := by decide

/-- the link set a terminating process notifies is its link set at the step that reads it (`close_links`), "live" is
membership of `by_pid` at that same step, and the same step closes the set -/
theorem C18_links_read_in_one_step (st : St) (p : Pid) (k : Nat) (h : (st.procs p).pc = .exiting) :
    ∃ st', procStep st p k = some st' ∧ (st'.procs p).snapL = (st.procs p).links ∧ (st'.procs p).liveL = st.byPid ∧
      (st'.procs p).pc = .notifyL (st.procs p).links ∧ (st'.procs p).closedL = true := by
  have hstep : procStep st p k = some (st.modP p fun q =>
      { q with pc := .notifyL q.links, closedL := true, snapL := q.links, liveL := st.byPid }) := by
    unfold procStep; rw [h]
  exact ⟨_, hstep, by simp [St.modP], by simp [St.modP], by simp [St.modP], by simp [St.modP]⟩

/-- the same for monitors, with the monitor's own reference: a mailbox accepts `MonitorExit{monitored: p, reference: r}` at
most once, and only if the pair (receiver, r) was in `p`'s monitor set when `p` read it -/
theorem C18_monitor_at_most_once (cap : Nat) (evs : List Ev) (p a : Pid) (r : Ref) :
    let st := run (St.init cap) evs
    st.timesAccepted a (.monExit p r) ≤ 1 ∧
      (1 ≤ st.timesAccepted a (.monExit p r) → (a, r) ∈ (st.procs p).snapM ∧ (st.procs p).pc.linksDone = true) := by
  dsimp only
  have hi := allInv_run cap evs
  generalize run (St.init cap) evs = st at hi ⊢
  have hc := hi.monCount p a r
  have hl := hi.monCons p (a, r)
  have hn := nodup_count_le_one (hi.nodup p).2.2.2 (a, r)
  cases hs : (st.procs p).pc.linksDone with
  | false =>
    have := (hl.2 hs).1
    have h0 : st.timesAccepted a (.monExit p r) = 0 := by rw [hc, this]; rfl
    exact ⟨by omega, by omega⟩
  | true =>
    have := hl.1 hs
    refine ⟨by omega, fun h1 => ⟨?_, rfl⟩⟩
    have : 1 ≤ (st.procs p).snapM.count (a, r) := by omega
    exact List.count_pos_iff.mp this

/-- never two notices for one monitor, whatever the reason -/
theorem C18_monitor_notice_never_twice (cap : Nat) (evs : List Ev) (p a : Pid) (r : Ref) :
    let st := run (St.init cap) evs
    st.timesAccepted a (.monExit p r) + st.timesAccepted a (.monNoproc p r) ≤ 1 := by
  dsimp only
  have hi2 := allInv2_run cap evs
  generalize run (St.init cap) evs = st at hi2 ⊢
  have hi := hi2.base
  have hc := hi.monCount p a r
  have hn := hi2.monN p a r
  have hcl := (hi2.closed p).2
  have hnl := nodup_count_le_one (hi.nodup p).2.2.1 (a, r)
  have hd : (doneM st).count (p, (a, r)) =
      st.sentNM.count (p, (a, r)) + st.skipNM.count (p, (a, r)) + st.noRegM.count (p, (a, r)) := by
    simp [doneM, List.count_append, Nat.add_assoc]
  have hlate : st.sentNM.count (p, (a, r)) ≤ st.lateM.count (p, (a, r)) := by
    by_cases hp : ∃ t, (st.cpc t).pendM = some (p, (a, r))
    · have := hi2.lateM.owed _ hp; omega
    · have := hi2.lateM.settled (p, (a, r)) (fun t ht => hp ⟨t, ht⟩); omega
  cases hs : (st.procs p).pc.linksDone with
  | false =>
    rw [hs] at hcl
    have h0 := (hi2.msplit p (a, r)).2 hcl
    have := ((hi.monCons p (a, r)).2 hs).1
    have : st.timesAccepted a (.monExit p r) = 0 := by rw [hc, this]; rfl
    omega
  | true =>
    rw [hs] at hcl
    have h0 := (hi2.msplit p (a, r)).1 hcl
    have := (hi.monCons p (a, r)).1 hs
    omega

/-- never zero (the full statement; formerly known finding kf-c18-late-monitor): when `p` is through with its monitors,
EVERY monitor `(a, r)` in `p`'s monitor set — collected by `p` or accepted afterwards — has been answered by exactly one
`MonitorExit{monitored: p, reference: r}` in `a`'s mailbox (reason `error` or `noproc`), with the exceptions of
`C18_exit_notice_for_every_link` -/
theorem C18_monitor_notice_for_every_monitor (cap : Nat) (evs : List Ev) (p a : Pid) (r : Ref) :
    let st := run (St.init cap) evs
    (st.procs p).pc.monsDone = true → (a, r) ∈ (st.procs p).monitors →
      st.timesAccepted a (.monExit p r) + st.timesAccepted a (.monNoproc p r) = 1 ∨
        (st.timesAccepted a (.monExit p r) + st.timesAccepted a (.monNoproc p r) = 0 ∧
          (a ∉ (st.procs p).liveM ∨ (st.procs a).pc.gone = true ∨ (p, (a, r)) ∈ st.noRegM ∨
            ∃ t, (st.cpc t).pendM = some (p, (a, r)) ∧ ∀ t', (st.cpc t').pendM = some (p, (a, r)) → t' = t)) := by
  dsimp only
  have hi2 := allInv2_run cap evs
  generalize run (St.init cap) evs = st at hi2 ⊢
  have hi := hi2.base
  intro hdone hm
  obtain ⟨hs, ht⟩ := monsDone_linksDone hdone
  have hc := hi.monCount p a r
  have hn := hi2.monN p a r
  have hcl := (hi2.closed p).2
  rw [hs] at hcl
  have h0 := (hi2.msplit p (a, r)).1 hcl
  have hl := (hi.monCons p (a, r)).1 hs
  rw [ht] at hl
  simp only [List.count_nil, Nat.zero_add] at hl
  have hnl := nodup_count_le_one (hi.nodup p).2.2.1 (a, r)
  have h1 := count_pos_of_mem hm
  have hd : (doneM st).count (p, (a, r)) =
      st.sentNM.count (p, (a, r)) + st.skipNM.count (p, (a, r)) + st.noRegM.count (p, (a, r)) := by
    simp [doneM, List.count_append, Nat.add_assoc]
  by_cases hp : ∃ t, (st.cpc t).pendM = some (p, (a, r))
  · have := hi2.lateM.owed _ hp
    obtain ⟨t, ht'⟩ := hp
    right
    exact ⟨by omega, Or.inr (Or.inr (Or.inr ⟨t, ht', fun t' h' => hi2.lateM.uniq t' t _ h' ht'⟩))⟩
  · have := hi2.lateM.settled (p, (a, r)) (fun t ht => hp ⟨t, ht⟩)
    by_cases e1 : (a, r) ∈ (st.procs p).skipM
    · have := count_pos_of_mem e1
      right
      refine ⟨by omega, ?_⟩
      rcases hi.skipM.1 p (a, r) e1 with h | h
      · exact Or.inl h
      · exact Or.inr (Or.inl h)
    · have e1' : (st.procs p).skipM.count (a, r) = 0 := List.count_eq_zero.mpr e1
      by_cases e2 : (p, (a, r)) ∈ st.skipNM
      · have := count_pos_of_mem e2
        right
        exact ⟨by omega, Or.inr (Or.inl (hi2.skipN.2 _ e2))⟩
      · have e2' : st.skipNM.count (p, (a, r)) = 0 := List.count_eq_zero.mpr e2
        by_cases e3 : (p, (a, r)) ∈ st.noRegM
        · have := count_pos_of_mem e3
          right
          exact ⟨by omega, Or.inr (Or.inr (Or.inl e3))⟩
        · have e3' : st.noRegM.count (p, (a, r)) = 0 := List.count_eq_zero.mpr e3
          left
          omega

set_option maxRecDepth 8000 in
example : let st := run (St.init 8) (callEvs 0 (.spawn true) ++ callEvs 0 (.spawn true) ++ callEvs 0 (.monitor 0 1) ++
    callEvs 0 (.monitor 0 1) ++ callEvs 0 (.send 1 7 true) ++ List.replicate 8 (.proc 1 0))
    (st.procs 1).pc.monsDone = true ∧ st.timesAccepted 0 (.monExit 1 0) = 1 ∧ st.timesAccepted 0 (.monExit 1 1) = 1 := by
  decide

set_option maxRecDepth 8000 in
/-- the former witness of kf-c18-late-monitor: `monitor(0, 1)` returns its reference after process 1 has closed its monitor
set and before it leaves the registry — process 0 gets `MonitorExit{1, that reference, noproc}`, once -/
example : let st := run (St.init 1000) (callEvs 0 (.spawn true) ++ callEvs 0 (.spawn true) ++ callEvs 0 (.send 1 7 true) ++
    [.proc 1 0, .proc 1 0, .proc 1 0] ++ callEvs 0 (.monitor 0 1) ++ [.proc 1 0, .proc 1 0, .proc 1 0])
    st.out.getLast? = some (0, .ref 0) ∧ (st.procs 1).pc = .dead ∧ (0, 0) ∈ (st.procs 1).monitors ∧
      st.timesAccepted 0 (.monExit 1 0) = 0 ∧ st.timesAccepted 0 (.monNoproc 1 0) = 1 := by decide

/-- the owed notice is really sent: a client task that holds the receiver's handle after a refused `add_link`
(`signal_noproc_exit`) can take its step whenever the receiver's mailbox is open and not full, the step puts
`Exit{from: b, noproc}` at the end of `a`'s queue, and the `link` call returns Ok -/
theorem C18_late_notice_is_sent (st : St) (t : Tid) (a b : Pid) (hpc : st.cpc t = .lkD a b)
    (hopen : (st.procs a).closed = false) (hroom : (st.procs a).mailbox.length < st.cap) :
    ∃ st', clientStep st t = some st' ∧ (st'.procs a).mailbox = (st.procs a).mailbox ++ [.exitNoproc b] ∧
      st'.out = st.out ++ [(t, .ok)] ∧ st'.cpc t = .idle := by
  have hstep : clientStep st t = some ({ st.deliver (.late t) a (.exitNoproc b) with sentNL := st.sentNL ++ [(b, a)] }.ret t .ok) := by
    unfold clientStep; rw [hpc]; simp only [hopen, hroom, ↓reduceIte, Bool.false_eq_true]
  exact ⟨_, hstep, by simp [St.ret, St.deliver, St.modP, Proc.push], by simp [St.ret, St.deliver, St.modP], by simp [St.ret]⟩

/-- a closed set is frozen: `unlink` / `demonitor` on a process that has collected its links / monitors changes nothing, so
the sets keep recording who is (or was) notified -/
theorem C18_closed_set_is_frozen (st : St) (t : Tid) (a b : Pid) (r : Ref) :
    (st.cpc t = .lk4 false a b → (st.procs b).closedL = true →
      ∃ st', clientStep st t = some st' ∧ st'.procs = st.procs ∧ st'.out = st.out ++ [(t, .ok)]) ∧
    (st.cpc t = .dem2 a b r → (st.procs b).closedM = true →
      ∃ st', clientStep st t = some st' ∧ st'.procs = st.procs ∧ st'.out = st.out ++ [(t, .ok)]) := by
  refine ⟨fun hpc hc => ⟨st.ret t .ok, ?_, rfl, rfl⟩, fun hpc hc => ⟨st.ret t .ok, ?_, rfl, rfl⟩⟩
  · unfold clientStep; rw [hpc]; simp [hc]
  · unfold clientStep; rw [hpc]; simp [hc]

/-- unlink / demonitor BEFORE the process collects its sets: no notice. A process that is not in `p`'s link (monitor) set
when `p` closes it and does not link (monitor) afterwards never gets a notice about `p` -/
theorem C18_no_notice_without_link (cap : Nat) (evs : List Ev) (p a : Pid) (r : Ref) :
    let st := run (St.init cap) evs
    (a ∉ (st.procs p).links → st.timesAccepted a (.exit p) + st.timesAccepted a (.exitNoproc p) = 0) ∧
    ((a, r) ∉ (st.procs p).monitors → st.timesAccepted a (.monExit p r) + st.timesAccepted a (.monNoproc p r) = 0) := by
  dsimp only
  have hi2 := allInv2_run cap evs
  generalize run (St.init cap) evs = st at hi2 ⊢
  have hi := hi2.base
  constructor
  · intro hm
    have h0 : (st.procs p).links.count a = 0 := List.count_eq_zero.mpr hm
    have hc := hi.exitCount p a
    have hn := hi2.exitN p a
    have hcl := (hi2.closed p).1
    have hd : (doneL st).count (p, a) = st.sentNL.count (p, a) + st.skipNL.count (p, a) + st.noRegL.count (p, a) := by
      simp [doneL, List.count_append, Nat.add_assoc]
    have hlate : st.sentNL.count (p, a) ≤ st.lateL.count (p, a) := by
      by_cases hp : ∃ t, (st.cpc t).pendL = some (p, a)
      · have := hi2.lateL.owed _ hp; omega
      · have := hi2.lateL.settled (p, a) (fun t ht => hp ⟨t, ht⟩); omega
    cases hs : (st.procs p).pc.startedL with
    | false =>
      rw [hs] at hcl
      have := (hi2.lsplit p a).2 hcl
      have h2 := ((hi.linkCons p a).2 hs).1
      have : st.timesAccepted a (.exit p) = 0 := by rw [hc, h2]; rfl
      omega
    | true =>
      rw [hs] at hcl
      have := (hi2.lsplit p a).1 hcl
      have := (hi.linkCons p a).1 hs
      omega
  · intro hm
    have h0 : (st.procs p).monitors.count (a, r) = 0 := List.count_eq_zero.mpr hm
    have hc := hi.monCount p a r
    have hn := hi2.monN p a r
    have hcl := (hi2.closed p).2
    have hd : (doneM st).count (p, (a, r)) =
        st.sentNM.count (p, (a, r)) + st.skipNM.count (p, (a, r)) + st.noRegM.count (p, (a, r)) := by
      simp [doneM, List.count_append, Nat.add_assoc]
    have hlate : st.sentNM.count (p, (a, r)) ≤ st.lateM.count (p, (a, r)) := by
      by_cases hp : ∃ t, (st.cpc t).pendM = some (p, (a, r))
      · have := hi2.lateM.owed _ hp; omega
      · have := hi2.lateM.settled (p, (a, r)) (fun t ht => hp ⟨t, ht⟩); omega
    cases hs : (st.procs p).pc.linksDone with
    | false =>
      rw [hs] at hcl
      have := (hi2.msplit p (a, r)).2 hcl
      have h2 := ((hi.monCons p (a, r)).2 hs).1
      have : st.timesAccepted a (.monExit p r) = 0 := by rw [hc, h2]; rfl
      omega
    | true =>
      rw [hs] at hcl
      have := (hi2.msplit p (a, r)).1 hcl
      have := (hi.monCons p (a, r)).1 hs
      omega

set_option maxRecDepth 8000 in
example : let st := run (St.init 8) (callEvs 0 (.spawn true) ++ callEvs 0 (.spawn true) ++ callEvs 0 (.link 0 1) ++
    callEvs 0 (.monitor 0 1) ++ callEvs 0 (.unlink 1 0) ++ callEvs 0 (.demonitor 0 1 0) ++ callEvs 0 (.send 1 7 true) ++
    List.replicate 8 (.proc 1 0))
    (st.procs 1).pc = .dead ∧ (st.procs 0).accepted = [] := by decide

/-! ## C. names and pids -/

/-- at no time does a name map to two processes: `by_name` is a function under every schedule -/
theorem C18_name_unique (cap : Nat) (evs : List Ev) :
    ((run (St.init cap) evs).byName.map (·.1)).Nodup ∧
      ∀ n p q, (n, p) ∈ (run (St.init cap) evs).byName → (n, q) ∈ (run (St.init cap) evs).byName → p = q := by
  have hn := (allInv_run cap evs).names
  refine ⟨hn, fun n p q hp hq => ?_⟩
  have h1 := nameFind_of_mem hn hp
  have h2 := nameFind_of_mem hn hq
  rw [h1] at h2
  exact Option.some.inj h2

/-- a name is never re-pointed: whatever step any task takes (register, unregister, spawn, the sweep of a terminating
process, …, in any interleaving), a name that resolves to `p` before the step resolves to `p` after it or to nothing — it
reaches another process only through a state in which it is free -/
theorem C18_name_never_repointed (st st' : St) (e : Ev) (n : Name) (p : Pid) (hu : (st.byName.map (·.1)).Nodup)
    (h : stepEv st e = some st') (hn : nameFind n st.byName = some p) :
    nameFind n st'.byName = some p ∨ nameFind n st'.byName = none := by
  cases hq : nameFind n st'.byName with
  | none => exact Or.inr rfl
  | some q =>
    left
    have hm := nameFind_some_mem hq
    have hsub : (n, q) ∈ st.byName := by
      cases e with
      | start t op =>
        simp only [stepEv] at h
        split at h
        · cases h; exact hm
        · cases h
      | cont t =>
        rcases clientStep_byName h with e | ⟨n', p', hf, _, e⟩ | ⟨n', e⟩
        · rwa [e] at hm
        · rw [e] at hm
          rcases List.mem_append.mp hm with hm | hm
          · exact hm
          · simp only [List.mem_singleton, Prod.mk.injEq] at hm
            obtain ⟨rfl, rfl⟩ := hm
            rw [hf] at hn; cases hn
        · rw [e] at hm; exact (mem_nameDel.mp hm).1
      | proc q' k =>
        rcases procStep_byName h with ⟨_, e⟩ | ⟨_, e⟩
        · rwa [e] at hm
        · rw [e] at hm; exact (mem_nameSweep.mp hm).1
    have := nameFind_of_mem hu hsub
    rw [hn] at this
    rw [Option.some.inj this]

set_option maxRecDepth 8000 in
example : let st := run (St.init 8) (callEvs 0 (.spawn true) ++ callEvs 0 (.spawn true) ++ callEvs 0 (.register 3 0) ++
    callEvs 1 (.register 3 1))
    nameFind 3 st.byName = some 0 ∧ st.out.getLast? = some (1, .taken) := by decide

/-- `register` on an occupied name fails with `NameAlreadyRegistered` and changes neither table nor any process -/
theorem C18_register_occupied_fails_and_changes_nothing (st : St) (t : Tid) (n : Name) (p q : Pid)
    (hpc : st.cpc t = .reg2 n p) (hp : p ∈ st.byPid) (hocc : nameFind n st.byName = some q) :
    ∃ st', clientStep st t = some st' ∧ st'.out = st.out ++ [(t, .taken)] ∧ st'.byName = st.byName ∧
      st'.byPid = st.byPid ∧ st'.procs = st.procs ∧ st'.nameLock = none := by
  have hstep : clientStep st t = some ({ st with nameLock := none }.ret t .taken) := by
    unfold clientStep; rw [hpc]; simp only [hp, ↓reduceIte, hocc]
  exact ⟨_, hstep, rfl, rfl, rfl, rfl, rfl⟩

/-- `register` for a pid that is not in the registry (terminated, or never spawned) fails with `ProcessNotFound` and changes
nothing (this is the repaired behaviour, see notes/C18.md) -/
theorem C18_register_dead_pid_fails (st : St) (t : Tid) (n : Name) (p : Pid)
    (hpc : st.cpc t = .reg2 n p) (hp : p ∉ st.byPid) :
    ∃ st', clientStep st t = some st' ∧ st'.out = st.out ++ [(t, .noProc)] ∧ st'.byName = st.byName ∧
      st'.byPid = st.byPid ∧ st'.procs = st.procs := by
  have hstep : clientStep st t = some ({ st with nameLock := none }.ret t .noProc) := by
    unfold clientStep; rw [hpc]; simp only [hp, ↓reduceIte]
  exact ⟨_, hstep, rfl, rfl, rfl, rfl⟩

/-- under every schedule a registered name belongs to a process that is in the registry, or to one that is exactly between
the two accesses of `registry.remove` (out of `by_pid`, names not swept yet) -/
theorem C18_names_point_to_registered (cap : Nat) (evs : List Ev) (n : Name) (p : Pid) :
    let st := run (St.init cap) evs
    nameFind n st.byName = some p → p ∈ st.byPid ∨ (st.procs p).pc = .sweep := by
  intro st h
  exact (allInv_run cap evs).reg.names n p (nameFind_some_mem h)

/-- after termination: once the removal steps of a terminated process are complete, its pid does not resolve, no name resolves
to it, a send to it by pid fails — and all of this stays so under every continuation -/
theorem C18_terminated_unresolvable (cap : Nat) (evs more : List Ev) (p : Pid)
    (h : ((run (St.init cap) evs).procs p).pc.swept = true) :
    let st := run (St.init cap) (evs ++ more)
    (st.procs p).pc.swept = true ∧ p ∉ st.byPid ∧ ∀ n, nameFind n st.byName ≠ some p := by
  intro st
  have hi := allInv_run cap (evs ++ more)
  have hsw : (st.procs p).pc.swept = true := by
    show ((run (St.init cap) (evs ++ more)).procs p).pc.swept = true
    rw [run_append]
    exact swept_forever (allInv_run cap evs).reg h more
  have hg : (st.procs p).pc.gone = true := by
    revert hsw; cases (st.procs p).pc <;> simp [PPc.swept]
  have hout := (hi.reg.goneOut p hg).1
  refine ⟨hsw, hout, fun n hn => ?_⟩
  rcases hi.reg.names n p (nameFind_some_mem hn) with h1 | h1
  · exact hout h1
  · rw [h1] at hsw; cases hsw

set_option maxRecDepth 8000 in
example : let st := run (St.init 8) (callEvs 0 (.spawn true) ++ callEvs 0 (.register 3 0) ++ callEvs 0 (.send 0 7 true) ++
    List.replicate 6 (.proc 0 0))
    (st.procs 0).pc.swept = true ∧ nameFind 3 st.byName = none := by decide

/-- no resurrection: a process that has left `by_pid` never comes back, in particular not through the `registry.insert` of
`Node::spawn` running after the process task was started (the task cannot terminate before the insert: nobody can reach its
mailbox) -/
theorem C18_no_resurrection (cap : Nat) (evs more : List Ev) (p : Pid)
    (h : ((run (St.init cap) evs).procs p).pc.gone = true) :
    p ∉ (run (St.init cap) (evs ++ more)).byPid := by
  have hi := allInv_run cap (evs ++ more)
  have hg : ((run (St.init cap) (evs ++ more)).procs p).pc.gone = true := by
    rw [run_append]
    exact gone_forever (allInv_run cap evs).reg h more
  exact (hi.reg.goneOut p hg).1

/-- a process whose `spawn` has not yet reached `registry.insert` is in its loop with an empty mailbox: it cannot have
terminated, so the late insert never registers a dead handle -/
theorem C18_spawn_inserts_a_live_process (cap : Nat) (evs : List Ev) (t : Tid) (p : Pid) :
    let st := run (St.init cap) evs
    st.cpc t = .spawn2 p → (st.procs p).pc = .recv ∧ (st.procs p).mailbox = [] := by
  intro st h
  have hi := (allInv_run cap evs).reg
  have h1 := hi.spawn2 t p h
  exact ⟨h1.2, (hi.fresh p h1.1 (by rw [h1.2]; simp)).2.1⟩

/-- the name can be registered again: in any state where the name is free (as it is once the owner's names are swept), a
`register` of it for a process in the registry, run without interference on `by_name`, returns Ok and the name resolves -/
theorem C18_name_can_be_registered_again (st : St) (t : Tid) (n : Name) (q : Pid)
    (hidle : st.cpc t = .idle) (hlock : st.nameLock = none) (hq : q ∈ st.byPid) (hfree : nameFind n st.byName = none) :
    let st' := run st (callEvs t (.register n q))
    st'.out = st.out ++ [(t, .ok)] ∧ st'.byName = st.byName ++ [(n, q)] ∧ st'.cpc t = .idle := by
  simp [callEvs, run, stepEv, clientStep, hidle, Op.entry, St.setC, St.ret, hlock, hq, hfree, List.replicate]

/-- the sweep releases every name of the terminated process: after the `by_name.retain` step none of them resolves -/
theorem C18_sweep_releases_names (st : St) (p : Pid) (k : Nat) (hpc : (st.procs p).pc = .sweep) (hlock : st.nameLock = none) :
    ∃ st', procStep st p k = some st' ∧ (∀ n, nameFind n st'.byName ≠ some p) ∧
      ∀ n q, q ≠ p → (nameFind n st.byName = some q → (n, q) ∈ st'.byName) := by
  have hstep : procStep st p k = some ({ st with byName := nameSweep p st.byName }.modP p fun q => { q with pc := .closing }) := by
    unfold procStep; rw [hpc]; simp only [hlock]
  refine ⟨_, hstep, ?_, ?_⟩
  · intro n hn
    have := nameFind_some_mem hn
    simp [St.modP] at this
  · intro n q hq hn
    simp [St.modP]
    exact ⟨nameFind_some_mem hn, hq⟩

/-- the `by_name` lock is never held across calls: whenever it is held, the holder is inside `register` and its next step
(always enabled) releases it — `remove` cannot be blocked for good (lock order `by_name` → `by_pid` only) -/
theorem C18_name_lock_is_released (st : St) (t : Tid) (n : Name) (p : Pid) (hpc : st.cpc t = .reg2 n p) :
    ∃ st', clientStep st t = some st' ∧ st'.nameLock = none ∧ st'.cpc t = .idle := by
  unfold clientStep
  rw [hpc]
  simp only
  split
  · split <;> exact ⟨_, rfl, rfl, by simp [St.ret]⟩
  · exact ⟨_, rfl, rfl, by simp [St.ret]⟩

/-! ## D. behaviours -/

/-- a call is answered at most once, and only a call is answered -/
theorem C18_gen_call_answered_at_most_once (body : Term) (res : GsResult) :
    (gsReplies body res).length ≤ 1 := by
  unfold gsReplies
  split <;> simp

/-- a well-formed `{'$gen_call', {Pid, Ref}, Request}` is dispatched to `handle_call` with that request and caller -/
theorem C18_gen_call_wellformed_dispatch (fp : PidF) (node : Bytes) (cr : Nat) (ids : List Nat) (loc : Option Bytes) (req : Term) :
    gsDispatch (.tuple [.atom (atomBytes "$gen_call"), .tuple [.pid fp, .ref node cr ids loc], req]) =
      .call fp (.ref node cr ids loc) req := by
  simp [gsDispatch, isRef]

/-- each call the server replies to is answered exactly once: to the `from` pid of the call, with the call's reference -/
theorem C18_gen_call_reply_to_caller_with_reference (body : Term) (fp : PidF) (r req v : Term)
    (h : gsDispatch body = .call fp r req) :
    gsReplies body (.reply v) = [(fp, .tuple [r, v])] := by
  unfold gsReplies
  rw [h]

/-- casts and plain messages are never answered, and neither is a call the server defers (`NoReply`) or fails on -/
theorem C18_gen_cast_info_never_answered (body : Term) (res : GsResult)
    (h : (∃ q, gsDispatch body = .cast q) ∨ (∃ b, gsDispatch body = .info b) ∨ res = .noReply ∨ res = .err) :
    gsReplies body res = [] := by
  unfold gsReplies
  rcases h with ⟨q, h⟩ | ⟨b, h⟩ | h | h
  · rw [h]
  · rw [h]
  · subst h; split <;> simp_all
  · subst h; split <;> simp_all

example : gsDispatch (.tuple [.atom (atomBytes "$gen_cast"), .atom (atomBytes "stop")]) = .cast (.atom (atomBytes "stop")) := by
  simp [gsDispatch, atomBytes]

/-- the event manager answers each `{'$gen_call', {Pid, Ref}, HandlerId, Request}` exactly once, to the caller, with the
call's reference — also when the handler is missing or fails (`error`); `notify` is never answered -/
theorem C18_gen_event_call_answered_once (frm : Option PidF) (body : Term) (cr : Option Term) (ids : List Term) :
    (geReplies frm body cr ids).length ≤ 1 ∧
      ∀ fp r hid req, geDispatch body = .call fp r hid req →
        geReplies frm body cr ids = [(fp, .tuple [r, cr.getD (.atom (atomBytes "error"))])] := by
  refine ⟨?_, ?_⟩
  · unfold geReplies
    split <;> (try split) <;> simp
  · intro fp r hid req h
    unfold geReplies
    rw [h]

/-! ## E. behaviours, function by function

Model: `Impl/Behaviours.lean` (`gsHandle` / `gsRun`: `GenServerProcess::handle_message` inside the loop of `spawn_process`;
`geHandle` / `geRun`, `notify`, `callHandler`, `addHandler`, `deleteHandler`: `GenEventManager`). The user's callbacks are
arbitrary: their answers are inputs (`GsStep.ans` per message; the oracle `ω uid k` per handler instance and callback), and so
is the registry at the moment a message is handled (`Env`). `Spec/Behaviours.lean` says what is owed, from the OTP shapes.
The code is the repaired one: a reply that cannot be delivered is dropped (before, it ended the behaviour process). -/
end Edp.Props.C18

namespace Edp.Props.C18
open Edp Edp.Impl.Beh Edp.Spec.Beh

/-- the tags, arities, chain order, reply layout and error handling of the two `handle_message` functions, as extracted from
gen_server.rs / gen_event.rs on this run, are what the model transcribes -/
theorem C18_behaviour_tables_are_the_source :
    Gen.GS_DISPATCH = [("call", 3), ("cast", 2)] ∧ Gen.GS_MIN_ARITY = 2 ∧ Gen.GS_FROM_ARITY = 2 ∧
    Gen.GS_REPLY_REF_FIRST = true ∧ Gen.GS_REPLY_ERRORS_PROPAGATED = 0 ∧
    Gen.GE_DISPATCH = [("notify", 2), ("sync_notify", 2), ("call", 4), ("which_handlers", 2)] ∧
    Gen.GE_REPLY_ERRORS_PROPAGATED = 0 := by decide

/-- the atoms in the source are the protocol's: `'$gen_call'`, `'$gen_cast'` of OTP's gen / gen_server, the event manager's own
tags, `ok`, `error`, `normal` -/
theorem C18_behaviour_tags_are_the_protocols :
    Gen.GS_CALL_TAG = tagGenCall ∧ Gen.GS_CAST_TAG = tagGenCast ∧ Gen.GE_CALL_TAG = tagGenCall ∧
    Gen.GE_NOTIFY_TAG = tagNotify ∧ Gen.GE_SYNC_NOTIFY_TAG = tagSyncNotify ∧ Gen.GE_WHICH_TAG = tagWhich ∧
    Gen.GE_ACK_ATOM = atomOk ∧ Gen.GE_CALL_ERROR_ATOM = atomError ∧ Gen.GS_TERMINATE_REASON = atomNormal := by decide

/-- **exactly once, to the caller, with the call's reference, in the order the calls were handled** — for every sequence of
messages of every kind, every behaviour of the callbacks and every registry at every step: what a `GenServerProcess` puts into
mailboxes over its whole life is exactly the list of replies the Spec says it owes: one `{Ref, Reply}` to `Pid` for each
handled `{'$gen_call', {Pid, Ref}, Request}` whose callback answered `Reply` while `Pid` could be reached, in handling order;
nothing for casts, plain messages, malformed calls, `NoReply`, failed callbacks; nothing after the server has ended -/
theorem C18_gen_server_answers_exactly_what_is_owed (steps : List GsStep) :
    sendsOf (gsRun steps).1 = expected (steps.map toSpec) :=
  gsRun_sends steps

example :
    let p : PidF := ⟨[110], 1, 0, 1, none⟩
    let call : Term := .tuple [.atom tagGenCall, .tuple [.pid p, .ref [110] 1 [7] none], .int 5]
    sendsOf (gsRun [⟨.regular none call, .reply (.int 6), fun _ => .live⟩]).1 = [(p, .tuple [.ref [110] 1 [7] none, .int 6])] := by
  rfl

/-- the exact guard of "answered": a well-formed call is answered — once, `{Ref, Reply}`, to its `Pid` — precisely when its
callback returns a reply and the caller is in the registry with an open mailbox; otherwise nothing is sent to anybody -/
theorem C18_gen_call_answered_iff_reply_and_reachable (f : Option PidF) (body : Term) (p : PidF) (r q : Term)
    (ans : GsAns) (env : Env) (h : callOf body = some (p, r, q)) :
    sendsOf (gsHandle ⟨.regular f body, ans, env⟩).1 =
      match ans with
      | .reply v => if env p = .live then [(p, .tuple [r, v])] else []
      | _ => [] := by
  rw [gsHandle_sends]
  simp only [toSpec, toSpecMsg, owed, h]
  cases ans with
  | reply v =>
    simp only [toSpecAns, reachB]
    by_cases hl : env p = .live <;> simp [hl]
  | noReply => rfl
  | err => rfl

example : callOf (.tuple [.atom tagGenCall, .tuple [.pid ⟨[110], 1, 0, 1, none⟩, .ref [110] 1 [7] none], .int 5]) =
    some (⟨[110], 1, 0, 1, none⟩, .ref [110] 1 [7] none, .int 5) := by rfl

/-- every message causes exactly the callback its shape says: a well-formed call `handle_call(Request, Pid)`; anything that
is not a well-formed call — wrong arity, a `from` that is not `{Pid, Reference}` (the alias form `{Pid, [alias|Ref]}` of OTP 24
included), a tag that is not the atom — `handle_cast` for a cast and otherwise `handle_info` with the WHOLE message; an `Exit`
the server's `terminate`; `Control` and the rest nothing. No message shape panics or ends the process. -/
theorem C18_gen_server_one_callback_per_message (s : GsStep) :
    cbsOf (gsHandle s).1 =
      match s.msg with
      | .regular _ body =>
        (match callOf body with
         | some (p, _, q) => [Cb.gsCall q p]
         | none => match gsDispatchB body with
           | .cast q => [Cb.gsCast q]
           | _ => [Cb.gsInfo body])
      | .exit r => [Cb.gsTerminate r]
      | _ => [] :=
  gsHandle_cbs s

/-- the alias form is not a call here: it is handed to `handle_info` and never answered (recorded in notes/C18.md) -/
example :
    let p : PidF := ⟨[110], 1, 0, 1, none⟩
    let body : Term := .tuple [.atom tagGenCall, .tuple [.pid p, .ilist [.atom [97]] (.ref [110] 1 [7] none)], .int 5]
    gsRun [⟨.regular none body, .reply (.int 6), fun _ => .live⟩] = ([.cb (.gsInfo body)], true) := by
  rfl

/-- **the server ends only when a callback fails**: over every history, the process is still in its loop exactly when no
handled message's callback returned `Err` — no shape of message, no unreachable caller, no closed mailbox ends it -/
theorem C18_gen_server_ends_only_on_a_failing_callback (steps : List GsStep) :
    (gsRun steps).2 = survives (steps.map toSpec) :=
  gsRun_alive steps

/-- a reply that cannot be delivered (the caller is registered but its mailbox has lost its receiver, or it is not
registered at all) is dropped: `handle_message` returns Ok, nothing is sent -/
theorem C18_gen_server_undeliverable_reply_is_harmless (f : Option PidF) (body : Term) (v : Term) (env : Env) :
    (gsHandle ⟨.regular f body, .reply v, env⟩).2 = true ∧
    ∀ p r q, callOf body = some (p, r, q) → env p ≠ .live → sendsOf (gsHandle ⟨.regular f body, .reply v, env⟩).1 = [] := by
  constructor
  · rw [gsHandle_ok]; rfl
  · intro p r q h hl
    rw [C18_gen_call_answered_iff_reply_and_reachable f body p r q _ env h]
    simp [hl]

example : (fun (_ : PidF) => Reach.closed) ⟨[110], 1, 0, 1, none⟩ ≠ Reach.live := by decide

/-- replies keep the order of handling across any split of the history: what is sent over `a ++ b` is what is sent over `a`
followed by what is sent over `b`, as long as the server survives `a` -/
theorem C18_gen_server_replies_in_handling_order (a b : List GsStep) (h : (gsRun a).2 = true) :
    sendsOf (gsRun (a ++ b)).1 = sendsOf (gsRun a).1 ++ sendsOf (gsRun b).1 := by
  induction a with
  | nil => rfl
  | cons s rest ih =>
    have key : ∀ l, gsRun (s :: l) = (match gsHandle s with
        | (o, true) => (o ++ (gsRun l).1, (gsRun l).2)
        | (o, false) => (o ++ [.cb (.gsTerminate (atomB Gen.GS_TERMINATE_REASON))], false)) := fun l => rfl
    rw [List.cons_append, key (rest ++ b), key rest]
    rw [key rest] at h
    cases hh : gsHandle s with
    | mk o ok =>
      rw [hh] at h
      cases ok with
      | true =>
        simp only at h ⊢
        rw [sendsOf_append, sendsOf_append, ih h, List.append_assoc]
      | false => simp at h

/-- **the event manager answers exactly what is owed**: over every sequence of messages, every state of the handler map and
every behaviour of the handlers, the messages it sends are, in order and in form, one `{Ref, _}` to `Pid` for every
`{'$gen_call', {Pid, Ref}, HandlerId, Request}` (whether the handler exists, replies, removes itself, swaps or fails) and every
`{'$gen_which_handlers', {Pid, Ref}}` whose `Pid` can be reached, one `ok` for every `{'$gen_sync_notify', Event}` whose message
names a reachable sender — and nothing else: `notify`, plain messages and malformed calls are never answered -/
theorem C18_event_manager_answers_exactly_what_is_owed (ω : Oracle) (st : GeSt) (steps : List GeStep) :
    (sendsOf (geRun ω st steps).2).map shape = geExpected (steps.map toSpecEv) :=
  geRun_sends ω steps st

example :
    let p : PidF := ⟨[110], 1, 0, 1, none⟩
    let call : Term := .tuple [.atom tagGenCall, .tuple [.pid p, .ref [110] 1 [7] none], .atom [104], .int 5]
    sendsOf (geRun (fun _ _ => {}) {} [⟨.regular none call, fun _ => .live⟩]).2 =
      [(p, .tuple [.ref [110] 1 [7] none, .atom atomError])] := by
  rfl

/-- no message and no handler behaviour ends the event manager: `handle_message` has no failing path, so every message of a
history is handled, whatever came before it -/
theorem C18_event_manager_handles_every_message (ω : Oracle) (a b : List GeStep) (st : GeSt) :
    (geRun ω st (a ++ b)).2 = (geRun ω st a).2 ++ (geRun ω (geRun ω st a).1 b).2 ∧
    (geRun ω st (a ++ b)).1 = (geRun ω (geRun ω st a).1 b).1 := by
  induction a generalizing st with
  | nil => exact ⟨rfl, rfl⟩
  | cons s rest ih =>
    obtain ⟨h1, h2⟩ := ih (geHandle ω st s).1
    simp only [List.cons_append, geRun]
    exact ⟨by rw [h1, List.append_assoc], h2⟩

/-- **a notify reaches every installed handler exactly once**, in the order of the map (`HashMap`: not the order of
installation; OTP does not promise one either), whatever the handlers answer — also those that remove themselves, swap or
fail during this very event -/
theorem C18_notify_reaches_every_installed_handler_once (ω : Oracle) (st : GeSt) (ev : Term) :
    eventCbs (notify ω st ev).2 = st.hs.map fun e => (e.uid, ev) :=
  eventCbs_notify ω st ev

example : eventCbs (notify (fun _ _ => { kind := .remove }) ⟨[⟨.int 1, 7, .int 1, 1⟩, ⟨.int 2, 8, .int 2, 1⟩]⟩ (.int 0)).2 =
    [(7, .int 0), (8, .int 0)] := by rfl

/-- **a call goes to exactly the handler stored under the named id** (one `handle_call`, for that instance, with that
request), or to nobody when there is none — and the value it is answered with is the handler's reply, or `error` when there is
no such handler, its callback failed, or the handler it swapped in failed to initialise -/
theorem C18_event_call_goes_to_the_named_handler (ω : Oracle) (st : GeSt) (key req : Term) :
    callCbs (callHandler ω st key req).2.1 =
      (match findKey key st.hs with
       | some e => [(e.uid, req)]
       | none => []) ∧
    (callHandler ω st key req).2.2 =
      (match findKey key st.hs with
       | none => none
       | some e =>
         match (ω e.uid e.n).kind with
         | .ok => some (ω e.uid e.n).val
         | .remove => some (ω e.uid e.n).val
         | .err => none
         | .swap => match (ω (ω e.uid e.n).newUid 0).kind with
           | .err => none
           | _ => some (ω e.uid e.n).val) := by
  refine ⟨callCbs_callHandler ω st key req, ?_⟩
  unfold callHandler
  cases hf : findKey key st.hs with
  | none => rfl
  | some e =>
    simp only
    cases hk : (ω e.uid e.n).kind with
    | ok => rfl
    | remove => rfl
    | err => rfl
    | swap => cases hi : (ω (ω e.uid e.n).newUid 0).kind <;> simp

example (ω : Oracle) (e : Entry) (r : List Entry) (req : Term) (h : (e.key == e.key) = true) :
    callCbs (callHandler ω ⟨e :: r⟩ e.key req).2.1 = [(e.uid, req)] := by
  rw [(C18_event_call_goes_to_the_named_handler ω ⟨e :: r⟩ e.key req).1]
  simp [findKey, h]

/-- The state the process model carries IS the state the code keeps (regenerated from the source on every run): a handle
has the pid, the mailbox sender and the two closable sets (`ExitSet`: entries and the closed flag); the registry has the
two tables; a mailbox is one channel; the behaviours keep their callback object, their tags, (the event manager:) the
handler map, and the registry. -/
theorem C18_state_is_the_sources_state :
    Edp.Gen.STRUCT_ProcessHandle =
      ["pid:ExternalPid", "mailbox_sender:mpsc::Sender<Message>", "links:Arc<RwLock<ExitSet<ExternalPid>>>",
       "monitors:Arc<RwLock<ExitSet<(ExternalPid,ExternalReference)>>>"]
    ∧ Edp.Gen.STRUCT_ExitSet = ["entries:HashSet<T>", "closed:bool"]
    ∧ Edp.Gen.STRUCT_ProcessRegistry =
      ["by_pid:Arc<RwLock<HashMap<ExternalPid,ProcessHandle>>>", "by_name:Arc<RwLock<HashMap<Atom,ExternalPid>>>"]
    ∧ Edp.Gen.STRUCT_Mailbox = ["sender:mpsc::Sender<Message>", "receiver:mpsc::Receiver<Message>"]
    ∧ Edp.Gen.STRUCT_GenServerProcess = ["server:T", "call_tag:Atom", "cast_tag:Atom", "registry:Arc<ProcessRegistry>"]
    ∧ Edp.Gen.STRUCT_GenEventManager =
      ["handlers:HashMap<String,HandlerEntry>", "notify_tag:Atom", "sync_notify_tag:Atom", "call_tag:Atom",
       "which_handlers_tag:Atom", "registry:Arc<ProcessRegistry>"]
    ∧ Edp.Gen.PROCESS_WIDE_STATE = [] := by decide

end Edp.Props.C18

namespace Edp.Props.C18
open Edp Edp.Impl Edp.Impl.Procs Edp.Impl.ProcsK

/-! ## F. bounded mailboxes: a full mailbox delays, it never drops

A mailbox is a bounded channel (`Mailbox::new`: `mpsc::channel(DEFAULT_MAILBOX_CAPACITY)`). Everything above is proved for
EVERY capacity and EVERY schedule of the model in which a mailbox send WAITS while the target is full — those schedules
include the ones in which a process does not take messages for as long as the schedule likes. That the code really uses the
waiting form at every place that puts a `Message` into a mailbox is a fact about the source: it is regenerated on every run
(`Generated/MiscMailbox.lean`) and the model's sending steps are given the form as a parameter (`Impl/ProcsK.lean`). -/

/-- **capacity and send forms are the source's**: `Node::spawn` hands every process `Mailbox::new()`, a channel of
`DEFAULT_MAILBOX_CAPACITY` (> 0) messages; crates/edp_node/src builds a `Message` in thirteen places, every one as the argument
of `ProcessHandle::send(..).await` (none bound to a name and handed to something else); `ProcessHandle::send` is the only
method of the handle that touches `mailbox_sender`, and it is `mailbox_sender.send(msg).await` — the form that waits for
room. Hence every sending step of the model (`srcForms`) and every reply of the behaviours has the waiting form. Changing
one site to `try_send` / `send_timeout` / a new method of the handle changes a table and breaks this. -/
theorem C18_mailbox_capacity_and_send_forms_are_the_sources :
    0 < Gen.MAILBOX_DEFAULT_CAPACITY ∧ Gen.MAILBOX_NEW_CHANNEL_ARG = "DEFAULT_MAILBOX_CAPACITY" ∧
    Gen.NODE_SPAWN_MAILBOX = "Mailbox::new()" ∧
    Gen.PROCESS_HANDLE_SENDER_METHODS = ["send"] ∧ Chan.handleSendForm = .await ∧
    Gen.MAILBOX_CHANNEL_OPS.map (fun e => (e.1, e.2.1, e.2.2.1)) =
      [("mailbox.rs", "send", "self.sender"), ("process.rs", "send", "self.mailbox_sender"),
       ("node.rs", "route_message", "sender")] ∧
    Gen.MAILBOX_DELIVERIES.length = Gen.MAILBOX_MESSAGE_CONSTRUCTIONS ∧
    (∀ e ∈ Gen.MAILBOX_DELIVERIES, Chan.deliveryForm e = .await) ∧
    Gen.MAILBOX_DELIVERIES.map (fun e => (e.1, e.2.1, e.2.2.1)) =
      [("process.rs", "propagate_exit_signals", "Exit"), ("process.rs", "propagate_exit_signals", "MonitorExit"),
       ("node.rs", "route_message", "Regular"), ("node.rs", "route_message", "Regular"),
       ("node.rs", "route_message", "Exit"), ("node.rs", "route_message", "MonitorExit"),
       ("node.rs", "send_local", "Regular"), ("node.rs", "signal_noproc_exit", "Exit"),
       ("node.rs", "monitor", "MonitorExit"), ("gen_server.rs", "handle_gen_call", "Regular"),
       ("gen_event.rs", "handle_message", "Regular"), ("gen_event.rs", "handle_message", "Regular"),
       ("gen_event.rs", "handle_message", "Regular")] ∧
    (∀ s, srcForms s = .await) ∧ srcReplyForms = [.await, .await] := by
  refine ⟨by decide, by decide, by decide, by decide, by decide, by decide, by decide, by decide, by decide, ?_, by decide⟩
  intro s
  cases s <;> decide

example : Chan.Form.ofSource "try_send" false = .trySend ∧ Chan.Form.ofSource "send" false = .other ∧
    Chan.deliveryForm ("node.rs", "route_message", "Exit", "signal", false, "propagated") = .other := by decide

/-- **with the source's forms nothing is ever dropped, and the model above is the model of the code**: for every capacity
and every schedule — full mailboxes and processes that do not take messages included — the run of the form-parametrised model
with the forms read from the source is the run of `Impl/Procs.lean`, and no send has given up on a message (`dropped = []`).
So `C18_fifo_exactly_once`, `C18_exit_notice_for_every_link`, `C18_monitor_notice_for_every_monitor` … speak about the code's
choice of channel operation, for the capacity of the source as for every other. -/
theorem C18_full_mailbox_never_drops (cap : Nat) (evs : List Ev) :
    runK srcForms ⟨St.init cap, []⟩ evs = ⟨run (St.init cap) evs, []⟩ ∧
    (runK srcForms ⟨St.init Gen.MAILBOX_DEFAULT_CAPACITY, []⟩ evs).dropped = [] := by
  have h := C18_mailbox_capacity_and_send_forms_are_the_sources.2.2.2.2.2.2.2.2.2.1
  exact ⟨runK_await srcForms h evs _, by rw [runK_await srcForms h evs _]⟩

set_option maxRecDepth 20000 in
/-- the schedule of the next theorem under the source's forms: the exit notice waits for room and is delivered, once -/
example :
    let evs := callEvs 0 (.spawn true) ++ callEvs 0 (.spawn true) ++ callEvs 0 (.link 0 1) ++ callEvs 0 (.send 1 5 false) ++
      callEvs 0 (.send 0 7 true) ++ List.replicate 9 (.proc 0 0) ++ [.proc 1 0] ++ List.replicate 9 (.proc 0 0)
    let k := runK srcForms ⟨St.init 1, []⟩ evs
    (k.st.procs 0).pc = .dead ∧ k.st.timesAccepted 1 (.exit 0) = 1 ∧ k.dropped = [] := by decide

set_option maxRecDepth 20000 in
/-- **the parameter matters** (what a `try_send` at ONE site would do): with the exit signals to linked processes sent by a
form that gives up, and every other site as in the source, there is a schedule after which process 1 — linked to 0 when 0
read its links, in its loop, in the registry the whole time, its mailbox full at the wrong moment — has not and will never
get an exit notice about 0 of either kind: the conclusion of `C18_exit_notice_for_every_link` fails. -/
theorem C18_a_send_that_gives_up_loses_the_exit_notice :
    ∃ (F : Site → Chan.Form) (evs : List Ev), (∀ s, s ≠ .exitLinks → F s = srcForms s) ∧
      let k := runK F ⟨St.init 1, []⟩ evs
      1 ∈ (k.st.procs 0).snapL ∧ 1 ∈ (k.st.procs 0).liveL ∧ (k.st.procs 0).pc = .dead ∧
      (k.st.procs 1).pc = .recv ∧ 1 ∈ k.st.byPid ∧
      k.st.timesAccepted 1 (.exit 0) + k.st.timesAccepted 1 (.exitNoproc 0) = 0 ∧ k.dropped = [(1, .exit 0)] :=
  ⟨fun s => if s = .exitLinks then .trySend else srcForms s,
    callEvs 0 (.spawn true) ++ callEvs 0 (.spawn true) ++ callEvs 0 (.link 0 1) ++ callEvs 0 (.send 1 5 false) ++
      callEvs 0 (.send 0 7 true) ++ List.replicate 9 (.proc 0 0) ++ [.proc 1 0] ++ List.replicate 9 (.proc 0 0),
    fun s hs => by simp [hs], by decide⟩

/-- **back-pressure, step by step** (any state, any capacity): a step that sends into the mailbox of `p` — `send` / `send_to_name`
(`sendPut`), the `noproc` notices of `link` / `monitor` (`lkB`, `lkD`, `monN2`), the exit signals of a terminating process
(`sendL`, `sendM`) — is NOT enabled while `p`'s receiver is there and its mailbox is full: the sender is suspended, nothing
changes, nothing is lost; with room the client's send is enabled and appends exactly one message to `p`'s queue and to what
`p` accepted, touching no other mailbox; and the receiver's own step is always enabled while it is in its loop with a
non-empty queue, takes the OLDEST message, and leaves every other task where it was — after it a sender that was
suspended on a mailbox filled exactly to capacity has room. -/
theorem C18_full_mailbox_suspends_the_sender_until_the_receiver_takes_one (st : St) (p : Pid)
    (hc : (st.procs p).closed = false) :
    (∀ t, cTarget (st.cpc t) = some p → st.cap ≤ (st.procs p).mailbox.length → stepEv st (.cont t) = none) ∧
    (∀ q i, pTarget (st.procs q).pc = some p → st.cap ≤ (st.procs p).mailbox.length → stepEv st (.proc q i) = none) ∧
    (∀ t, cTarget (st.cpc t) = some p → (st.procs p).mailbox.length < st.cap →
      ∃ st' m, stepEv st (.cont t) = some st' ∧ (st'.procs p).mailbox = (st.procs p).mailbox ++ [m] ∧
        (st'.procs p).accepted.map (·.2) = (st.procs p).accepted.map (·.2) ++ [m] ∧
        ∀ q, q ≠ p → (st'.procs q).mailbox = (st.procs q).mailbox) ∧
    (∀ i m rest, (st.procs p).pc = .recv → (st.procs p).mailbox = m :: rest →
      ∃ st', stepEv st (.proc p i) = some st' ∧ (st'.procs p).mailbox = rest ∧ (st'.procs p).closed = false ∧
        st'.cap = st.cap ∧ st'.cpc = st.cpc ∧ (∀ q, q ≠ p → st'.procs q = st.procs q) ∧
        ((st.procs p).mailbox.length = st.cap → (st'.procs p).mailbox.length < st'.cap)) := by
  refine ⟨fun t ht hf => clientStep_full_blocks st t p ht hc hf, fun q i ht hf => procStep_full_blocks st q i p ht hc hf,
    fun t ht hf => clientStep_room_sends st t p ht hc hf, ?_⟩
  intro i m rest hp hm
  obtain ⟨st', h1, h2, h3, h4, h5, h6⟩ := procStep_recv_makes_room st p i m rest hp hm
  refine ⟨st', h1, h2, by rw [h3, hc], h4, h5, h6, ?_⟩
  intro hl
  rw [h2, h4, ← hl, hm]
  simp

example : ∃ st : St, ∃ t, cTarget (st.cpc t) = some 0 ∧ (st.procs 0).closed = false ∧ st.cap ≤ (st.procs 0).mailbox.length :=
  ⟨run (St.init 1) (callEvs 0 (.spawn true) ++ callEvs 0 (.send 0 5 false) ++ [.start 0 (.send 0 6 false), .cont 0]), 0,
    by decide⟩

/-- **a reply waits for a caller that is behind**: the reply sends of `GenServerProcess::handle_gen_call` and of the three
reply sites of `GenEventManager::handle_message` have the waiting form in the source; with that form a caller whose mailbox
is full is answered like any live caller (the behaviour process waits for room): what is sent is `Beh.reply`, the function
the behaviour theorems (`C18_gen_server_answers_exactly_what_is_owed` …) are about, whatever mailboxes are full. A form
that gives up loses exactly the replies to callers that are behind. -/
theorem C18_reply_waits_for_a_full_caller (full : PidF → Bool) (env : Beh.Env) (to : PidF) (body : Term) :
    (∀ f ∈ srcReplyForms, replyK f full env to body = Beh.reply env to body) ∧
    (∀ f, f.givesUp = true → full to = true → replyK f full env to body = []) := by
  constructor
  · intro f hf
    have h : f = .await := by
      have := C18_mailbox_capacity_and_send_forms_are_the_sources.2.2.2.2.2.2.2.2.2.2
      rw [this] at hf
      simpa using hf
    subst h
    unfold replyK Beh.reply
    cases env to <;> simp [Chan.Form.givesUp]
  · intro f hf hfull
    unfold replyK
    cases env to <;> simp [hf, hfull]

example : replyK .trySend (fun _ => true) (fun _ => .live) ⟨[110], 1, 0, 1, none⟩ (.int 7) = [] ∧
    Beh.reply (fun _ => .live) ⟨[110], 1, 0, 1, none⟩ (.int 7) = [.send ⟨[110], 1, 0, 1, none⟩ (.int 7)] := by
  constructor <;> rfl

/-- **the registry takes its two locks in the order the model's atomic steps assume**: `register` claims a name as ONE
step of the model (the process is looked up and the name entered without anything in between). In the code the two tables
have separate locks, so that is true only because `register` holds the names for the whole function and checks the process
under them, while `remove` drops the process first and sweeps its names afterwards: a `remove` that falls between the check
and the claim would otherwise leave the name to a process that is gone, for good (seeded change S77). The events of the four
functions, regenerated from registry.rs in source order, are these. -/
theorem C18_registry_lock_order_is_the_sources :
    Gen.REGISTRY_REGISTER_EVENTS = ["hold:by_name.write", "temp:by_pid.read", "check-live", "claim-name"] ∧
    Gen.REGISTRY_REMOVE_EVENTS = ["temp:by_pid.write", "drop", "temp:by_name.write", "sweep-names"] ∧
    Gen.REGISTRY_UNREGISTER_EVENTS = ["temp:by_name.write", "drop"] ∧
    Gen.REGISTRY_WHEREIS_EVENTS = ["temp:by_name.read", "look-up"] := by decide

end Edp.Props.C18

/-! ## the registry at lock granularity: the order of the locks is what makes the atomic view right

Model: Impl/RegistryLocks.lean (two tables, the holder of the names lock, a program counter per task; the programs of
`register` / `remove` / `unregister` / `whereis` are INTERPRETED from the event lists regenerated from registry.rs);
invariants: Lemmas/RegistryLocks.lean. Any number of tasks, any schedule (a list of task ids; the step of a blocked or
finished task is a no-op). -/
namespace Edp.Props.C18
open Edp Edp.Impl.Procs Edp.Impl.RegistryLocks

/-- the event lists of the source, read as programs, ARE the programs the invariants below are proved for; the seeded order
(liveness check in front of the names lock) reads as the program of the negative witness -/
theorem C18_registry_programs_are_the_sources :
    progsOf Gen.REGISTRY_REGISTER_EVENTS Gen.REGISTRY_REMOVE_EVENTS Gen.REGISTRY_UNREGISTER_EVENTS Gen.REGISTRY_WHEREIS_EVENTS
      = some srcProgs ∧
    srcProgs.register = [.acqNames, .checkLive, .claim] ∧ srcProgs.remove = [.dropPid, .sweep] ∧
    progsOf ["temp:by_pid.read", "check-live", "hold:by_name.write", "claim-name"] Gen.REGISTRY_REMOVE_EVENTS
      Gen.REGISTRY_UNREGISTER_EVENTS Gen.REGISTRY_WHEREIS_EVENTS = some checkFirstProgs ∧
    parse ["claim-name", "hold:by_name.write"] = none := by decide

private theorem progs_of_sources {pr : Progs}
    (hpr : progsOf Gen.REGISTRY_REGISTER_EVENTS Gen.REGISTRY_REMOVE_EVENTS Gen.REGISTRY_UNREGISTER_EVENTS
      Gen.REGISTRY_WHEREIS_EVENTS = some pr) : pr = srcProgs := by
  rw [C18_registry_programs_are_the_sources.1] at hpr
  exact (Option.some.inj hpr).symm

/-- **the invariant of the two tables under every schedule**, for the programs the source has: every name in `by_name` is
owned by a pid that is in `by_pid` OR whose `remove` has dropped it and has not swept yet; the names are a map (no name has
two owners); only a task between its acquisition and its claim holds the names. -/
theorem C18_registry_invariant_at_lock_granularity (pr : Progs)
    (hpr : progsOf Gen.REGISTRY_REGISTER_EVENTS Gen.REGISTRY_REMOVE_EVENTS Gen.REGISTRY_UNREGISTER_EVENTS
      Gen.REGISTRY_WHEREIS_EVENTS = some pr)
    (r0 : Reg) (h0 : RegOK r0) (calls : List Call) (sched : List Tid) :
    let st := run (init pr r0 calls) sched
    (∀ n p, (n, p) ∈ st.reg.byName → p ∈ st.reg.byPid ∨ Pend st.tasks p) ∧
    (∀ n p, st.reg.whereis n = some p → p ∈ st.reg.byPid ∨ Pend st.tasks p) ∧
    (st.reg.byName.map (·.1)).Nodup ∧
    (∀ t, st.holder = some t → (st.tasks t).code = [.checkLive, .claim] ∨ (st.tasks t).code = [.claim]) := by
  intro st
  have hpr' := progs_of_sources hpr
  subst hpr'
  have hi : LockInv st := lockInv_run (lockInv_init h0 calls) sched
  exact ⟨hi.owned, fun n p h => hi.owned n p (nameFind_some_mem h), hi.uniq, fun t h => (hi.held t).mp h⟩

example :
    let st := run (init srcProgs { byPid := [1] } [.register 7 1, .remove 1]) [0, 0, 1, 0]
    st.reg = { byPid := [], byName := [(7, 1)] } ∧ (st.tasks 1).code = [.sweep] ∧ (st.tasks 1).pid = 1 ∧ (st.tasks 0).code = [] ∧
    RegOK { byPid := [1] } := by
  refine ⟨by decide, by decide, by decide, by decide, ?_, by decide⟩
  intro n p h; cases h

/-- **at quiescence (every task has returned) every registered name's owner is in the registry**: names never outlive
their processes, at lock granularity, for the lock order the source has, whatever the tasks and the schedule. -/
theorem C18_names_never_outlive_processes_at_lock_granularity (pr : Progs)
    (hpr : progsOf Gen.REGISTRY_REGISTER_EVENTS Gen.REGISTRY_REMOVE_EVENTS Gen.REGISTRY_UNREGISTER_EVENTS
      Gen.REGISTRY_WHEREIS_EVENTS = some pr)
    (r0 : Reg) (h0 : RegOK r0) (calls : List Call) (sched : List Tid) :
    let st := run (init pr r0 calls) sched
    Quiescent st → st.holder = none ∧ ∀ n p, st.reg.whereis n = some p → p ∈ st.reg.byPid := by
  intro st hq
  have hpr' := progs_of_sources hpr
  subst hpr'
  have hi : LockInv st := lockInv_run (lockInv_init h0 calls) sched
  refine ⟨quiescent_holder hi hq, ?_⟩
  intro n p h
  rcases hi.owned n p (nameFind_some_mem h) with h1 | ⟨t, h1, _⟩
  · exact h1
  · rw [hq t] at h1; cases h1

/-- a spawn and a registration that have both returned: the name's owner is in the registry -/
example :
    let st := run (init srcProgs {} [.insert 1, .register 7 1]) [1, 0, 1, 1]
    Quiescent st ∧ st.reg.whereis 7 = some 1 ∧ 1 ∈ st.reg.byPid ∧ st.holder = none := by
  refine ⟨?_, by decide, by decide, by decide⟩
  intro t
  match t with
  | 0 => decide
  | 1 => decide
  | n + 2 => rfl

/-- and a name whose owner was removed can be registered again: at quiescence a registration for a process of the registry
is refused as taken only when the name belongs to a process that IS in the registry -/
theorem C18_name_of_a_removed_process_can_be_registered_again (pr : Progs)
    (hpr : progsOf Gen.REGISTRY_REGISTER_EVENTS Gen.REGISTRY_REMOVE_EVENTS Gen.REGISTRY_UNREGISTER_EVENTS
      Gen.REGISTRY_WHEREIS_EVENTS = some pr)
    (r0 : Reg) (h0 : RegOK r0) (calls : List Call) (sched : List Tid) (n : Name) (q : Pid) :
    let st := run (init pr r0 calls) sched
    Quiescent st → q ∈ st.reg.byPid →
      (st.reg.register n q).2 = .ok ∨ ∃ p, st.reg.whereis n = some p ∧ p ∈ st.reg.byPid := by
  intro st hq hm
  cases hf : nameFind n st.reg.byName with
  | none => left; simp [Reg.register, hm, hf]
  | some p =>
    right
    exact ⟨p, hf, (C18_names_never_outlive_processes_at_lock_granularity pr hpr r0 h0 calls sched hq).2 n p hf⟩

/-- a process registers a name, terminates while another registration for it is in flight, and the name is free for the next
process: spawn 1, register 7 -> 1 racing remove 1 (the remove drops 1 between the check and the claim and has to wait for the
names with its sweep), then spawn 2 and register 7 -> 2: Ok -/
example :
    let st := run (init srcProgs {} [.insert 1, .register 7 1, .remove 1, .insert 2, .register 7 2])
      [0, 1, 1, 2, 2, 1, 2, 3, 4, 4, 4]
    Quiescent st ∧ st.reg = { byPid := [2], byName := [(7, 2)] } ∧ (st.tasks 1).res = some .ok ∧ (st.tasks 4).res = some .ok ∧
    RegOK {} := by
  refine ⟨?_, by decide, by decide, by decide, ?_, by decide⟩
  · intro t
    match t with
    | 0 => decide
    | 1 => decide
    | 2 => decide
    | 3 => decide
    | 4 => decide
    | n + 5 => rfl
  · intro n p h; cases h

/-- **the registry is linearizable at lock granularity**: every finished history of the lock-granularity model has the same
final tables and the same answers as a sequential order of the atomic operations of `Procs.Reg` — the order `lin`, in which
`register` stands where it read `by_pid` under the names lock (its claim or refusal is decided there: nothing can touch the
names until it releases them), `remove` stands with its drop (for `by_pid`) and with its sweep (for `by_name`), as the exit
path of Impl/Procs.lean has it, and the one-statement functions stand at their statement. `lin` holds, for every task, exactly
the operations of its call in program order, each entered during a step of that task (so between its call and its return),
every answer a task returned is the answer of one of its operations in that order, and every call has returned one. -/
theorem C18_registry_is_linearizable_at_lock_granularity (pr : Progs)
    (hpr : progsOf Gen.REGISTRY_REGISTER_EVENTS Gen.REGISTRY_REMOVE_EVENTS Gen.REGISTRY_UNREGISTER_EVENTS
      Gen.REGISTRY_WHEREIS_EVENTS = some pr)
    (r0 : Reg) (h0 : RegOK r0) (calls : List Call) (sched : List Tid) :
    let st := run (init pr r0 calls) sched
    Quiescent st →
      replay r0 (st.lin.map (·.2.1)) = (st.reg, st.lin.map (·.2.2)) ∧
      (∀ t, doneOps st t = callOps calls t) ∧
      (∀ t r, (st.tasks t).res = some r → ∃ op, (t, op, r) ∈ st.lin) ∧
      (∀ t, t < calls.length → (st.tasks t).res ≠ none) := by
  intro st hq
  have hpr' := progs_of_sources hpr
  subst hpr'
  have hl : LockInv st := lockInv_run (lockInv_init h0 calls) sched
  have hi : LinInv r0 st := linInv_run (lockInv_init h0 calls) (linInv_init _ r0 calls) sched
  have hp : ProgOrder (callOps calls) st := progOrder_run (progOrder_init r0 calls) sched
  have hr : Returned calls.length st := returned_run (lockInv_init h0 calls) (returned_init r0 calls) sched
  refine ⟨?_, ?_, hi.answered, fun t ht => hr t ht (hq t)⟩
  · have := hi.sim
    rw [quiescent_holder hl hq] at this
    simpa [absN] using this
  · intro t
    have := hp t
    simpa [Task.opsLeft, hq t] using this

/-- the race of the seeded change, on the source's order: the remove drops the process between the check and the claim; the
history is the sequential order register, drop, sweep, with the answers Ok, Ok, Ok and an empty registry at the end -/
example :
    let st := run (init srcProgs { byPid := [1] } [.register 7 1, .remove 1]) [0, 0, 1, 1, 0, 1]
    Quiescent st ∧ st.lin = [(0, .register 7 1, .ok), (1, .drop 1, .ok), (1, .sweep 1, .ok)] ∧ st.reg = {} ∧
    replay { byPid := [1] } (st.lin.map (·.2.1)) = (st.reg, st.lin.map (·.2.2)) := by
  refine ⟨?_, by decide, by decide, by decide⟩
  intro t
  match t with
  | 0 => decide
  | 1 => decide
  | n + 2 => rfl

/-- the two halves of a `remove` with a `register` between them are ONE atomic `remove` before or after that `register`
(same tables, same answer): so a `register` racing a `remove` is linearizable to the atomic operations `Reg.register` /
`Reg.remove` of Impl/Procs.lean themselves. (A register before the drop or after the sweep is that already.) -/
theorem C18_remove_halves_around_a_register_are_one_remove (r : Reg) (n : Name) (p q : Pid) :
    let mid := (AOp.apply (AOp.apply r (.drop q)).1 (.register n p))
    let fin := ((AOp.apply mid.1 (.sweep q)).1, mid.2)
    fin = (r.remove q).register n p ∨ fin = (((r.register n p).1.remove q), (r.register n p).2) := by
  intro mid fin
  by_cases hpq : p = q
  · left
    subst hpq
    simp [fin, mid, AOp.apply, Reg.register, Reg.remove]
  · right
    by_cases hm : p ∈ r.byPid
    · cases hf : nameFind n r.byName with
      | none => simp [fin, mid, AOp.apply, Reg.register, Reg.remove, hm, hpq, hf, nameSweep, List.filter_append]
      | some w => simp [fin, mid, AOp.apply, Reg.register, Reg.remove, hm, hpq, hf]
    · simp [fin, mid, AOp.apply, Reg.register, Reg.remove, hm, hpq]

example : (AOp.apply (AOp.apply (AOp.apply { byPid := [1], byName := [] } (.drop 1)).1 (.register 7 1)).1 (.sweep 1)).1
    = (({ byPid := [1], byName := [] } : Reg).remove 1) := by decide

/-- **one `register` racing one `remove` is one atomic `Reg.register` and one atomic `Reg.remove` in some order**: for every
schedule of the two tasks at lock granularity, the final tables and the answer of the `register` are those of
`remove; register` or those of `register; remove` on the sequential registry of Impl/Procs.lean. -/
theorem C18_register_racing_remove_is_atomic (pr : Progs)
    (hpr : progsOf Gen.REGISTRY_REGISTER_EVENTS Gen.REGISTRY_REMOVE_EVENTS Gen.REGISTRY_UNREGISTER_EVENTS
      Gen.REGISTRY_WHEREIS_EVENTS = some pr)
    (r0 : Reg) (h0 : RegOK r0) (n : Name) (p q : Pid) (sched : List Tid) :
    let st := run (init pr r0 [.register n p, .remove q]) sched
    Quiescent st → ∃ r, (st.tasks 0).res = some r ∧
      ((st.reg, r) = (r0.remove q).register n p ∨ (st.reg, r) = ((r0.register n p).1.remove q, (r0.register n p).2)) := by
  intro st hq
  obtain ⟨hsim, hops, hans, hret⟩ := C18_registry_is_linearizable_at_lock_granularity pr hpr r0 h0 _ sched hq
  obtain ⟨r, hr⟩ := Option.ne_none_iff_exists'.mp (hret 0 (by simp))
  refine ⟨r, hr, ?_⟩
  have h2 : ∀ t, 2 ≤ t → (st.lin.filter (fun e => e.1 = t)) = [] := by
    intro t ht
    have := hops t
    have hnone : ([Call.register n p, Call.remove q] : List Call)[t]? = none := by
      match t, ht with
      | t + 2, _ => rfl
    simpa [doneOps, callOps, hnone] using this
  have e0 : (st.lin.filter (fun e => e.1 = 0)).map (·.2.1) = [.register n p] := hops 0
  have e1 : (st.lin.filter (fun e => e.1 = 1)).map (·.2.1) = [.drop q, .sweep q] := hops 1
  obtain ⟨op, hmem⟩ := hans 0 r hr
  obtain ⟨ra, rb, rc, hl | hl | hl⟩ := interleavings_1_2 st.lin _ _ _ h2 e0 e1
  · rw [hl] at hsim hmem
    simp [replay, AOp.apply] at hsim hmem
    right
    rw [hmem.2, ← hsim.1, ← hsim.2.1]
    rfl
  · rw [hl] at hsim hmem
    simp [replay] at hsim hmem
    have := C18_remove_halves_around_a_register_are_one_remove r0 n p q
    simp only at this
    rw [hmem.2, ← hsim.1, ← hsim.2.2.1]
    exact this
  · rw [hl] at hsim hmem
    simp [replay, AOp.apply] at hsim hmem
    left
    rw [hmem.2, ← hsim.1, ← hsim.2.2.2]
    rfl

example :
    let st := run (init srcProgs { byPid := [1] } [.register 7 1, .remove 1]) [0, 0, 1, 1, 0, 1]
    (st.tasks 0).res = some .ok ∧
    (st.reg, Res.ok) = ((({ byPid := [1] } : Reg).register 7 1).1.remove 1, (({ byPid := [1] } : Reg).register 7 1).2) := by decide

/-- **the negative witness**: with the liveness check in FRONT of the names lock (the seeded order, read by the same
interpreter and run by the same step function) there is a schedule of one `register` racing one `remove` after which every
task has returned, nobody holds the names, and a name is owned by a pid that is not in `by_pid` — with no remove left to
sweep it. The check finds the process, the whole remove runs, then the name is claimed. -/
theorem C18_check_before_lock_loses_the_invariant :
    ∃ pr, progsOf ["temp:by_pid.read", "check-live", "hold:by_name.write", "claim-name"] Gen.REGISTRY_REMOVE_EVENTS
      Gen.REGISTRY_UNREGISTER_EVENTS Gen.REGISTRY_WHEREIS_EVENTS = some pr ∧
    ∃ sched : List Tid,
      let st := run (init pr { byPid := [1] } [.register 7 1, .remove 1]) sched
      RegOK { byPid := [1] } ∧ Quiescent st ∧ st.holder = none ∧
      st.reg.whereis 7 = some 1 ∧ 1 ∉ st.reg.byPid ∧ ¬ Pend st.tasks 1 ∧ (st.tasks 0).res = some .ok := by
  refine ⟨checkFirstProgs, C18_registry_programs_are_the_sources.2.2.2.1, [0, 1, 1, 0, 0], ?_⟩
  have hq : Quiescent (run (init checkFirstProgs { byPid := [1] } [.register 7 1, .remove 1]) [0, 1, 1, 0, 0]) := by
    intro t
    match t with
    | 0 => decide
    | 1 => decide
    | n + 2 => rfl
  refine ⟨⟨?_, by decide⟩, hq, by decide, by decide, by decide, ?_, by decide⟩
  · intro n p h; cases h
  · rintro ⟨t, h1, _⟩
    rw [hq t] at h1; cases h1

/-- the same schedule on the source's order: the remove's sweep waits for the names, the register is refused
(the process is gone when it looks) and nothing is left behind -/
example :
    let st := run (init srcProgs { byPid := [1] } [.register 7 1, .remove 1]) [1, 0, 1, 0, 0, 1]
    st.reg = {} ∧ (st.tasks 0).res = some .noProc ∧ (st.tasks 0).code = [] ∧ (st.tasks 1).code = [] := by decide

end Edp.Props.C18
