//! C12: the term order against Erlang's (Lean `Erl.cmp` on the denoted values is the oracle).
use crate::Ctx;

pub fn run(ctx: &mut Ctx) {
    crate::c11::run_mode(ctx, true)
}
