import EdpVerif.Impl.CmpArms
/-!
The arm-by-arm model of `impl Ord for BorrowedTerm` computes the same result as the arm-by-arm model of
`impl Ord for OwnedTerm`, for every pair of terms and every amount of fuel: the helper copies agree one by one, the
fast path of the owned comparison returns what the main match would, and the loops agree by induction on the fuel.
-/
open Edp Edp.Term
namespace Edp

theorem skipEmptyB_eq (t : Term) : skipEmptyB t = skipEmptyO t := by
  fun_induction skipEmptyB t with
  | case1 t ih => rw [skipEmptyO]; exact ih
  | case2 t h => cases t <;> first | rfl | (rename_i l t'; cases l <;> first | rfl | exact absurd rfl (h _))

theorem rankB_eq (t : Term) : rankB t = rankO t := by cases t <;> rfl

theorem bitPartsB_eq (t : Term) : bitPartsB t = bitPartsO t := by cases t <;> rfl

theorem tailNextB_eq (t : Term) : tailNextB t = tailNextO t := by
  fun_induction tailNextB t <;> simp_all [tailNextO]

theorem nextB_eq (e : List Term) (t : Option Term) : nextB e t = nextO e t := by
  cases e with
  | cons x r => rfl
  | nil => cases t with
    | none => rfl
    | some t => simp [nextB, nextO, tailNextB_eq]

/-- the `discriminant` fast path answers exactly for these five pairs -/
theorem fastO_some {a b : Term} {o : Ordering} (h : fastO a b = some o) :
    (∃ x y, a = .int x ∧ b = .int y ∧ o = compare x y) ∨ (∃ x y, a = .atom x ∧ b = .atom y ∧ o = bytesCmp x y) ∨
    (∃ x y, a = .bin x ∧ b = .bin y ∧ o = bytesCmp x y) ∨ (∃ x y, a = .str x ∧ b = .str y ∧ o = bytesCmp x y) ∨
    (a = .nil ∧ b = .nil ∧ o = .eq) := by
  cases a <;> cases b <;> simp [fastO] at h <;> simp [h]

/-- all five mutually recursive functions agree, by induction on the fuel -/
theorem armsB_eq_armsO (f : Nat) :
    (∀ a b, cmpB f a b = cmpO f a b) ∧
    (∀ ea ta eb tb, cellsLoopB f ea ta eb tb = cellsLoopO f ea ta eb tb) ∧
    (∀ x y, zipLoopB f x y = zipLoopO f x y) ∧
    (∀ x y, keysLoopB f x y = keysLoopO f x y) ∧
    (∀ x y, valsLoopB f x y = valsLoopO f x y) := by
  induction f with
  | zero => refine ⟨?_, ?_, ?_, ?_, ?_⟩ <;> intros <;> simp [cmpB, cmpO, cellsLoopB, cellsLoopO, zipLoopB, zipLoopO,
      keysLoopB, keysLoopO, valsLoopB, valsLoopO]
  | succ f ih =>
    obtain ⟨hc, hcells, hzip, hkeys, hvals⟩ := ih
    refine ⟨?_, ?_, ?_, ?_, ?_⟩
    · intro a0 b0
      rw [cmpB, cmpO]
      simp only [skipEmptyB_eq, rankB_eq]
      generalize skipEmptyO a0 = a
      generalize skipEmptyO b0 = b
      cases hf : fastO a b with
      | none =>
        simp only
        cases compare (rankO a) (rankO b) <;> simp only
        cases a <;> cases b <;> simp only [hzip, hkeys, hvals, hcells, bitPartsB_eq]
      | some o =>
        rcases fastO_some hf with ⟨x, y, rfl, rfl, rfl⟩ | ⟨x, y, rfl, rfl, rfl⟩ | ⟨x, y, rfl, rfl, rfl⟩ |
          ⟨x, y, rfl, rfl, rfl⟩ | ⟨rfl, rfl, rfl⟩ <;> simp [rankO]
    · intro ea ta eb tb
      rw [cellsLoopB, cellsLoopO]
      simp only [nextB_eq, rankB_eq, hc, hcells, listTypeOrderB, listTypeOrderO]
    · intro x y
      cases x <;> cases y <;> simp [zipLoopB, zipLoopO, hc, hzip]
    · intro x y
      cases x <;> cases y <;> simp [keysLoopB, keysLoopO, hc, hkeys]
    · intro x y
      cases x <;> cases y <;> simp [valsLoopB, valsLoopO, hc, hvals]

/-- the zero-copy comparison is the owned comparison, for every pair of terms and every amount of fuel -/
theorem cmpB_eq_cmpO (f : Nat) (a b : Term) : cmpB f a b = cmpO f a b := (armsB_eq_armsO f).1 a b

theorem cmpBorrowed_eq_cmpOwned (a b : Term) : cmpBorrowed a b = cmpOwned a b := cmpB_eq_cmpO _ a b

end Edp
