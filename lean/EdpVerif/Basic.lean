def hello := "world"
