import EdpVerif.Lemmas.ElixirTerms
import EdpVerif.Spec.Elixir
/-!
C20: what a successful `from_term` says about the term (field readers answer with the integer the term holds and
only when it fits the field's type), and the checked constructors against the calendar oracle.
-/
namespace Edp.Ex
open Edp

theorem intIn_some (lo hi : Int) (t : Term) (i : Int) :
    intIn lo hi t = some i ↔ (intOf t = some i ∧ lo ≤ i ∧ i ≤ hi) := by
  unfold intIn
  cases h : intOf t with
  | none => simp
  | some j =>
    simp only [Option.bind_some, Option.some.injEq]
    by_cases hj : lo ≤ j ∧ j ≤ hi
    · simp only [hj, and_self, if_true, Option.some.injEq]
      constructor
      · intro e; subst e; exact ⟨rfl, hj⟩
      · intro e; exact e.1
    · simp only [hj, if_false]
      constructor
      · intro e; cases e
      · rintro ⟨e, h1, h2⟩; subst e; exact absurd ⟨h1, h2⟩ hj

/-- a field reader that answers: the term holds an integer under that key, the answer is that integer, and it fits -/
theorem fldWith_some (lo hi : Int) (m : List (Term × Term)) (k : Bytes) (v : Int)
    (h : fldWith (intIn lo hi) m k = some v) : (fld m k).bind intOf = some v ∧ lo ≤ v ∧ v ≤ hi := by
  unfold fldWith at h
  cases hf : fld m k with
  | none => simp [hf] at h
  | some t =>
    simp only [hf, Option.bind_some] at h ⊢
    exact (intIn_some lo hi t v).mp h

/-- what the `microsecond` reader accepted: a 2-tuple of integers that fit `u32` and `u8`, or — only when the map has no
such entry at all — the default `{0, 0}` -/
def UsFaithful (m : List (Term × Term)) (uv up : Int) : Prop :=
  (∃ a b, fld m kMicrosecond = some (.tuple [a, b]) ∧ intOf a = some uv ∧ intOf b = some up ∧ InU32 uv ∧ InU8 up) ∨
  (fld m kMicrosecond = none ∧ uv = 0 ∧ up = 0)

theorem usPart_some (m : List (Term × Term)) (uv up : Int) (h : usPart m = some (uv, up)) : UsFaithful m uv up := by
  unfold usPart at h
  split at h
  · rename_i hf
    simp only [Option.some.injEq, Prod.mk.injEq] at h
    exact .inr ⟨hf, h.1.symm, h.2.symm⟩
  · rename_i a b hf
    cases h1 : u32In a with
    | none => simp [h1] at h
    | some v =>
      cases h2 : u8In b with
      | none => simp [h1, h2] at h
      | some p =>
        simp only [h1, h2, Option.some.injEq, Prod.mk.injEq] at h
        obtain ⟨rfl, rfl⟩ := h
        have b1 := (intIn_some _ _ _ _).mp h1
        have b2 := (intIn_some _ _ _ _).mp h2
        exact .inl ⟨a, b, hf, b1.1, b2.1, b1.2, b2.2⟩
  · cases h

/-! ### the checked constructors and `Calendar.ISO` -/

theorem tmod_zero_iff_dvd (y n : Int) : (Int.tmod y n == 0) = decide (n ∣ y) := by
  by_cases h : n ∣ y
  · simp [h, Int.tmod_eq_zero_of_dvd h]
  · have : Int.tmod y n ≠ 0 := fun e => h (Int.dvd_of_tmod_eq_zero e)
    simp [h, this]

theorem isLeapYear_spec (y : Int) : isLeapYear y = decide (Spec.Cal.leap y) := by
  unfold isLeapYear Spec.Cal.leap
  have e4 := tmod_zero_iff_dvd y 4
  have e100 := tmod_zero_iff_dvd y 100
  have e400 := tmod_zero_iff_dvd y 400
  rw [bne, e4, e100, e400]
  by_cases h4 : (4 : Int) ∣ y <;> by_cases h100 : (100 : Int) ∣ y <;> by_cases h400 : (400 : Int) ∣ y <;> simp [h4, h100, h400]

theorem day_check {α : Type} (d n : Int) (x : α) :
    (if d < 1 ∨ n < d then none else some x) = if 1 ≤ d ∧ d ≤ n then some x else none := by
  by_cases h : 1 ≤ d ∧ d ≤ n
  · have : ¬ (d < 1 ∨ n < d) := by omega
    simp [h, this]
  · have : d < 1 ∨ n < d := by omega
    simp [h, this]

/-- `try_new` accepts exactly the dates of the proleptic Gregorian calendar, with the fields it was given -/
theorem date_tryNew_spec (y mo d : Int) :
    Date.tryNew y mo d = if Spec.Cal.validDate y mo d then some ⟨y, mo, d⟩ else none := by
  unfold Date.tryNew Spec.Cal.validDate Spec.Cal.daysIn maxDay Gen.C20_MONTH_LO Gen.C20_MONTH_HI
  rw [isLeapYear_spec]
  by_cases hl : Spec.Cal.leap y
  · simp only [hl, decide_true, if_true]
    by_cases h1 : 1 ≤ mo ∧ mo ≤ 12
    · obtain ⟨ha, hb⟩ := h1
      have : mo = 1 ∨ mo = 2 ∨ mo = 3 ∨ mo = 4 ∨ mo = 5 ∨ mo = 6 ∨ mo = 7 ∨ mo = 8 ∨ mo = 9 ∨ mo = 10 ∨ mo = 11 ∨ mo = 12 := by
        omega
      rcases this with rfl | rfl | rfl | rfl | rfl | rfl | rfl | rfl | rfl | rfl | rfl | rfl <;> simp <;>
        exact day_check _ _ _
    · have : ¬ (1 ≤ mo ∧ mo ≤ 12 ∧ 1 ≤ d ∧ d ≤ (if mo = 2 then 29 else if mo = 4 ∨ mo = 6 ∨ mo = 9 ∨ mo = 11 then 30 else 31)) :=
        fun h => h1 ⟨h.1, h.2.1⟩
      simp [h1, this]
  · simp only [hl, decide_false, Bool.false_eq_true, if_false]
    by_cases h1 : 1 ≤ mo ∧ mo ≤ 12
    · obtain ⟨ha, hb⟩ := h1
      have : mo = 1 ∨ mo = 2 ∨ mo = 3 ∨ mo = 4 ∨ mo = 5 ∨ mo = 6 ∨ mo = 7 ∨ mo = 8 ∨ mo = 9 ∨ mo = 10 ∨ mo = 11 ∨ mo = 12 := by
        omega
      rcases this with rfl | rfl | rfl | rfl | rfl | rfl | rfl | rfl | rfl | rfl | rfl | rfl <;> simp <;>
        exact day_check _ _ _
    · have : ¬ (1 ≤ mo ∧ mo ≤ 12 ∧ 1 ≤ d ∧ d ≤ (if mo = 2 then 28 else if mo = 4 ∨ mo = 6 ∨ mo = 9 ∨ mo = 11 then 30 else 31)) :=
        fun h => h1 ⟨h.1, h.2.1⟩
      simp [h1, this]

/-- `ElixirTime::try_new` on arguments of its parameter types (`u8`, `u32`): exactly the valid times -/
theorem time_tryNew_spec (h mi s us p : Int) (h0 : 0 ≤ h) (m0 : 0 ≤ mi) (s0 : 0 ≤ s) (u0 : 0 ≤ us) (p0 : 0 ≤ p) :
    Time.tryNew h mi s us p = if Spec.Cal.validTime h mi s us p then some ⟨h, mi, s, us, p⟩ else none := by
  unfold Time.tryNew Spec.Cal.validTime Gen.C20_HOUR Gen.C20_MINUTE Gen.C20_SECOND Gen.C20_MICRO Gen.C20_PRECISION
  by_cases c1 : h > 23 ∨ mi > 59 ∨ s > 59
  · have : ¬ (0 ≤ h ∧ h ≤ 23 ∧ 0 ≤ mi ∧ mi ≤ 59 ∧ 0 ≤ s ∧ s ≤ 59 ∧ 0 ≤ us ∧ us ≤ 999999 ∧ 0 ≤ p ∧ p ≤ 6) := by omega
    simp [c1, this]
  · by_cases c2 : us > 999999
    · have : ¬ (0 ≤ h ∧ h ≤ 23 ∧ 0 ≤ mi ∧ mi ≤ 59 ∧ 0 ≤ s ∧ s ≤ 59 ∧ 0 ≤ us ∧ us ≤ 999999 ∧ 0 ≤ p ∧ p ≤ 6) := by omega
      simp [c1, c2, this]
    · by_cases c3 : p > 6
      · have : ¬ (0 ≤ h ∧ h ≤ 23 ∧ 0 ≤ mi ∧ mi ≤ 59 ∧ 0 ≤ s ∧ s ≤ 59 ∧ 0 ≤ us ∧ us ≤ 999999 ∧ 0 ≤ p ∧ p ≤ 6) := by omega
        simp [c1, c2, c3, this]
      · have : (0 ≤ h ∧ h ≤ 23 ∧ 0 ≤ mi ∧ mi ≤ 59 ∧ 0 ≤ s ∧ s ≤ 59 ∧ 0 ≤ us ∧ us ≤ 999999 ∧ 0 ≤ p ∧ p ≤ 6) := by omega
        simp [c1, c2, c3, this]

end Edp.Ex
