import EdpVerif.Impl.Encode
import EdpVerif.Impl.Decode
/-! Reader/writer lemmas used by the codec round-trip proofs (C01, C10). -/
namespace Edp

/-- big-endian value of a byte string -/
def beVal : Bytes → Nat
  | [] => 0
  | b :: r => b.toNat * 256 ^ r.length + beVal r

theorem rdN_append (a r : Bytes) : rdN a.length (a ++ r) = some (beVal a, r) := by
  induction a with
  | nil => simp [rdN, beVal]
  | cons b a ih => simp [rdN, ih, beVal]

theorem rdN_of_length (k : Nat) (a r : Bytes) (h : a.length = k) : rdN k (a ++ r) = some (beVal a, r) := by
  subst h; exact rdN_append a r

@[simp] theorem rdU_beN (k n : Nat) (r : Bytes) (h : n < 256 ^ k) : rdU k (beN k n ++ r) = .ok (n, r) := by
  simp [rdU, rdN_beN k n r h]

theorem rdU_be8 (n : Nat) (r : Bytes) (h : n < 256) : rdU 1 (be8 n ++ r) = .ok (n, r) := rdU_beN 1 n r (by simpa using h)
theorem rdU_be16 (n : Nat) (r : Bytes) (h : n < 65536) : rdU 2 (be16 n ++ r) = .ok (n, r) := rdU_beN 2 n r (by simpa using h)
theorem rdU_be32 (n : Nat) (r : Bytes) (h : n < 4294967296) : rdU 4 (be32 n ++ r) = .ok (n, r) := rdU_beN 4 n r (by simpa using h)
theorem rdU_be64 (n : Nat) (r : Bytes) (h : n < 18446744073709551616) : rdU 8 (be64 n ++ r) = .ok (n, r) :=
  rdU_beN 8 n r (by simpa using h)

theorem rdU_of_length (k : Nat) (a r : Bytes) (h : a.length = k) : rdU k (a ++ r) = .ok (beVal a, r) := by
  simp [rdU, rdN_of_length k a r h]

@[simp] theorem takeE_append (a r : Bytes) : takeE a.length (a ++ r) = .ok (a, r) := by
  simp [takeE, takeN_append]

theorem takeE_of_length (n : Nat) (a r : Bytes) (h : a.length = n) : takeE n (a ++ r) = .ok (a, r) := by
  subst h; exact takeE_append a r

/-- a single byte written with `UInt8.ofNat` reads back -/
theorem rdU_byte (n : Nat) (r : Bytes) (h : n < 256) : rdU 1 (UInt8.ofNat n :: r) = .ok (n, r) := by
  have := rdU_be8 n r h
  simpa [be8, beN] using this

end Edp
