import EdpVerif.Drv.Common
import EdpVerif.Impl.Convert
namespace Edp.Drv
open Edp

/-- driver requests of property C10 (and of the conversion clause of C13) -/
def handleC10 : List String → Option String
  -- tie: a sequence of clone / to-owned / from-owned conversions (`c` clone, `v` via BorrowedTerm, `w` via a cloned BorrowedTerm, `m` move)
  | ["c10conv", t, ops] => some <| match getTerm t with
    | .ok t => (applyConvs (convsOfText ops) t).text
    | .error e => "bad-op " ++ e
  -- tie: `BorrowedTerm::from(&t)`: the tree (its structural text) and the ownership flag of every `Cow` in pre-order
  | ["c10from", t] => some <| match getTerm t with
    | .ok t => let b := fromOwned t; (erase b).text ++ " " ++ flagsText (flagsOf b)
    | .error e => "bad-op " ++ e
  -- tie: `to_owned` of the tree the harness describes (structural text + flags)
  | ["c10own", t, fl] => some <| match getTerm t with
    | .ok t => (toOwned (tagWith t (flagsOfText fl)).1).text
    | .error e => "bad-op " ++ e
  -- tie: `is_borrowed` of that tree
  | ["c10isb", t, fl] => some <| match getTerm t with
    | .ok t => toString (isBorrowed (tagWith t (flagsOfText fl)).1)
    | .error e => "bad-op " ++ e
  -- oracle: the bytes of the identifier as received occur, as one block, in what was written
  | ["c10occurs", span, out] => some <| match getHex span, getHex out with
    | .ok s, .ok o => if occursIn s o then "ok" else "FAIL the received identifier bytes do not occur in the output"
    | _, _ => "bad-op bad-hex"
  -- oracle: `is_borrowed` says whether some `Cow` of the tree is borrowed (read off the flags, no model involved)
  | ["c10cow", fl, isb] => some <|
    if (fl.toList.contains 'b') == (isb == "true") then "ok" else "FAIL is_borrowed = " ++ isb ++ " on a tree with ownership flags " ++ fl
  | _ => none

end Edp.Drv
