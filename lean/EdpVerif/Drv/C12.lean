import EdpVerif.Drv.Common
namespace Edp.Drv

/-- driver requests of property C12 (stub: nothing handled yet) -/
def handleC12 : List String → Option String
  | _ => none

end Edp.Drv
