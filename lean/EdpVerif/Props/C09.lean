import EdpVerif.Generated.MiscC09
import EdpVerif.Generated.MiscState
import EdpVerif.Lemmas.Frag
import EdpVerif.Generated.Tags
/-
C09 — fragment reassembly returns the original message once, in any arrival order.
Property theorems only; the model is EdpVerif/Impl/Frag.lean, the protocol's splitting EdpVerif/Spec/Frag.lean,
helper lemmas and the vocabulary (`fragOp`, `Delivers`, `cnt`, `proj`, `Unexpiring`, `WF`) EdpVerif/Lemmas/Frag.lean.
-/
namespace Edp.Props.C09
open Edp Edp.Frag Edp.Spec.Frag

/-- DEFECT (negation of the full-strength property): a two-fragment message delivered in the protocol's own order is
returned with its pieces swapped — `reassemble` concatenates by ascending fragment id, the protocol by descending. -/
theorem C09_not_any_order :
    ∃ (msg : Bytes) (lens : List Nat) (t : Nat),
      (Assembler.new t).outs ((split 1 none msg lens).map (fragOp 0)) = [none, some [2, 1]] ∧
      expected none msg = [1, 2] :=
  ⟨[1, 2], [1], 0, by decide⟩

/-- EXACTLY ONCE, ANY ORDER, ANY DUPLICATION, ANY INTERLEAVING (bug-for-bug in the order of the pieces).
`ps` are the pieces of a message of sequence `q` (any message, any number of pieces up to the vector limit, any cut);
the events `pre ++ l :: post` are arbitrary except that those of sequence `q` deliver fragments of the protocol's split
(in any order, any number of times), `l` is the arrival of the last missing fragment, and no complete second round follows.
Then the assembler returns nothing at `q`'s events before `l`, the pieces in ASCENDING id at `l`, nothing afterwards,
and holds an entry for `q` afterwards only if a late duplicate arrived. -/
theorem C09_ascending_any_order (a : Assembler) (hw : WF a.pending) (q : Nat) (h0 : lookup q a.pending = none)
    (cache : Option Bytes) (ps : List Bytes) (hne : ps ≠ []) (hlim : ps.length ≤ MAX_FRAGMENT_COUNT)
    (pre post : List Op) (l : Op)
    (hconf : ∀ o ∈ pre ++ l :: post, o.seq = some q → Delivers q cache ps o)
    (hexp : Unexpiring a.timeout (pre ++ l :: post))
    (hl : l.seq = some q)
    (hmiss : ∀ o ∈ pre, o.seq = some q → Op.fid o ≠ Op.fid l)
    (hall : ∀ k, 1 ≤ k → k ≤ ps.length → k ≠ Op.fid l → ∃ o ∈ pre, o.seq = some q ∧ Op.fid o = k)
    (hpost : ∃ k, 1 ≤ k ∧ k ≤ ps.length ∧ ∀ o ∈ post, o.seq = some q → Op.fid o ≠ k) :
    a.outsFor q (pre ++ l :: post) =
      List.replicate (cnt q pre) none ++ some (cache.getD [] ++ ps.reverse.flatten) :: List.replicate (cnt q post) none ∧
    (lookup q (a.after (pre ++ l :: post)).pending = none ↔ cnt q post = 0) := by
  have hn : 1 ≤ ps.reverse.length := by
    cases ps with
    | nil => exact absurd rfl hne
    | cons p r => simp
  have hv : ps.reverse.length ≤ MAX_FRAGMENT_COUNT := by simpa using hlim
  obtain ⟨e1, e2⟩ := after_outs_proj q (pre ++ l :: post) a hw
  rw [h0] at e1 e2
  have hproj : proj q (pre ++ l :: post) = proj q pre ++ l :: proj q post := by
    rw [proj_append, proj_cons_self hl]
  have hlF : IsFrag ps.reverse q cache l := isFrag_of_delivers (hconf l (by simp) hl)
  have hpreC := conf_of_proj (X := pre) (t := a.timeout) (fun o ho => hconf o (by simp [ho]))
    (fun now h => hexp now (by simp [h]))
  have hpostC := conf_of_proj (X := post) (t := a.timeout) (fun o ho => hconf o (by simp [ho]))
    (fun now h => hexp now (by simp [h]))
  have hrange := isFrag_fid_range hn hlF
  have hmissQ : ¬ Full ps.reverse (fidsOf (proj q pre)).reverse := by
    intro hf
    have := hf (Op.fid l - 1) (by omega)
    have e : Op.fid l - 1 + 1 = Op.fid l := by omega
    rw [e, List.mem_reverse, mem_fidsOf_proj] at this
    obtain ⟨o, ho, hs, hk⟩ := this
    exact hmiss o ho hs hk
  have hfullQ : Full ps.reverse (Op.fid l :: (fidsOf (proj q pre)).reverse) := by
    intro i hi
    by_cases hk : i + 1 = Op.fid l
    · simp [hk]
    · refine List.mem_cons_of_mem _ ?_
      rw [List.mem_reverse, mem_fidsOf_proj]
      exact hall (i + 1) (by omega) (by simp at hi; omega) hk
  have hagainQ : ¬ Full ps.reverse (fidsOf (proj q post)).reverse := by
    obtain ⟨k, k1, k2, hk⟩ := hpost
    intro hf
    have := hf (k - 1) (by simp; omega)
    have e : k - 1 + 1 = k := by omega
    rw [e, List.mem_reverse, mem_fidsOf_proj] at this
    obtain ⟨o, ho, hs, hk'⟩ := this
    exact hk o ho hs hk'
  obtain ⟨r1, r2⟩ := run_complete (t := a.timeout) hn hv (proj q pre) (proj q post) l hpreC hlF hpostC hmissQ hfullQ hagainQ
  constructor
  · rw [e2, hproj, r1]
    simp only [List.map_const', length_fidsOf_proj, ascending]
  · rw [e1, hproj, good_none_iff r2, List.reverse_eq_nil_iff, ← length_fidsOf_proj, List.length_eq_zero_iff]

/-- non-vacuity: header first, then the continuation -/
example :
    (Assembler.new 100).outsFor 1 ([Op.start 0 1 2 none [1]] ++ Op.add 1 1 1 [2] :: []) =
      List.replicate (cnt 1 [Op.start 0 1 2 none [1]]) none ++ some ((none : Option Bytes).getD [] ++ [[1], [2]].reverse.flatten) ::
        List.replicate (cnt 1 []) none :=
  And.left <| C09_ascending_any_order (Assembler.new 100) (by simp [WF, Assembler.new]) 1 rfl none [[1], [2]] (by simp) (by decide)
    [Op.start 0 1 2 none [1]] [] (Op.add 1 1 1 [2])
    (by
      intro o ho _
      simp only [List.cons_append, List.nil_append, List.mem_cons, List.not_mem_nil, or_false] at ho
      rcases ho with rfl | rfl
      · exact ⟨0, ⟨1, 2, true, none, [1]⟩, by decide, rfl⟩
      · exact ⟨1, ⟨1, 1, false, none, [2]⟩, by decide, rfl⟩)
    (by intro now h; simp at h)
    rfl
    (by intro o ho _; simp at ho; subst ho; simp [Op.fid])
    (by
      intro k h1 h2 h3
      simp only [Op.fid, List.length_cons, List.length_nil] at h2 h3
      exact ⟨_, List.mem_cons_self, rfl, by simp only [Op.fid]; omega⟩)
    ⟨1, by decide, by decide, by simp⟩

/-- ANY ARRIVAL PERMUTATION (the same, with the arrival order given as a `List.Perm`): if the fragments that the events of
sequence `q` carry are, in some order, exactly the protocol's split of the pieces `ps` — each once —, then whatever else is
interleaved the assembler returns nothing at the first `n - 1` of them and the pieces in ASCENDING id at the last. -/
theorem C09_ascending_perm (a : Assembler) (hw : WF a.pending) (q : Nat) (h0 : lookup q a.pending = none)
    (cache : Option Bytes) (ps : List Bytes) (hne : ps ≠ []) (hlim : ps.length ≤ MAX_FRAGMENT_COUNT)
    (ops : List Op) (hexp : Unexpiring a.timeout ops)
    (hperm : ((ops.filter (fun o => o.seq == some q)).filterMap Op.toFrag).Perm (number q cache ps)) :
    a.outsFor q ops = List.replicate (ps.length - 1) none ++ [some (cache.getD [] ++ ps.reverse.flatten)] := by
  have hnlen : (number q cache ps).length = ps.length := by simp [number]
  have hpos : 1 ≤ ps.length := by
    cases ps with
    | nil => exact absurd rfl hne
    | cons p r => simp
  -- there is an event of `q`; split at the last one
  have hex : ∃ x ∈ ops, (fun o : Op => o.seq == some q) x = true := by
    obtain ⟨f, hf, _⟩ := number_has_fid q cache ps 1 (Nat.le_refl _) hpos
    have := (hperm.mem_iff).mpr hf
    obtain ⟨o, ho, _⟩ := List.mem_filterMap.mp this
    obtain ⟨ho1, ho2⟩ := List.mem_filter.mp ho
    exact ⟨o, ho1, ho2⟩
  obtain ⟨pre, l, post, rfl, hlp, hpostp⟩ := exists_last _ ops hex
  have hl : l.seq = some q := by simpa using hlp
  have hpostq : ∀ o ∈ post, o.seq ≠ some q := by
    intro o ho; simpa using hpostp o ho
  have hfpost : post.filter (fun o => o.seq == some q) = [] := by
    apply List.filter_eq_nil_iff.mpr
    intro o ho; simpa using hpostp o ho
  have hQ : (pre ++ l :: post).filter (fun o => o.seq == some q) = pre.filter (fun o => o.seq == some q) ++ [l] := by
    simp [hl, hfpost]
  rw [hQ] at hperm
  have hallq : ∀ o ∈ pre.filter (fun o => o.seq == some q) ++ [l], o.seq = some q := by
    intro o ho
    rcases List.mem_append.mp ho with h | h
    · simpa using (List.mem_filter.mp h).2
    · simp at h; subst h; exact hl
  have hfids := fids_filterMap q _ hallq
  have hnd : ((pre.filter (fun o => o.seq == some q) ++ [l]).map Op.fid).Nodup := by
    rw [← hfids]
    exact ((hperm.map (·.fid)).nodup_iff).mpr (number_fids_nodup q cache ps)
  have hlen : (pre.filter (fun o => o.seq == some q)).length + 1 = ps.length := by
    have := hperm.length_eq
    rw [hnlen] at this
    rw [← this]
    have : ((pre.filter (fun o => o.seq == some q) ++ [l]).filterMap Op.toFrag).length =
        ((pre.filter (fun o => o.seq == some q) ++ [l]).map Op.fid).length := by rw [← hfids]; simp
    rw [this]; simp
  have hmem : ∀ o ∈ pre.filter (fun o => o.seq == some q) ++ [l], Delivers q cache ps o := by
    intro o ho
    obtain ⟨f, hf⟩ := toFrag_isSome (hallq o ho)
    obtain ⟨now, hnow⟩ := (fragOp_of_toFrag hf).1
    exact ⟨now, f, (hperm.mem_iff).mp (List.mem_filterMap.mpr ⟨o, ho, hf⟩), hnow⟩
  have main := (C09_ascending_any_order a hw q h0 cache ps hne hlim pre post l
    (by
      intro o ho hs
      rcases List.mem_append.mp ho with h | h
      · exact hmem o (List.mem_append_left _ (List.mem_filter.mpr ⟨h, by simp [hs]⟩))
      · rcases List.mem_cons.mp h with rfl | h
        · exact hmem o (by simp)
        · exact absurd hs (hpostq o h))
    hexp hl
    (by
      intro o ho hs he
      rw [List.map_append, List.nodup_append] at hnd
      exact hnd.2.2 (Op.fid o) (List.mem_map.mpr ⟨o, List.mem_filter.mpr ⟨ho, by simp [hs]⟩, rfl⟩) (Op.fid l) (by simp) he)
    (by
      intro k k1 k2 hk
      obtain ⟨f, hf, hfk⟩ := number_has_fid q cache ps k k1 k2
      obtain ⟨o, ho, hof⟩ := List.mem_filterMap.mp ((hperm.mem_iff).mpr hf)
      have hfo := (fragOp_of_toFrag hof).2
      rcases List.mem_append.mp ho with h | h
      · obtain ⟨h1, h2⟩ := List.mem_filter.mp h
        exact ⟨o, h1, by simpa using h2, by rw [← hfo, hfk]⟩
      · simp at h; subst h
        exact absurd (by rw [← hfo, hfk]) hk)
    ⟨1, Nat.le_refl _, hpos, fun o ho hs => absurd hs (hpostq o ho)⟩).1
  rw [main]
  have c1 : cnt q pre = ps.length - 1 := by
    simp only [cnt, List.countP_eq_length_filter]; omega
  have c2 : cnt q post = 0 := by
    simp only [cnt, List.countP_eq_length_filter, hfpost, List.length_nil]
  rw [c1, c2]; rfl

/-- non-vacuity: the continuation before the header, a foreign sequence in between -/
example : (([Op.add 0 1 1 [2], Op.add 1 9 4 [7], Op.start 2 1 2 none [1]].filter (fun o => o.seq == some 1)).filterMap
    Op.toFrag).Perm (number 1 none [[1], [2]]) := by decide

/-- THE PROPERTY, PARTIAL: with the guard that the pieces read the same in ascending and in descending id order (one piece,
or at most one non-empty piece, or a palindromic cut) the assembler returns THE ORIGINAL MESSAGE (after the atom-cache
section) exactly once, at the arrival of the last missing fragment, for any arrival order, duplication and interleaving.
`Delivers q cache (cut msg lens) o` says that `o` delivers a fragment of `split q cache msg lens`. -/
theorem C09_any_order_partial (a : Assembler) (hw : WF a.pending) (q : Nat) (h0 : lookup q a.pending = none)
    (cache : Option Bytes) (msg : Bytes) (lens : List Nat) (hlim : lens.length + 1 ≤ MAX_FRAGMENT_COUNT)
    (guard : (cut msg lens).reverse.flatten = msg)
    (pre post : List Op) (l : Op)
    (hconf : ∀ o ∈ pre ++ l :: post, o.seq = some q → Delivers q cache (cut msg lens) o)
    (hexp : Unexpiring a.timeout (pre ++ l :: post))
    (hl : l.seq = some q)
    (hmiss : ∀ o ∈ pre, o.seq = some q → Op.fid o ≠ Op.fid l)
    (hall : ∀ k, 1 ≤ k → k ≤ lens.length + 1 → k ≠ Op.fid l → ∃ o ∈ pre, o.seq = some q ∧ Op.fid o = k)
    (hpost : ∃ k, 1 ≤ k ∧ k ≤ lens.length + 1 ∧ ∀ o ∈ post, o.seq = some q → Op.fid o ≠ k) :
    a.outsFor q (pre ++ l :: post) =
      List.replicate (cnt q pre) none ++ some (expected cache msg) :: List.replicate (cnt q post) none := by
  have hlen := cut_length msg lens
  have hne : cut msg lens ≠ [] := by
    intro e; rw [e] at hlen; simp at hlen
  have := (C09_ascending_any_order a hw q h0 cache (cut msg lens) hne (by omega) pre post l hconf hexp hl hmiss
    (by rw [hlen]; exact hall) (by rw [hlen]; exact hpost)).1
  rw [this, guard, expected]

/-- non-vacuity of the guard: a one-fragment message, and a two-fragment message whose first piece is empty -/
example : (cut [1, 2, 3] []).reverse.flatten = [1, 2, 3] ∧ (cut [1, 2, 3] [0]).reverse.flatten = [1, 2, 3] := by decide

/-- NOTHING FOR AN INCOMPLETE SEQUENCE: while some fragment id of `q` has not arrived, nothing is returned at `q`'s events
(whatever their order and multiplicity, whatever is interleaved), and `q` is held iff something of it has arrived. -/
theorem C09_incomplete_returns_nothing (a : Assembler) (hw : WF a.pending) (q : Nat) (h0 : lookup q a.pending = none)
    (cache : Option Bytes) (ps : List Bytes) (hne : ps ≠ []) (hlim : ps.length ≤ MAX_FRAGMENT_COUNT) (ops : List Op)
    (hconf : ∀ o ∈ ops, o.seq = some q → Delivers q cache ps o)
    (hexp : Unexpiring a.timeout ops)
    (hmissing : ∃ k, 1 ≤ k ∧ k ≤ ps.length ∧ ∀ o ∈ ops, o.seq = some q → Op.fid o ≠ k) :
    a.outsFor q ops = List.replicate (cnt q ops) none ∧
    (lookup q (a.after ops).pending = none ↔ cnt q ops = 0) := by
  have hn : 1 ≤ ps.reverse.length := by
    cases ps with
    | nil => exact absurd rfl hne
    | cons p r => simp
  have hv : ps.reverse.length ≤ MAX_FRAGMENT_COUNT := by simpa using hlim
  obtain ⟨e1, e2⟩ := after_outs_proj q ops a hw
  rw [h0] at e1 e2
  have hC := conf_of_proj (X := ops) (t := a.timeout) hconf hexp
  have hnf : ¬ Full ps.reverse ((fidsOf (proj q ops)).reverse ++ []) := by
    obtain ⟨k, k1, k2, hk⟩ := hmissing
    intro hf
    have := hf (k - 1) (by simp; omega)
    have e : k - 1 + 1 = k := by omega
    rw [e, List.append_nil, List.mem_reverse, mem_fidsOf_proj] at this
    obtain ⟨o, ho, hs, hk'⟩ := this
    exact hk o ho hs hk'
  obtain ⟨r1, r2⟩ := run_incomplete (q := q) (t := a.timeout) hn hv (proj q ops) [] none rfl hC hnf
  constructor
  · rw [e2, r2]
    simp only [List.map_const', length_fidsOf_proj]
  · rw [e1, good_none_iff r1, List.append_nil, List.reverse_eq_nil_iff, ← length_fidsOf_proj, List.length_eq_zero_iff]

/-- non-vacuity: the header of a two-fragment message alone -/
example : (Assembler.new 100).outsFor 1 [Op.start 0 1 2 none [1]] = List.replicate (cnt 1 [Op.start 0 1 2 none [1]]) none :=
  And.left <| C09_incomplete_returns_nothing (Assembler.new 100) (by simp [WF, Assembler.new]) 1 rfl none [[1], [2]] (by simp) (by decide)
    [Op.start 0 1 2 none [1]]
    (by
      intro o ho _
      simp only [List.mem_cons, List.not_mem_nil, or_false] at ho
      subst ho
      exact ⟨0, ⟨1, 2, true, none, [1]⟩, by decide, rfl⟩)
    (by intro now h; simp at h)
    ⟨1, by decide, by decide, by intro o ho _; simp at ho; subst ho; simp [Op.fid]⟩

/-- ISOLATION: what the assembler returns at the events of sequence `q`, and what it holds for `q`, depends only on `q`'s
own entry, `q`'s own events and the cleanups (`proj q`) — not on the events of other sequences interleaved with them. -/
theorem C09_isolation (a a' : Assembler) (hw : WF a.pending) (hw' : WF a'.pending) (ht : a.timeout = a'.timeout) (q : Nat)
    (h0 : lookup q a.pending = lookup q a'.pending) (ops ops' : List Op) (h : proj q ops = proj q ops') :
    a.outsFor q ops = a'.outsFor q ops' ∧
    lookup q (a.after ops).pending = lookup q (a'.after ops').pending := by
  obtain ⟨e1, e2⟩ := after_outs_proj q ops a hw
  obtain ⟨f1, f2⟩ := after_outs_proj q ops' a' hw'
  rw [e1, e2, f1, f2, h, h0, ht]
  exact ⟨rfl, rfl⟩

/-- non-vacuity: the same two events of sequence 1 with and without an event of sequence 2 between them -/
example : proj 1 [Op.start 0 1 2 none [1], Op.add 1 2 7 [9], Op.add 2 1 1 [2]] = proj 1 [Op.start 0 1 2 none [1], Op.add 2 1 1 [2]] := by
  decide

/-- HOLDS ONLY INCOMPLETE SEQUENCES: after any events whatsoever (any ids, any counts, any order, cleanups) on a fresh
assembler, there is at most one entry per sequence id (so `pending_count` counts distinct sequences), no entry is complete,
and every entry belongs to a sequence that has sent something. -/
theorem C09_holds_only_incomplete (t : Nat) (ops : List Op) :
    WF ((Assembler.new t).after ops).pending ∧
    ((Assembler.new t).after ops).pendingCount = (((Assembler.new t).after ops).pending.map Prod.fst).length ∧
    ∀ q m, lookup q ((Assembler.new t).after ops).pending = some m →
      m.isComplete = false ∧ ∃ o ∈ ops, o.seq = some q := by
  have hw0 : WF (Assembler.new t).pending := by simp [WF, Assembler.new]
  have hi0 : AllIncomplete (Assembler.new t).pending := by intro q m h; simp [Assembler.new, lookup] at h
  obtain ⟨hw, hi⟩ := after_invariants ops (Assembler.new t) hw0 hi0
  refine ⟨hw, by simp [Assembler.pendingCount], ?_⟩
  intro q m hm
  refine ⟨hi q m hm, ?_⟩
  apply Classical.byContradiction
  intro hno
  have e := (after_outs_proj q ops (Assembler.new t) hw0).1
  have hnone : lookup q (Assembler.new t).pending = none := rfl
  rw [hnone, afterQ_cleanups_none] at e
  · rw [e] at hm; simp at hm
  · intro o ho
    obtain ⟨hX, hs | hs⟩ := mem_proj.mp ho
    · exact absurd ⟨o, hX, hs⟩ hno
    · exact hs

/-- EXPIRY: `cleanup_expired` at clock value `now` keeps exactly the entries touched within the timeout, reports how many it
dropped, and every `add_fragment` refreshes the entry it leaves behind. -/
theorem C09_cleanup_drops_exactly_expired (a : Assembler) (hw : WF a.pending) (now q : Nat) :
    lookup q (a.cleanupExpired now).1.pending =
      (lookup q a.pending).filter (fun m => decide (now - m.last ≤ a.timeout)) ∧
    (a.cleanupExpired now).2 = a.pendingCount - (a.cleanupExpired now).1.pendingCount ∧
    ∀ t' seq fid d m, lookup seq (a.addFragment t' seq fid d).1.pending = some m → m.last = t' := by
  refine ⟨?_, rfl, ?_⟩
  · have := lookup_filter (l := a.pending) (fun m => !m.isExpired now a.timeout) q hw
    simp only [Assembler.cleanupExpired]
    rw [this]
    congr 1
    funext m
    simp only [FragMsg.isExpired]
    by_cases h : a.timeout < now - m.last
    · have : ¬ now - m.last ≤ a.timeout := by omega
      simp [h, this]
    · have : now - m.last ≤ a.timeout := by omega
      simp [h, this]
  · intro t' seq fid d m hm
    have hs := (step_self a (Op.add t' seq fid d) seq rfl).1
    simp only [Assembler.step] at hs
    rw [hs] at hm
    simp only [stepQ, addQ] at hm
    cases hl : lookup seq a.pending with
    | none =>
      rw [hl] at hm
      simp only [Option.some.injEq] at hm
      rw [← hm, addFragment_last]
    | some m' =>
      rw [hl] at hm
      simp only at hm
      split at hm
      · simp at hm
      · simp only [Option.some.injEq] at hm
        rw [← hm, addFragment_last]

/-- non-vacuity: with timeout 5, an entry touched at 0 is dropped by a cleanup at 6 and kept by one at 5 -/
example : ((Assembler.new 5).after [Op.add 0 1 1 [7], Op.cleanup 6]).pendingCount = 0 ∧
    ((Assembler.new 5).after [Op.add 0 1 1 [7], Op.cleanup 5]).pendingCount = 1 := by decide

/-- EVERY ACCEPTED COUNT COMPLETES (was: counts above the slot-vector limit never completed, repaired by 7a903d6): for every
number of fragments from 1 up to the accepted maximum `MAX_FRAGMENT_COUNT` — in particular above `MAX_FRAGMENTS_VEC`, where the
fragments live in the pending map —, the fragments of the protocol's split delivered in the protocol's own order to a fresh
assembler return nothing `n - 1` times and the message (pieces by ascending id) at the last one, and nothing is held. -/
theorem C09_every_accepted_count_completes (t now q : Nat) (cache : Option Bytes) (ps : List Bytes) (hne : ps ≠ [])
    (hlim : ps.length ≤ MAX_FRAGMENT_COUNT) :
    (Assembler.new t).outs ((number q cache ps).map (fragOp now)) =
      List.replicate (ps.length - 1) none ++ [some (cache.getD [] ++ ps.reverse.flatten)] ∧
    ((Assembler.new t).after ((number q cache ps).map (fragOp now))).pendingCount = 0 := by
  have hall : ∀ o ∈ (number q cache ps).map (fragOp now), o.seq = some q ∧ ∃ f ∈ number q cache ps, o.toFrag = some f := by
    intro o ho
    obtain ⟨f, hf, rfl⟩ := List.mem_map.mp ho
    obtain ⟨i, hi, rfl⟩ := List.mem_mapIdx.mp hf
    by_cases h0 : i = 0
    · subst h0
      exact ⟨rfl, _, hf, rfl⟩
    · have hb : (i == 0) = false := by simpa using h0
      refine ⟨by simp [fragOp, hb, Op.seq], _, hf, ?_⟩
      simp [fragOp, hb, Op.toFrag]
  have hfilter : ((number q cache ps).map (fragOp now)).filter (fun o => o.seq == some q) = (number q cache ps).map (fragOp now) := by
    apply List.filter_eq_self.mpr
    intro o ho
    simp [(hall o ho).1]
  have htf : ∀ (L : List Frag), (∀ f ∈ L, (fragOp now f).toFrag = some f) → (L.map (fragOp now)).filterMap Op.toFrag = L := by
    intro L
    induction L with
    | nil => intro _; rfl
    | cons f r ih =>
      intro h
      simp only [List.map_cons, List.filterMap_cons, h f List.mem_cons_self, ih (fun g hg => h g (List.mem_cons_of_mem _ hg))]
  have hback : ((number q cache ps).map (fragOp now)).filterMap Op.toFrag = number q cache ps := by
    apply htf
    intro f hf
    obtain ⟨i, hi, rfl⟩ := List.mem_mapIdx.mp hf
    by_cases h0 : i = 0
    · subst h0; rfl
    · have hb : (i == 0) = false := by simpa using h0
      simp [fragOp, hb, Op.toFrag]
  have hw : WF (Assembler.new t).pending := by simp [WF, Assembler.new]
  have hexp : Unexpiring (Assembler.new t).timeout ((number q cache ps).map (fragOp now)) := by
    intro n hn
    obtain ⟨hs, _⟩ := hall _ hn
    simp [Op.seq] at hs
  have hperm : ((((number q cache ps).map (fragOp now)).filter (fun o => o.seq == some q)).filterMap Op.toFrag).Perm
      (number q cache ps) := by rw [hfilter, hback]
  have houts := C09_ascending_perm (Assembler.new t) hw q rfl cache ps hne hlim _ hexp hperm
  -- every event is one of `q`, so `outsFor q` is `outs`
  have hof : ∀ (L : List Op) (a : Assembler), (∀ o ∈ L, o.seq = some q) → a.outsFor q L = a.outs L := by
    intro L
    induction L with
    | nil => intro _ _; rfl
    | cons o r ih =>
      intro a h
      simp only [Assembler.outsFor, Assembler.outs, h o List.mem_cons_self, if_true,
        ih _ (fun x hx => h x (List.mem_cons_of_mem _ hx))]
  rw [hof _ _ (fun o ho => (hall o ho).1)] at houts
  refine ⟨houts, ?_⟩
  -- nothing is held: no entry of `q` (it completed at the last event), and no other sequence ever had an event
  have h7 := C09_holds_only_incomplete t ((number q cache ps).map (fragOp now))
  have hnoq : lookup q ((Assembler.new t).after ((number q cache ps).map (fragOp now))).pending = none := by
    have hpos : 1 ≤ ps.length := by
      cases ps with
      | nil => exact absurd rfl hne
      | cons p r => simp
    have hex : ∃ x ∈ (number q cache ps).map (fragOp now), (fun o : Op => o.seq == some q) x = true := by
      obtain ⟨f, hf, _⟩ := number_has_fid q cache ps 1 (Nat.le_refl _) hpos
      exact ⟨fragOp now f, List.mem_map.mpr ⟨f, hf, rfl⟩, by simp [(hall _ (List.mem_map.mpr ⟨f, hf, rfl⟩)).1]⟩
    obtain ⟨pre, l, post, e, hlp, hpostp⟩ := exists_last _ _ hex
    have hpost0 : post = [] := by
      cases post with
      | nil => rfl
      | cons x r =>
        have hx : x ∈ (number q cache ps).map (fragOp now) := by rw [e]; simp
        have := hpostp x List.mem_cons_self
        simp [(hall x hx).1] at this
    subst hpost0
    -- use the any-order theorem on `pre ++ [l]`
    have hl : l.seq = some q := by simpa using hlp
    have hmemL : ∀ o ∈ pre ++ [l], o ∈ (number q cache ps).map (fragOp now) := by intro o ho; rw [e]; exact ho
    have hfm : ((pre ++ [l]).filterMap Op.toFrag) = number q cache ps := by rw [← e]; exact hback
    have hnd : ((pre ++ [l]).map Op.fid).Nodup := by
      have := fids_filterMap q (pre ++ [l]) (fun o ho => (hall o (hmemL o ho)).1)
      rw [← this, hfm]
      exact number_fids_nodup q cache ps
    rw [e]
    refine (C09_ascending_any_order (Assembler.new t) hw q rfl cache ps hne hlim pre [] l ?_ ?_ hl ?_ ?_ ⟨1, Nat.le_refl _, hpos, by simp⟩).2.mpr rfl
    · intro o ho _
      obtain ⟨_, f, hf, hof'⟩ := hall o (hmemL o ho)
      obtain ⟨now', hnow'⟩ := (fragOp_of_toFrag hof').1
      exact ⟨now', f, hf, hnow'⟩
    · intro n hn
      have := (hall _ (hmemL _ hn)).1
      simp [Op.seq] at this
    · intro o ho _ he
      rw [List.map_append, List.nodup_append] at hnd
      exact hnd.2.2 (Op.fid o) (List.mem_map.mpr ⟨o, ho, rfl⟩) (Op.fid l) (by simp) he
    · intro k k1 k2 hk
      obtain ⟨f, hf, hfk⟩ := number_has_fid q cache ps k k1 k2
      have : f ∈ (pre ++ [l]).filterMap Op.toFrag := by rw [hfm]; exact hf
      obtain ⟨o, ho, hof'⟩ := List.mem_filterMap.mp this
      have hfo := (fragOp_of_toFrag hof').2
      rcases List.mem_append.mp ho with h | h
      · exact ⟨o, h, (hall o (hmemL o ho)).1, by rw [← hfo, hfk]⟩
      · simp at h; subst h
        exact absurd (by rw [← hfo, hfk]) hk
  cases hp : ((Assembler.new t).after ((number q cache ps).map (fragOp now))).pending with
  | nil => simp [Assembler.pendingCount, hp]
  | cons e r =>
    obtain ⟨k, m⟩ := e
    have hlk : lookup k ((Assembler.new t).after ((number q cache ps).map (fragOp now))).pending = some m := by
      rw [hp]; simp [lookup]
    obtain ⟨_, o, ho, hs⟩ := h7.2.2 k m hlk
    have : k = q := by
      have := (hall o ho).1
      rw [this] at hs
      exact (Option.some.inj hs).symm
    subst this
    rw [hnoq] at hlk
    simp at hlk

/-- non-vacuity: there are accepted counts above the slot-vector limit, and a three-fragment message goes through -/
example : MAX_FRAGMENTS_VEC < MAX_FRAGMENT_COUNT ∧
    (Assembler.new 0).outs ((number 5 none [[1], [2], [3]]).map (fragOp 0)) = [none, none, some [3, 2, 1]] := by decide

/-- COUNTS OUTSIDE THE ACCEPTED RANGE ARE REFUSED AND NOTHING IS HELD: a header announcing 0 fragments or more than
`MAX_FRAGMENT_COUNT` (`FragmentCount::new` fails) returns nothing and leaves the assembler exactly as it was. -/
theorem C09_count_outside_limits_refused (a : Assembler) (now q fid : Nat) (cache : Option Bytes) (d : Bytes)
    (h : fid = 0 ∨ MAX_FRAGMENT_COUNT < fid) : a.startFragment now q fid cache d = (a, none) := by
  simp only [Assembler.startFragment, if_pos h]

/-- non-vacuity: one more than the maximum -/
example : ((Assembler.new 9).after [Op.start 0 1 (MAX_FRAGMENT_COUNT + 1) none [1]]).pendingCount = 0 := by decide

/-- A CONFLICTING HEADER IS IGNORED (was: it truncated the slot vector and a message came back with a fragment missing,
repaired by e936302): a header whose count differs from the count its sequence already has returns nothing and leaves the
assembler — the entry, its fragments, its time stamp — exactly as it was. -/
theorem C09_conflicting_header_ignored (a : Assembler) (now q fid c : Nat) (cache : Option Bytes) (d : Bytes) (m : FragMsg)
    (hm : lookup q a.pending = some m) (hc : m.total = some c) (hne : c ≠ fid) :
    a.startFragment now q fid cache d = (a, none) := by
  simp only [Assembler.startFragment]
  split
  · rfl
  · rw [hm]
    have : m.total.isSome ∧ m.total ≠ some fid := by
      rw [hc]; exact ⟨rfl, fun e => hne (Option.some.inj e)⟩
    simp only [if_pos this]

/-- non-vacuity: the former witness — `start(1,3,[33]); start(1,2,[22])` — now returns nothing twice and keeps the first header -/
example : (Assembler.new 0).outs [Op.start 0 1 3 none [0x33], Op.start 1 1 2 none [0x22]] = [none, none] ∧
    (lookup 1 ((Assembler.new 0).after [Op.start 0 1 3 none [0x33], Op.start 1 1 2 none [0x22]]).pending).map (·.total) =
      some (some 3) := by decide

/-- "WHEN AND ONLY WHEN THE LAST MISSING FRAGMENT ARRIVES": `pre` are arbitrary events among which those of `q` deliver
fragments of the split (any order, any multiplicity) but not all of them; `o` is the next event of `q`. The assembler
returns something at `o` IF AND ONLY IF every fragment id other than `o`'s has arrived in `pre` — and then it is the message
(pieces by ascending id) and `q` is no longer held; otherwise `q` stays held. -/
theorem C09_returns_iff_last_missing (a : Assembler) (hw : WF a.pending) (q : Nat) (h0 : lookup q a.pending = none)
    (cache : Option Bytes) (ps : List Bytes) (hne : ps ≠ []) (hlim : ps.length ≤ MAX_FRAGMENT_COUNT)
    (pre : List Op) (o : Op)
    (hconf : ∀ x ∈ pre ++ [o], x.seq = some q → Delivers q cache ps x)
    (hexp : Unexpiring a.timeout pre) (ho : o.seq = some q)
    (hmissing : ∃ k, 1 ≤ k ∧ k ≤ ps.length ∧ ∀ x ∈ pre, x.seq = some q → Op.fid x ≠ k) :
    (((a.after pre).step o).2.isSome ↔
      ∀ k, 1 ≤ k → k ≤ ps.length → k ≠ Op.fid o → ∃ x ∈ pre, x.seq = some q ∧ Op.fid x = k) ∧
    (((a.after pre).step o).2.isSome →
      ((a.after pre).step o).2 = some (cache.getD [] ++ ps.reverse.flatten) ∧
      lookup q ((a.after pre).step o).1.pending = none) ∧
    (((a.after pre).step o).2 = none → (lookup q ((a.after pre).step o).1.pending).isSome) := by
  have hn : 1 ≤ ps.reverse.length := by
    cases ps with
    | nil => exact absurd rfl hne
    | cons p r => simp
  have hv : ps.reverse.length ≤ MAX_FRAGMENT_COUNT := by simpa using hlim
  obtain ⟨e1, _⟩ := after_outs_proj q pre a hw
  rw [h0] at e1
  have hwa : WF (a.after pre).pending := (after_invariants_wf pre a hw)
  have hta : (a.after pre).timeout = a.timeout := after_timeout pre a
  obtain ⟨s1, s2⟩ := step_self (a.after pre) o q ho
  rw [s1, s2, e1, hta]
  have hC := conf_of_proj (X := pre) (t := a.timeout) (fun x hx => hconf x (by simp [hx])) hexp
  have hnf : ¬ Full ps.reverse ((fidsOf (proj q pre)).reverse ++ []) := by
    obtain ⟨k, k1, k2, hk⟩ := hmissing
    intro hf
    have := hf (k - 1) (by simp; omega)
    have e : k - 1 + 1 = k := by omega
    rw [e, List.append_nil, List.mem_reverse, mem_fidsOf_proj] at this
    obtain ⟨x, hx, hs, hk'⟩ := this
    exact hk x hx hs hk'
  obtain ⟨r1, _⟩ := run_incomplete (q := q) (t := a.timeout) hn hv (proj q pre) [] none rfl hC hnf
  rw [List.append_nil] at r1
  have hoF : IsFrag ps.reverse q cache o := isFrag_of_delivers (hconf o (by simp) ho)
  obtain ⟨f1, f2⟩ := stepQ_frag (t := a.timeout) hn hv r1 hoF
  have hrange := isFrag_fid_range hn hoF
  have hfull_iff : Full ps.reverse (Op.fid o :: (fidsOf (proj q pre)).reverse) ↔
      ∀ k, 1 ≤ k → k ≤ ps.length → k ≠ Op.fid o → ∃ x ∈ pre, x.seq = some q ∧ Op.fid x = k := by
    constructor
    · intro hf k k1 k2 hk
      have := hf (k - 1) (by simp; omega)
      have e : k - 1 + 1 = k := by omega
      rw [e] at this
      rcases List.mem_cons.mp this with h | h
      · exact absurd h hk
      · rw [List.mem_reverse, mem_fidsOf_proj] at h; exact h
    · intro h i hi
      by_cases hk : i + 1 = Op.fid o
      · simp [hk]
      · refine List.mem_cons_of_mem _ ?_
        rw [List.mem_reverse, mem_fidsOf_proj]
        exact h (i + 1) (by omega) (by simp at hi; omega) hk
  by_cases hF : Full ps.reverse (Op.fid o :: (fidsOf (proj q pre)).reverse)
  · have hs := f1 hF
    rw [hs]
    refine ⟨⟨fun _ => hfull_iff.mp hF, fun _ => rfl⟩, fun _ => ⟨by simp [ascending], rfl⟩, fun h => by simp at h⟩
  · obtain ⟨g1, g2⟩ := f2 hF
    rw [g2]
    refine ⟨⟨fun h => by simp at h, fun h => absurd (hfull_iff.mpr h) hF⟩, fun h => by simp at h, fun _ => ?_⟩
    cases hst : (stepQ a.timeout (afterQ a.timeout none (proj q pre)) o).1 with
    | none =>
      rw [hst] at g1
      have : (Op.fid o :: (fidsOf (proj q pre)).reverse) = [] := g1
      simp at this
    | some m => rfl

/-- non-vacuity: three fragments; after ids 3 and 1 the arrival of 2 returns the message, the arrival of a duplicate 1 does not -/
example : (((Assembler.new 9).after [Op.start 0 1 3 none [1], Op.add 1 1 1 [3]]).step (Op.add 2 1 2 [2])).2 = some [3, 2, 1] ∧
    (((Assembler.new 9).after [Op.start 0 1 3 none [1], Op.add 1 1 1 [3]]).step (Op.add 2 1 1 [3])).2 = none := by decide

/-- AFTER EVERY RECEIVED FRAME ONLY UNEXPIRED INCOMPLETE SEQUENCES ARE HELD (was: `cleanup_expired` was never called on a
connection, repaired by f40d0e7). A connection handles a frame received at clock value `now` by `cleanup_expired()` followed —
for a fragment frame — by one `start_fragment` / `add_fragment` that reads the clock again (not earlier: `Instant` is
monotonic). For EVERY history of frames (any clock values, any fragment operations: junk ids, conflicting headers, any
interleaving) and every further frame, each sequence the assembler holds afterwards is incomplete and was touched within the
timeout before `now`; and there is one entry per sequence id. -/
theorem C09_after_every_frame_only_unexpired_incomplete (t : Nat) (frames : List (Nat × Option Op)) (now : Nat) (o : Option Op)
    (hmono : ∀ op, o = some op → now ≤ Op.now op) :
    WF (((Assembler.new t).afterFrames frames).onFrame now o).1.pending ∧
    ∀ q m, lookup q (((Assembler.new t).afterFrames frames).onFrame now o).1.pending = some m →
      m.isComplete = false ∧ now - m.last ≤ t := by
  have hw0 : WF (Assembler.new t).pending := by simp [WF, Assembler.new]
  have hi0 : AllIncomplete (Assembler.new t).pending := by intro q m h; simp [Assembler.new, lookup] at h
  obtain ⟨hw, hi, ht⟩ := afterFrames_invariants frames (Assembler.new t) hw0 hi0
  obtain ⟨w, i⟩ := onFrame_invariants _ now o hw hi
  have u := onFrame_unexpired _ now o hw hmono
  rw [ht] at u
  exact ⟨w, fun q m hm => ⟨i q m hm, u q m hm⟩⟩

/-- non-vacuity: timeout 5; a stray continuation received at 0 is still held after a tick at 5 and gone after a tick at 6 -/
example : (((Assembler.new 5).afterFrames [(0, some (Op.add 0 1 1 [7]))]).onFrame 5 none).1.pendingCount = 1 ∧
    (((Assembler.new 5).afterFrames [(0, some (Op.add 0 1 1 [7]))]).onFrame 6 none).1.pendingCount = 0 := by decide

/-- … and this history is one of them: sequence 1 starts while nothing is pending, sequence 2 starts while 1 is incomplete,
sequence 1 COMPLETES (and leaves), sequence 2 goes silent; timeout 20. It is held after the completing frame, gone after a
tick at 60 — whether the older sequence completed or not plays no part —, and its last fragments, arriving after that, do
not complete a message. -/
example :
    ((Assembler.new 20).afterFrames [(0, some (Op.start 0 1 2 none [1])), (0, some (Op.start 0 2 3 none [2])),
      (0, some (Op.add 0 1 1 [3]))]).pendingCount = 1 ∧
    (((Assembler.new 20).afterFrames [(0, some (Op.start 0 1 2 none [1])), (0, some (Op.start 0 2 3 none [2])),
      (0, some (Op.add 0 1 1 [3]))]).onFrame 60 none).1.pendingCount = 0 ∧
    ((((Assembler.new 20).afterFrames [(0, some (Op.start 0 1 2 none [1])), (0, some (Op.start 0 2 3 none [2])),
      (0, some (Op.add 0 1 1 [3])), (60, none), (60, some (Op.add 60 2 2 [4]))]).onFrame 60 (some (Op.add 60 2 1 [5]))).2 = none) := by
  decide

/-- A SEQUENCE THAT WENT SILENT PAST THE TIMEOUT IS GONE AFTER THE NEXT FRAME — whatever that frame is and whatever became of
the other sequences (completed, expired, still in flight: `a` is ANY assembler state with one entry per id) — AND A FRAGMENT
THAT ARRIVES FOR IT THEN COMPLETES NOTHING: the frame's `cleanup_expired` drops the entry, so a frame of another sequence or a
tick leaves nothing held for `q`, and a continuation of `q` itself starts a new entry without a count and returns nothing. -/
theorem C09_silent_sequence_expires_whatever_the_others_do (a : Assembler) (hw : WF a.pending) (q : Nat) (m : FragMsg)
    (hq : lookup q a.pending = some m) (now : Nat) (hexp : a.timeout < now - m.last) :
    lookup q (a.onFrame now none).1.pending = none ∧
    (∀ op q', Op.seq op = some q' → q' ≠ q → lookup q (a.onFrame now (some op)).1.pending = none) ∧
    (∀ now' fid d, (a.onFrame now (some (Op.add now' q fid d))).2 = none) := by
  have hgone : lookup q (a.cleanupExpired now).1.pending = none := by
    rw [(C09_cleanup_drops_exactly_expired a hw now q).1, hq]
    have : ¬ now - m.last ≤ a.timeout := by omega
    simp [Option.filter, this]
  refine ⟨hgone, ?_, ?_⟩
  · intro op q' hs hne
    simp only [Assembler.onFrame]
    rw [step_other _ op q q' hs hne]
    exact hgone
  · intro now' fid d
    simp only [Assembler.onFrame, Assembler.step, Assembler.addFragment, hgone]

/-- THE CONNECTION EXPIRES ON EVERY FRAME — tie of `Assembler.onFrame` to the source text of `Connection::receive_message`
(extracted by the translator on every run): the calls on `self.fragment_assembler` are, in textual order, `cleanup_expired`,
`start_fragment`, `add_fragment`; `cleanup_expired()` is the statement after `let data = self.read_message().await?;` inside
the loop, before the tick's `continue`; the connection has one assembler, built by `FragmentAssembler::new()`, whose timeout is
`DEFAULT_FRAGMENT_TIMEOUT` — so the previous theorem applies to it with `t = DEFAULT_FRAGMENT_TIMEOUT`. -/
theorem C09_connection_expires_on_every_frame :
    Gen.RECEIVE_ASSEMBLER_OPS = ["cleanup_expired", "start_fragment", "add_fragment"] ∧
    Gen.RECEIVE_CLEANUP_PER_FRAME = true ∧ Gen.CONNECTION_ASSEMBLERS = 1 ∧
    Assembler.default.timeout = Gen.DEFAULT_FRAGMENT_TIMEOUT_MS ∧ 0 < Gen.DEFAULT_FRAGMENT_TIMEOUT_MS := by decide

/-- THE CONSTANTS OF THE SOURCE ARE THE MODEL'S AND ARE CONSISTENT (re-checked against the values extracted on every run):
the two limits the model uses are the extracted ones, the vector limit is positive and does not exceed the accepted maximum,
the accepted maximum fits `usize`/`u64` arithmetic with room to spare (`received_count += 1`, `count as usize`), and the
frame tags of fragmentation.rs, connection.rs and erltf's tags.rs agree with each other and with the protocol (69 and 70). -/
theorem C09_source_constants_consistent :
    MAX_FRAGMENTS_VEC = Gen.MAX_FRAGMENTS_VEC ∧ MAX_FRAGMENT_COUNT = Gen.MAX_FRAGMENT_COUNT ∧
    0 < MAX_FRAGMENTS_VEC ∧ MAX_FRAGMENTS_VEC ≤ MAX_FRAGMENT_COUNT ∧ MAX_FRAGMENT_COUNT < 2 ^ 32 ∧
    Gen.FRAG_DIST_FRAG_HEADER = 69 ∧ Gen.FRAG_DIST_FRAG_CONT = 70 ∧
    Gen.CONN_DIST_FRAG_HEADER = Gen.FRAG_DIST_FRAG_HEADER ∧ Gen.CONN_DIST_FRAG_CONT = Gen.FRAG_DIST_FRAG_CONT ∧
    Gen.DIST_FRAG_HEADER = Gen.FRAG_DIST_FRAG_HEADER := by decide

/-- The state the assembler model carries IS the state the code keeps (regenerated from the source on every run): per
sequence the count, the slot vector, the pending map, the received count, the atom-cache prefix and the time of the last
update; per assembler the map of sequences and the timeout. -/
theorem C09_state_is_the_sources_state :
    Edp.Gen.STRUCT_FragmentedMessage =
      ["total_fragments:Option<FragmentCount>", "fragments:Vec<Option<Vec<u8>>>", "pending_fragments:HashMap<u64,Vec<u8>>",
       "received_count:usize", "atom_cache_data:Option<Vec<u8>>", "last_update:Instant"]
    ∧ Edp.Gen.STRUCT_FragmentAssembler = ["pending:HashMap<SequenceId,FragmentedMessage>", "fragment_timeout:Duration"]
    ∧ Edp.Gen.PROCESS_WIDE_STATE = [] := by decide

end Edp.Props.C09
