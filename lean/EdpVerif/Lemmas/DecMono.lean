import EdpVerif.Impl.Decode
/-! The zero-copy decoder's model only ever adds rejections: whatever it returns, the owned decoder returns too. -/
namespace Edp

abbrev cB (c : List (Nat × Bytes)) : DecCfg := { borrowed := true, cache := c }
abbrev cO (c : List (Nat × Bytes)) : DecCfg := { borrowed := false, cache := c }

set_option hygiene false in
macro "dstep" : tactic => `(tactic| (
  split at h <;> (first
    | (simp at h; done)
    | (rename_i heq; first
        | (rw [ih1 _ _ _ heq])
        | (rw [ih2 _ _ _ _ heq])
        | (rw [ih3 _ _ _ _ _ heq])
        | (simp only [heq, ↓reduceIte])
        | skip)
    | skip) <;> try dsimp only))

set_option maxHeartbeats 4000000 in
theorem dec_mono (x : Ext) (c : List (Nat × Bytes)) : ∀ (fuel : Nat),
    (∀ d bs r, dec x (cB c) fuel d bs = .ok r → dec x (cO c) fuel d bs = .ok r) ∧
    (∀ d n bs r, decN x (cB c) fuel d n bs = .ok r → decN x (cO c) fuel d n bs = .ok r) ∧
    (∀ d n bs m r, decKV x (cB c) fuel d n bs m = .ok r → decKV x (cO c) fuel d n bs m = .ok r) := by
  intro fuel
  induction fuel with
  | zero =>
    refine ⟨?_, ?_, ?_⟩
    · intro d bs r h; simp [dec] at h
    · intro d n bs r h; cases n <;> simp_all [decN]
    · intro d n bs m r h; cases n <;> simp_all [decKV]
  | succ f ih =>
    obtain ⟨ih1, ih2, ih3⟩ := ih
    refine ⟨?_, ?_, ?_⟩
    · intro d bs r h
      cases bs with
      | nil => simp [dec] at h
      | cons t bs =>
        simp only [dec] at h ⊢
        by_cases hd : d > MAX_NESTING_DEPTH
        · simp [hd] at h
        · simp only [hd, ↓reduceIte] at h ⊢
          simp only [cB, cO, Bool.true_and, Bool.false_and, List.contains_eq_mem, decide_eq_true_eq, Bool.false_eq_true, ↓reduceIte] at h ⊢
          by_cases ht : t.toNat ∈ ownedOnlyTags
          · simp [ht] at h
          · simp only [ht, ↓reduceIte] at h ⊢
            split at h
            all_goals (repeat dstep)
            all_goals (first | exact h | (split <;> simp_all) | skip)
    · intro d n bs r h
      cases n with
      | zero => simp_all [decN]
      | succ n =>
        simp only [decN] at h ⊢
        split at h
        · simp at h
        · rename_i t r1 h1
          rw [ih1 _ _ _ h1]
          simp only
          split at h
          · simp at h
          · rename_i ts r2 h2
            rw [ih2 _ _ _ _ h2]
            simpa using h
    · intro d n bs m r h
      cases n with
      | zero => simp_all [decKV]
      | succ n =>
        simp only [decKV] at h ⊢
        split at h
        · simp at h
        · rename_i k r1 h1
          rw [ih1 _ _ _ h1]
          simp only
          split at h
          · simp at h
          · rename_i v r2 h2
            rw [ih1 _ _ _ h2]
            exact ih3 _ _ _ _ _ h

end Edp
