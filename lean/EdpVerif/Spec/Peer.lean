import EdpVerif.Spec.Etf
import EdpVerif.Spec.Frag
import EdpVerif.Spec.Control
/-!
What a conforming peer puts on an established distribution connection (erl_dist_protocol, "Protocol between connected
nodes"; DESIGN Appendix B.2), written from the protocol and not from the code.

A message is a control tuple and, for some operations, a second term (the payload). Every message travels in ONE frame
(4-byte length prefix, then the body; an EMPTY body is a tick and carries nothing), except a fragmented one.

* pass-through (neither side offered DIST_HDR_ATOM_CACHE):  `112, 131, control [, 131, payload]`
* distribution header (DIST_HDR_ATOM_CACHE negotiated):      `131, 68, N, flags, refs…, control [, payload]` — the terms
  carry no version byte; `N` atom cache references; `flags` is `N/2 + 1` bytes of 4-bit fields, least significant
  nibble first: field `i < N` = `new:1 | segment:3` of reference `i`, field `N` = `unused:3 | longAtoms:1`; reference
  `i` = `internalIndex:u8` and, when `new`, `len:u8` (`u16` under longAtoms) and the UTF-8 text; `N = 0` has no flags;
  `ATOM_CACHE_REF i` inside the terms is reference `i` of THIS header; a `new` reference writes cache slot
  (segment, internalIndex), an old one reads it.
* fragmented (FRAGMENTS negotiated, header mode): `131, 69, seq:u64, fragId:u64, N, flags, refs…, data₀` followed by
  `131, 70, seq:u64, fragId:u64, dataᵢ` with `fragId` counting DOWN from the number of fragments to 1; the message is the
  header followed by `data₀ ++ data₁ ++ …` (descending `fragId`).

Part 1 builds these frames from the bytes of the terms (used by the theorems of Props/C06.lean); part 2 is an executable
READER of frames (used by the driver as the oracle on what the implementation returned), built on the independent term
reader `Spec.parse` of Spec/Etf.lean.
-/
namespace Edp.Spec.Peer
open Edp

/-! ## Part 1: the frames of a message -/

/-- the external-format bytes of the two terms of a message, without version bytes -/
structure Wire where
  ctl : Bytes
  pay : Option Bytes

/-- a tick: the empty frame -/
def tick : Bytes := []

def isTick (f : Bytes) : Bool := f.isEmpty

/-- pass-through: `112, 131, control [, 131, payload]` -/
def passThrough (w : Wire) : Bytes :=
  112 :: 131 :: (w.ctl ++ (match w.pay with
    | none => []
    | some p => 131 :: p))

/-- the two terms one after the other, as they follow a distribution header -/
def Wire.terms (w : Wire) : Bytes := w.ctl ++ w.pay.getD []

/-- one atom cache reference of a distribution header -/
structure Ref where
  seg : Nat
  idx : Nat
  /-- `some text`: a new entry carrying its text; `none`: an entry the receiver already holds -/
  text : Option Bytes

def Ref.nibble (r : Ref) : Nat := (if r.text.isSome then 8 else 0) + r.seg % 8

/-- pack 4-bit fields into bytes, least significant nibble first (an odd count is padded with 0) -/
def packNibbles : List Nat → Bytes
  | [] => []
  | [a] => [UInt8.ofNat (a % 16)]
  | a :: b :: r => UInt8.ofNat (a % 16 + 16 * (b % 16)) :: packNibbles r

def Ref.bytes (long : Bool) (r : Ref) : Bytes :=
  UInt8.ofNat r.idx :: (match r.text with
    | none => []
    | some t => (if long then be16 t.length else be8 t.length) ++ t)

/-- `N, flags, refs…` (everything of the distribution header after `131, 68`) -/
def headerBytes (refs : List Ref) (long : Bool) : Bytes :=
  if refs.isEmpty then [0]
  else UInt8.ofNat refs.length :: (packNibbles (refs.map Ref.nibble ++ [if long then 1 else 0]) ++ (refs.map (Ref.bytes long)).flatten)

/-- a message under a distribution header: `131, 68, header, control [, payload]` -/
def withHeader (hdr : Bytes) (w : Wire) : Bytes := 131 :: 68 :: (hdr ++ w.terms)

/-- first fragment: `131, 69, seq, fragId, header, data` -/
def fragFirst (seq fid : Nat) (hdr data : Bytes) : Bytes := 131 :: 69 :: (be64 seq ++ be64 fid ++ hdr ++ data)

/-- following fragment: `131, 70, seq, fragId, data` -/
def fragCont (seq fid : Nat) (data : Bytes) : Bytes := 131 :: 70 :: (be64 seq ++ be64 fid ++ data)

/-- the continuation frames for the pieces after the first, ids counting down to 1 -/
def contFrames (seq : Nat) : List Bytes → List Bytes
  | [] => []
  | p :: ps => fragCont seq (ps.length + 1) p :: contFrames seq ps

/-- the frames of a message sent in `lens.length + 1` fragments: the terms' bytes cut at `lens` (`Spec.Frag.cut`),
the header travels whole in the first fragment -/
def fragmented (seq : Nat) (hdr : Bytes) (w : Wire) (lens : List Nat) : List Bytes :=
  match Spec.Frag.cut w.terms lens with
  | [] => []
  | p :: ps => fragFirst seq (ps.length + 1) hdr p :: contFrames seq ps

/-- the library's own sender (`encode_with_dist_header_multi`): every atom is a new entry of segment 0 whose internal
index is its position -/
def libRefs (atoms : List Bytes) : List Ref :=
  atoms.mapIdx fun i a => { seg := 0, idx := i, text := some a }

/-- a sender whose references are all new entries with internal index = position, in any segment: the distribution
headers of a conforming peer that the library's position-addressed cache reads correctly (the general (segment, index)
addressing is property C14) -/
def positional (segs : List Nat) (atoms : List Bytes) : List Ref :=
  atoms.mapIdx fun i a => { seg := segs.getD i 0, idx := i, text := some a }

/-- `fs` is the frame list `frames` with ticks inserted anywhere -/
def WithTicks (fs frames : List Bytes) : Prop := fs.filter (fun f => !isTick f) = frames

/-! ## Part 2: reading frames (oracle) -/

/-- the receiver's atom cache as the protocol defines it: slot (segment, internalIndex) ↦ atom characters -/
abbrev PCache := List ((Nat × Nat) × List Nat)

/-- references of one header, by position: the atom's characters -/
abbrev Refs := List (List Nat)

def nibbleAt (flags : Bytes) (i : Nat) : Nat :=
  let b := (flags.getD (i / 2) 0).toNat
  if i % 2 = 0 then b % 16 else b / 16

/-- a cache slot: (segment index, internal index) -/
abbrev Slot := Nat × Nat

/-- what reading `N, flags, refs…` gives -/
inductive HdrRead where
  /-- a well-formed header: the references by position, the cache after it, the bytes of the terms, the slots its
  new-entry references wrote, and whether a reference without text named a slot we can no longer vouch for -/
  | ok (refs : Refs) (pc : PCache) (rest : Bytes) (wrote : List Slot) (doubtful : Bool)
  /-- not a well-formed header. The protocol does not say what a receiver that goes on afterwards has done to its cache:
  the slots of the new-entry references that stand before the point of failure (`wrote`) may or may not have been
  written -/
  | bad (wrote : List Slot)

/-- read references `i, i+1, … < n`. `taint` = slots whose content the protocol no longer determines (see `HdrRead.bad`):
a new entry makes its slot determined again, a reference without text to such a slot makes the whole message `doubtful`
(it is read on with whatever we hold for the slot, so that the layout of the rest of the header is still checked) -/
def readRefs (flags : Bytes) (long : Bool) (taint : List Slot) :
    Nat → Nat → PCache → Refs → List Slot → Bool → Bytes → HdrRead
  | 0, _, pc, acc, wrote, dbt, bs => .ok acc.reverse pc bs wrote dbt
  | k+1, i, pc, acc, wrote, dbt, bs =>
    match rdN 1 bs with
    | none => .bad wrote
    | some (idx, r) =>
      let nib := nibbleAt flags i
      let seg := nib % 8
      if nib / 8 = 1 then
        match rdN (if long then 2 else 1) r with
        | none => .bad wrote
        | some (len, r1) =>
          match takeN len r1 with
          | none => .bad wrote
          | some (txt, r2) =>
            match utf8Decode txt with
            | none => .bad wrote
            | some chars => readRefs flags long taint k (i + 1) (((seg, idx), chars) :: pc) (chars :: acc) ((seg, idx) :: wrote) dbt r2
      else
        let known := !taint.contains (seg, idx) || wrote.contains (seg, idx)
        match pc.lookup (seg, idx) with
        | none => if known then .bad wrote else readRefs flags long taint k (i + 1) pc ([] :: acc) wrote true r
        | some chars => readRefs flags long taint k (i + 1) pc (chars :: acc) wrote (dbt || !known) r

/-- read `N, flags, refs…` -/
def readHeader (pc : PCache) (taint : List Slot) (bs : Bytes) : HdrRead :=
  match rdN 1 bs with
  | none => .bad []
  | some (n, r) =>
    if n = 0 then .ok [] pc r [] false else
    match takeN (n / 2 + 1) r with
    | none => .bad []
    | some (flags, r1) => readRefs flags (nibbleAt flags n % 2 = 1) taint n 0 pc [] [] false r1

/-- what the receiving API has to return for one frame -/
inductive Expect where
  /-- nothing: a tick, or a fragment that does not complete a message -/
  | nothing
  | msg (ctl : Value) (pay : Option Value)
  /-- a malformed / undecodable frame: an error, for this frame only -/
  | err
  /-- a frame about which the property says nothing but "no panic, later frames intact" (a well-formed fragment that
  belongs to no conforming message) -/
  | unspecified
  deriving Repr, Inhabited

/-- is this value a control tuple the protocol allows: headed by an integer 0..255, an `Id` element (UNLINK_ID,
UNLINK_ID_ACK) in `0 ≤ id < 2^64` -/
def controlOk : Value → Bool
  | .tuple (.int i :: rest) =>
    if 0 ≤ i ∧ i ≤ 255 then
      match Spec.idPos i.toNat (rest.length + 1) with
      | none => true
      | some k =>
        match (Value.int i :: rest)[k]? with
        | some (.int v) => decide (0 ≤ v ∧ v < 2 ^ 64)
        | _ => false
    else false
  | _ => false

/-- control term, optional payload term, nothing after them (the terms after a header, or after `112`) -/
def readTerms (env : Spec.Env) (versioned : Bool) (bs : Bytes) : Expect :=
  let strip : Bytes → Option Bytes := fun b =>
    if versioned then (match b with
      | 131 :: r => some r
      | _ => none) else some b
  match strip bs with
  | none => .err
  | some b0 =>
    match Spec.parse env (b0.length + 1) b0 with
    | none => .err
    | some (ctl, rest) =>
      if !(controlOk ctl && Spec.keysDistinct ctl) then .err else
      match rest with
      | [] => .msg ctl none
      | _ =>
        match strip rest with
        | none => .err
        | some b1 =>
          match Spec.parse env (b1.length + 1) b1 with
          | some (pay, []) => if Spec.keysDistinct pay then .msg ctl (some pay) else .err
          | _ => .err

/-- a sequence being reassembled: number of fragments, the header bytes' start (first fragment's content), pieces by id -/
structure Pending where
  seq : Nat
  count : Nat
  /-- content of the first fragment after `seq, fragId` -/
  first : Bytes
  /-- continuation pieces received, by fragment id -/
  pieces : List (Nat × Bytes)

structure RState where
  cache : PCache := []
  /-- slots a malformed distribution header may or may not have written (`HdrRead.bad`) -/
  taint : List Slot := []
  pending : List Pending := []

def RState.find (s : RState) (q : Nat) : Option Pending := s.pending.find? (·.seq == q)
def RState.drop (s : RState) (q : Nat) : RState := { s with pending := s.pending.filter (·.seq != q) }

/-- the message of a complete sequence: header, then data in descending fragment id -/
def Pending.assemble (p : Pending) : Option Bytes :=
  let ids := (List.range (p.count - 1)).reverse.map (· + 1)
  let ps := ids.map fun k => (p.pieces.find? (·.1 == k)).map (·.2)
  if ps.all Option.isSome then some (p.first ++ (ps.filterMap id).flatten) else none

/-- header-mode body (`N, flags, refs…, terms`): read the header into the cache, then the terms.
A malformed header is an error for this frame, and the slots it may have written are no longer ours to judge until a later
header writes them anew; a message that refers to such a slot is `unspecified` (and then so are the slots it writes). -/
def readHeaderBody (inflate : Bytes → Option (Bytes × Nat)) (s : RState) (body : Bytes) : RState × Expect :=
  match readHeader s.cache s.taint body with
  | .bad wrote => ({ s with taint := wrote ++ s.taint }, .err)
  | .ok refs pc rest wrote doubtful =>
    if doubtful then ({ s with cache := pc, taint := wrote ++ s.taint }, .unspecified)
    else ({ s with cache := pc, taint := s.taint.filter (fun k => !wrote.contains k) },
      readTerms { inflate := inflate, refs := refs } false rest)

/-- one frame at the reference receiver -/
def readFrame (inflate : Bytes → Option (Bytes × Nat)) (s : RState) (f : Bytes) : RState × Expect :=
  match f with
  | [] => (s, .nothing)
  | 112 :: r => (s, readTerms { inflate := inflate } true r)
  | 131 :: 68 :: body => readHeaderBody inflate s body
  | 131 :: 69 :: r =>
    match rdN 8 r with
    | none => (s, .err)
    | some (seq, r1) =>
      match rdN 8 r1 with
      | none => (s, .err)
      | some (fid, r2) =>
        if r2.isEmpty then (s, .err) else
        if fid = 0 then (s, .err) else
        if (s.find seq).isSome then (s.drop seq, .unspecified) else
        if fid = 1 then readHeaderBody inflate s r2
        else ({ s with pending := { seq := seq, count := fid, first := r2, pieces := [] } :: s.pending }, .nothing)
  | 131 :: 70 :: r =>
    match rdN 8 r with
    | none => (s, .err)
    | some (seq, r1) =>
      match rdN 8 r1 with
      | none => (s, .err)
      | some (fid, r2) =>
        if fid = 0 then (s, .err) else
        match s.find seq with
        | none => (s, .unspecified)
        | some p =>
          -- a conforming peer sends the ids count-1, …, 1 in this order, each once
          let want := p.count - 1 - p.pieces.length
          if fid ≠ want ∨ fid = 0 then (s.drop seq, .unspecified) else
          let p' := { p with pieces := (fid, r2) :: p.pieces }
          if fid = 1 then
            match p'.assemble with
            | some body => readHeaderBody inflate (s.drop seq) body
            | none => (s.drop seq, .unspecified)
          else ({ s.drop seq with pending := p' :: (s.drop seq).pending }, .nothing)
  | _ => (s, .err)

/-- the expectations for a list of frames. Sequence ids that carried something `unspecified` are dropped, cache slots a
malformed header may have written are tracked in `RState.taint`. -/
def readAll (inflate : Bytes → Option (Bytes × Nat)) : RState → List Bytes → List Expect
  | _, [] => []
  | s, f :: fs => (readFrame inflate s f).2 :: readAll inflate (readFrame inflate s f).1 fs

end Edp.Spec.Peer
