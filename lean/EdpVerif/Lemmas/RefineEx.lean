import EdpVerif.Lemmas.Refine
/-! Existence form of the refinement: what the decoder accepts, the spec reader accepts with the same value —
for all tags except MAP_EXT (116), NEW_FUN_EXT (112) and COMPRESSED (80); see Props/C03.lean. -/
set_option linter.unusedSectionVars false
namespace Edp
open Term

mutual
/-- floats finite, no map, no internal fun — the decoded terms for which the existence-form refinement is proved -/
def plainT : Term → Bool
  | .float b => finiteF b
  | .list l => plainL l
  | .ilist l t => plainL l && plainT t
  | .tuple l => plainL l
  | .map _ => false
  | .ifun _ _ _ _ _ _ _ _ _ => false
  | _ => true
def plainL : List Term → Bool
  | [] => true
  | t :: ts => plainT t && plainL ts
end

def RefT (x : Ext) (cfg : DecCfg) (env : Spec.Env) (fuel : Nat) : Prop :=
  ∀ d bs t r, dec x cfg fuel d bs = .ok (t, r) → plainT t = true → Spec.parse env fuel bs = some (den t, r)
def RefN (x : Ext) (cfg : DecCfg) (env : Spec.Env) (fuel : Nat) : Prop :=
  ∀ d n bs ts r, decN x cfg fuel d n bs = .ok (ts, r) → plainL ts = true → Spec.parseN env fuel n bs = some (denL ts, r)

variable {x : Ext} {cfg : DecCfg} {env : Spec.Env} {fuel : Nat}

set_option hygiene false in
macro "open_ref" n:num : tactic => `(tactic| (
  rw [dec.eq_3] at h1; rw [Spec.parse.eq_3]
  simp only [show ($n : UInt8).toNat = $n by decide] at h1 ⊢
  split at h1
  · simp at h1
  split at h1
  · simp at h1))

section
variable {d : Nat} {bs : Bytes} {t : Term} {r : Bytes}

theorem ref_97 (h1 : dec x cfg (fuel + 1) d (97 :: bs) = .ok (t, r)) :
    Spec.parse env (fuel + 1) (97 :: bs) = some (den t, r) := by
  open_ref 97
  simp only [rdU] at h1
  cases hr : rdN 1 bs with
  | none => simp [hr] at h1
  | some p =>
    obtain ⟨a, b⟩ := p
    simp [hr] at h1 ⊢
    obtain ⟨rfl, rfl⟩ := h1
    simp [den]

theorem ref_98 (h1 : dec x cfg (fuel + 1) d (98 :: bs) = .ok (t, r)) :
    Spec.parse env (fuel + 1) (98 :: bs) = some (den t, r) := by
  open_ref 98
  simp only [rdU] at h1
  cases hr : rdN 4 bs with
  | none => simp [hr] at h1
  | some p =>
    obtain ⟨a, b⟩ := p
    simp [hr] at h1 ⊢
    obtain ⟨rfl, rfl⟩ := h1
    simp [den, Spec.i32, i32OfU32]

theorem ref_70 (h1 : dec x cfg (fuel + 1) d (70 :: bs) = .ok (t, r)) (hp : plainT t = true) :
    Spec.parse env (fuel + 1) (70 :: bs) = some (den t, r) := by
  open_ref 70
  simp only [rdU] at h1
  cases hr : rdN 8 bs with
  | none => simp [hr] at h1
  | some p =>
    obtain ⟨a, b⟩ := p
    simp [hr] at h1 ⊢
    obtain ⟨rfl, rfl⟩ := h1
    simp only [plainT, finiteF, Bool.not_eq_true', beq_eq_false_iff_ne, ne_eq] at hp
    simp [den]
    exact hp

theorem ref_106 (h1 : dec x cfg (fuel + 1) d (106 :: bs) = .ok (t, r)) :
    Spec.parse env (fuel + 1) (106 :: bs) = some (den t, r) := by
  open_ref 106
  simp at h1 ⊢
  obtain ⟨rfl, rfl⟩ := h1
  simp [den]

theorem ref_atomBody (k : Nat) (h1 : decAtomBody k bs = .ok (t, r)) :
    (match rdN k bs with
      | some (n, r) => match takeN n r with
        | some (a, r') => (utf8Decode a).map fun cps => (Value.atom cps, r')
        | none => none
      | none => none) = some (den t, r) := by
  simp only [decAtomBody, rdU, takeE] at h1
  cases hr : rdN k bs with
  | none => simp [hr] at h1
  | some p =>
    obtain ⟨n, b⟩ := p
    simp only [hr] at h1 ⊢
    split at h1
    · simp at h1
    cases ht : takeN n b with
    | none => simp [ht] at h1
    | some q =>
      obtain ⟨a, c⟩ := q
      simp only [ht] at h1 ⊢
      split at h1
      · rename_i hu
        simp at h1
        obtain ⟨rfl, rfl⟩ := h1
        rw [utf8_cps a hu]
        simp [den]
      · simp at h1

theorem ref_119 (h1 : dec x cfg (fuel + 1) d (119 :: bs) = .ok (t, r)) :
    Spec.parse env (fuel + 1) (119 :: bs) = some (den t, r) := by
  open_ref 119
  exact ref_atomBody 1 h1

theorem ref_118 (h1 : dec x cfg (fuel + 1) d (118 :: bs) = .ok (t, r)) :
    Spec.parse env (fuel + 1) (118 :: bs) = some (den t, r) := by
  open_ref 118
  exact ref_atomBody 2 h1

theorem ref_latin1Body (k : Nat) (h1 : decLatin1Body k bs = .ok (t, r)) :
    (match rdN k bs with
      | some (n, r) => (takeN n r).map fun (a, r') => (Value.atom (Spec.latin1 a), r')
      | none => none) = some (den t, r) := by
  simp only [decLatin1Body, rdU, takeE] at h1
  cases hr : rdN k bs with
  | none => simp [hr] at h1
  | some p =>
    obtain ⟨n, b⟩ := p
    simp only [hr] at h1 ⊢
    split at h1
    · simp at h1
    cases ht : takeN n b with
    | none => simp [ht] at h1
    | some q =>
      obtain ⟨a, c⟩ := q
      simp [ht] at h1 ⊢
      obtain ⟨rfl, rfl⟩ := h1
      simp [den, latin1_cps]

theorem ref_100 (h1 : dec x cfg (fuel + 1) d (100 :: bs) = .ok (t, r)) :
    Spec.parse env (fuel + 1) (100 :: bs) = some (den t, r) := by
  open_ref 100
  exact ref_latin1Body 2 h1

theorem ref_115 (h1 : dec x cfg (fuel + 1) d (115 :: bs) = .ok (t, r)) :
    Spec.parse env (fuel + 1) (115 :: bs) = some (den t, r) := by
  open_ref 115
  exact ref_latin1Body 1 h1

theorem ref_bigBody (k : Nat) (h1 : decBig k bs = .ok (t, r)) :
    (match rdN k bs with
      | some (n, r) => match rdN 1 r with
        | some (s, r1) => (takeN n r1).map fun (d, r2) => (Value.int (if s != 0 then -(Spec.leVal d : Int) else Spec.leVal d), r2)
        | none => none
      | none => none) = some (den t, r) := by
  simp only [decBig, rdU, takeE] at h1
  cases hr : rdN k bs with
  | none => simp [hr] at h1
  | some p =>
    obtain ⟨n, b⟩ := p
    simp only [hr] at h1 ⊢
    cases hs : rdN 1 b with
    | none => simp [hs] at h1
    | some p2 =>
      obtain ⟨s, b1⟩ := p2
      simp only [hs] at h1 ⊢
      cases ht : takeN n b1 with
      | none => simp [ht] at h1
      | some q =>
        obtain ⟨a, c⟩ := q
        simp [ht] at h1 ⊢
        obtain ⟨rfl, rfl⟩ := h1
        simp only [den, bigVal, leVal_eq_magVal]
        by_cases h0 : s = 0 <;> simp [h0]

theorem ref_110 (h1 : dec x cfg (fuel + 1) d (110 :: bs) = .ok (t, r)) :
    Spec.parse env (fuel + 1) (110 :: bs) = some (den t, r) := by
  open_ref 110
  exact ref_bigBody 1 h1

theorem ref_111 (h1 : dec x cfg (fuel + 1) d (111 :: bs) = .ok (t, r)) :
    Spec.parse env (fuel + 1) (111 :: bs) = some (den t, r) := by
  open_ref 111
  exact ref_bigBody 4 h1

theorem ref_82 (hcache : ∀ i a, cfg.cache.lookup i = some a → env.refs[i]? = some (cps a))
    (h1 : dec x cfg (fuel + 1) d (82 :: bs) = .ok (t, r)) :
    Spec.parse env (fuel + 1) (82 :: bs) = some (den t, r) := by
  open_ref 82
  simp only [rdU] at h1
  cases hr : rdN 1 bs with
  | none => simp [hr] at h1
  | some p =>
    obtain ⟨i, b⟩ := p
    simp only [hr] at h1 ⊢
    cases hl : cfg.cache.lookup i with
    | none => simp [hl] at h1
    | some a =>
      simp [hl] at h1
      obtain ⟨rfl, rfl⟩ := h1
      simp [hcache i a hl, den]

theorem ref_99 (hpf : ∀ f b, x.parseFloat f = some b → Spec.parseFloatText f = some b)
    (h1 : dec x cfg (fuel + 1) d (99 :: bs) = .ok (t, r)) :
    Spec.parse env (fuel + 1) (99 :: bs) = some (den t, r) := by
  open_ref 99
  simp only [takeE] at h1
  cases ht : takeN 31 bs with
  | none => simp [ht] at h1
  | some q =>
    obtain ⟨fl, c⟩ := q
    simp only [ht] at h1 ⊢
    split at h1
    · simp at h1
    cases hp : x.parseFloat fl with
    | none => simp [hp] at h1
    | some b =>
      simp [hp] at h1
      obtain ⟨rfl, rfl⟩ := h1
      simp [hpf fl b hp, den]

theorem ref_107 (h1 : dec x cfg (fuel + 1) d (107 :: bs) = .ok (t, r)) :
    Spec.parse env (fuel + 1) (107 :: bs) = some (den t, r) := by
  open_ref 107
  simp only [rdU, takeE] at h1
  cases hr : rdN 2 bs with
  | none => simp [hr] at h1
  | some p =>
    obtain ⟨n, b⟩ := p
    simp only [hr] at h1 ⊢
    cases ht : takeN n b with
    | none => simp [ht] at h1
    | some q =>
      obtain ⟨a, c⟩ := q
      simp [ht] at h1 ⊢
      obtain ⟨rfl, rfl⟩ := h1
      simp [den, denL_ints]

theorem ref_109 (h1 : dec x cfg (fuel + 1) d (109 :: bs) = .ok (t, r)) :
    Spec.parse env (fuel + 1) (109 :: bs) = some (den t, r) := by
  open_ref 109
  simp only [rdU, takeE] at h1
  cases hr : rdN 4 bs with
  | none => simp [hr] at h1
  | some p =>
    obtain ⟨n, b⟩ := p
    simp only [hr] at h1 ⊢
    split at h1
    · simp at h1
    cases ht : takeN n b with
    | none => simp [ht] at h1
    | some q =>
      obtain ⟨a, c⟩ := q
      simp [ht] at h1 ⊢
      obtain ⟨rfl, rfl⟩ := h1
      simp [den]

theorem ref_77 (h1 : dec x cfg (fuel + 1) d (77 :: bs) = .ok (t, r)) :
    Spec.parse env (fuel + 1) (77 :: bs) = some (den t, r) := by
  open_ref 77
  simp only [rdU, takeE] at h1
  cases hr : rdN 4 bs with
  | none => simp [hr] at h1
  | some p =>
    obtain ⟨n, b⟩ := p
    simp only [hr] at h1 ⊢
    split at h1
    · simp at h1
    cases hs : rdN 1 b with
    | none => simp [hs] at h1
    | some p2 =>
      obtain ⟨bits, b1⟩ := p2
      simp only [hs] at h1 ⊢
      split at h1
      · simp at h1
      rename_i hb1
      split at h1
      · simp at h1
      rename_i hb2
      cases ht : takeN n b1 with
      | none => simp [ht] at h1
      | some q =>
        obtain ⟨a, c⟩ := q
        simp [ht] at h1 ⊢
        obtain ⟨rfl, rfl⟩ := h1
        simp at hb1 hb2
        simp [den]
        exact ⟨hb1, hb2⟩

variable (ih : RefT x cfg env fuel)
include ih

theorem ref_88 (h1 : dec x cfg (fuel + 1) d (88 :: bs) = .ok (t, r)) :
    Spec.parse env (fuel + 1) (88 :: bs) = some (den t, r) := by
  open_ref 88
  split at h1
  · rename_i node r0 heq1
    have ha := ih _ _ _ _ heq1 (by simp [plainT])
    simp only [den] at ha
    simp only [ha]
    simp only [rdU] at h1
    cases hr0 : rdN 4 r0 with
    | none => simp [hr0] at h1
    | some p0 =>
      obtain ⟨a0, b0⟩ := p0
      simp only [hr0] at h1 ⊢
      cases hr1 : rdN 4 b0 with
      | none => simp [hr1] at h1
      | some p1 =>
        obtain ⟨a1, b1⟩ := p1
        simp only [hr1] at h1 ⊢
        cases hr2 : rdN 4 b1 with
        | none => simp [hr2] at h1
        | some p2 =>
          obtain ⟨a2, b2⟩ := p2
          simp only [hr2] at h1 ⊢
          simp at h1 ⊢
          obtain ⟨rfl, rfl⟩ := h1
          simp [den]
  · simp at h1
  · simp at h1

theorem ref_103 (h1 : dec x cfg (fuel + 1) d (103 :: bs) = .ok (t, r)) :
    Spec.parse env (fuel + 1) (103 :: bs) = some (den t, r) := by
  open_ref 103
  split at h1
  · rename_i node r0 heq1
    have ha := ih _ _ _ _ heq1 (by simp [plainT])
    simp only [den] at ha
    simp only [ha]
    simp only [rdU] at h1
    cases hr0 : rdN 4 r0 with
    | none => simp [hr0] at h1
    | some p0 =>
      obtain ⟨a0, b0⟩ := p0
      simp only [hr0] at h1 ⊢
      cases hr1 : rdN 4 b0 with
      | none => simp [hr1] at h1
      | some p1 =>
        obtain ⟨a1, b1⟩ := p1
        simp only [hr1] at h1 ⊢
        cases hr2 : rdN 1 b1 with
        | none => simp [hr2] at h1
        | some p2 =>
          obtain ⟨a2, b2⟩ := p2
          simp only [hr2] at h1 ⊢
          simp at h1 ⊢
          obtain ⟨rfl, rfl⟩ := h1
          simp [den]
  · simp at h1
  · simp at h1

theorem ref_120 (h1 : dec x cfg (fuel + 1) d (120 :: bs) = .ok (t, r)) :
    Spec.parse env (fuel + 1) (120 :: bs) = some (den t, r) := by
  open_ref 120
  split at h1
  · rename_i node r0 heq1
    have ha := ih _ _ _ _ heq1 (by simp [plainT])
    simp only [den] at ha
    simp only [ha]
    simp only [rdU] at h1
    cases hr0 : rdN 8 r0 with
    | none => simp [hr0] at h1
    | some p0 =>
      obtain ⟨a0, b0⟩ := p0
      simp only [hr0] at h1 ⊢
      cases hr1 : rdN 4 b0 with
      | none => simp [hr1] at h1
      | some p1 =>
        obtain ⟨a1, b1⟩ := p1
        simp only [hr1] at h1 ⊢
        simp at h1 ⊢
        obtain ⟨rfl, rfl⟩ := h1
        simp [den]
  · simp at h1
  · simp at h1

theorem ref_89 (h1 : dec x cfg (fuel + 1) d (89 :: bs) = .ok (t, r)) :
    Spec.parse env (fuel + 1) (89 :: bs) = some (den t, r) := by
  open_ref 89
  split at h1
  · rename_i node r0 heq1
    have ha := ih _ _ _ _ heq1 (by simp [plainT])
    simp only [den] at ha
    simp only [ha]
    simp only [rdU] at h1
    cases hr0 : rdN 4 r0 with
    | none => simp [hr0] at h1
    | some p0 =>
      obtain ⟨a0, b0⟩ := p0
      simp only [hr0] at h1 ⊢
      cases hr1 : rdN 4 b0 with
      | none => simp [hr1] at h1
      | some p1 =>
        obtain ⟨a1, b1⟩ := p1
        simp only [hr1] at h1 ⊢
        simp at h1 ⊢
        obtain ⟨rfl, rfl⟩ := h1
        simp [den]
  · simp at h1
  · simp at h1

theorem ref_102 (h1 : dec x cfg (fuel + 1) d (102 :: bs) = .ok (t, r)) :
    Spec.parse env (fuel + 1) (102 :: bs) = some (den t, r) := by
  open_ref 102
  split at h1
  · rename_i node r0 heq1
    have ha := ih _ _ _ _ heq1 (by simp [plainT])
    simp only [den] at ha
    simp only [ha]
    simp only [rdU] at h1
    cases hr0 : rdN 4 r0 with
    | none => simp [hr0] at h1
    | some p0 =>
      obtain ⟨a0, b0⟩ := p0
      simp only [hr0] at h1 ⊢
      cases hr1 : rdN 1 b0 with
      | none => simp [hr1] at h1
      | some p1 =>
        obtain ⟨a1, b1⟩ := p1
        simp only [hr1] at h1 ⊢
        simp at h1 ⊢
        obtain ⟨rfl, rfl⟩ := h1
        simp [den]
  · simp at h1
  · simp at h1

theorem ref_101 (h1 : dec x cfg (fuel + 1) d (101 :: bs) = .ok (t, r)) :
    Spec.parse env (fuel + 1) (101 :: bs) = some (den t, r) := by
  open_ref 101
  split at h1
  · rename_i node r0 heq1
    have ha := ih _ _ _ _ heq1 (by simp [plainT])
    simp only [den] at ha
    simp only [ha]
    simp only [rdU] at h1
    cases hr0 : rdN 4 r0 with
    | none => simp [hr0] at h1
    | some p0 =>
      obtain ⟨a0, b0⟩ := p0
      simp only [hr0] at h1 ⊢
      cases hr1 : rdN 1 b0 with
      | none => simp [hr1] at h1
      | some p1 =>
        obtain ⟨a1, b1⟩ := p1
        simp only [hr1] at h1 ⊢
        simp at h1 ⊢
        obtain ⟨rfl, rfl⟩ := h1
        simp [den]
  · simp at h1
  · simp at h1

theorem ref_90 (h1 : dec x cfg (fuel + 1) d (90 :: bs) = .ok (t, r)) :
    Spec.parse env (fuel + 1) (90 :: bs) = some (den t, r) := by
  open_ref 90
  simp only [rdU] at h1
  cases hl : rdN 2 bs with
  | none => simp [hl] at h1
  | some pl =>
    obtain ⟨len, bl⟩ := pl
    simp only [hl] at h1 ⊢
    split at h1
    · rename_i node r0 heq1
      have ha := ih _ _ _ _ heq1 (by simp [plainT])
      simp only [den] at ha
      simp only [ha]
      cases hr0 : rdN 4 r0 with
      | none => simp [hr0] at h1
      | some p0 =>
        obtain ⟨a0, b0⟩ := p0
        simp only [hr0, rdWords_spec] at h1 ⊢
        cases hw : Spec.rdWords len b0 with
        | none => simp [hw] at h1
        | some pw =>
          obtain ⟨ws, bw⟩ := pw
          simp [hw] at h1 ⊢
          obtain ⟨rfl, rfl⟩ := h1
          simp [den]
    · simp at h1
    · simp at h1

theorem ref_114 (h1 : dec x cfg (fuel + 1) d (114 :: bs) = .ok (t, r)) :
    Spec.parse env (fuel + 1) (114 :: bs) = some (den t, r) := by
  open_ref 114
  simp only [rdU] at h1
  cases hl : rdN 2 bs with
  | none => simp [hl] at h1
  | some pl =>
    obtain ⟨len, bl⟩ := pl
    simp only [hl] at h1 ⊢
    split at h1
    · rename_i node r0 heq1
      have ha := ih _ _ _ _ heq1 (by simp [plainT])
      simp only [den] at ha
      simp only [ha]
      cases hr0 : rdN 1 r0 with
      | none => simp [hr0] at h1
      | some p0 =>
        obtain ⟨a0, b0⟩ := p0
        simp only [hr0, rdWords_spec] at h1 ⊢
        cases hw : Spec.rdWords len b0 with
        | none => simp [hw] at h1
        | some pw =>
          obtain ⟨ws, bw⟩ := pw
          simp [hw] at h1 ⊢
          obtain ⟨rfl, rfl⟩ := h1
          simp [den]
    · simp at h1
    · simp at h1

theorem ref_113 (h1 : dec x cfg (fuel + 1) d (113 :: bs) = .ok (t, r)) :
    Spec.parse env (fuel + 1) (113 :: bs) = some (den t, r) := by
  open_ref 113
  split at h1
  · rename_i m r0 heq1
    have ha := ih _ _ _ _ heq1 (by simp [plainT])
    simp only [den] at ha
    simp only [ha]
    split at h1
    · rename_i fn r1 heq2
      have hb := ih _ _ _ _ heq2 (by simp [plainT])
      simp only [den] at hb
      simp only [hb]
      split at h1
      · rename_i a r2 heq3
        have hc := ih _ _ _ _ heq3 (by simp [plainT])
        simp only [den] at hc
        simp only [hc]
        split at h1
        · rename_i hrange
          simp only [hrange, and_self, ↓reduceIte]
          simp at h1 ⊢
          obtain ⟨rfl, rfl⟩ := h1
          simp [den]
        · simp at h1
      · simp at h1
      · simp at h1
    · simp at h1
    · simp at h1
  · simp at h1
  · simp at h1

theorem ref_121 (h1 : dec x cfg (fuel + 1) d (121 :: bs) = .ok (t, r)) (hp : plainT t = true) :
    Spec.parse env (fuel + 1) (121 :: bs) = some (den t, r) := by
  open_ref 121
  simp only [rdU] at h1
  cases hl : rdN 8 bs with
  | none => simp [hl] at h1
  | some pl =>
    obtain ⟨hash, b0⟩ := pl
    simp only [hl] at h1 ⊢
    split at h1
    · simp at h1
    · rename_i t' r1 heq1
      split at h1
      · rename_i p
        simp at h1; obtain ⟨rfl, rfl⟩ := h1
        have ha := ih _ _ _ _ heq1 (by simp [plainT])
        simpa [den] using ha
      · rename_i n i c l
        simp at h1; obtain ⟨rfl, rfl⟩ := h1
        have ha := ih _ _ _ _ heq1 (by simp [plainT])
        simpa [den] using ha
      · rename_i n c ids l
        simp at h1; obtain ⟨rfl, rfl⟩ := h1
        have ha := ih _ _ _ _ heq1 (by simp [plainT])
        simpa [den] using ha
      · simp at h1; obtain ⟨rfl, rfl⟩ := h1
        exact ih _ _ _ _ heq1 hp

variable (ihN : RefN x cfg env fuel)
include ihN

theorem ref_104 (h1 : dec x cfg (fuel + 1) d (104 :: bs) = .ok (t, r)) (hp : plainT t = true) :
    Spec.parse env (fuel + 1) (104 :: bs) = some (den t, r) := by
  open_ref 104
  simp only [rdU] at h1
  cases hl : rdN 1 bs with
  | none => simp [hl] at h1
  | some pl =>
    obtain ⟨n, b0⟩ := pl
    simp only [hl] at h1 ⊢
    split at h1
    · rename_i l r1 heq1
      simp at h1; obtain ⟨rfl, rfl⟩ := h1
      simp only [plainT] at hp
      simp [ihN _ _ _ _ _ heq1 hp, den]
    · simp at h1

theorem ref_105 (h1 : dec x cfg (fuel + 1) d (105 :: bs) = .ok (t, r)) (hp : plainT t = true) :
    Spec.parse env (fuel + 1) (105 :: bs) = some (den t, r) := by
  open_ref 105
  simp only [rdU] at h1
  cases hl : rdN 4 bs with
  | none => simp [hl] at h1
  | some pl =>
    obtain ⟨n, b0⟩ := pl
    simp only [hl] at h1 ⊢
    split at h1
    · simp at h1
    split at h1
    · rename_i l r1 heq1
      simp at h1; obtain ⟨rfl, rfl⟩ := h1
      simp only [plainT] at hp
      simp [ihN _ _ _ _ _ heq1 hp, den]
    · simp at h1

theorem ref_108 (h1 : dec x cfg (fuel + 1) d (108 :: bs) = .ok (t, r)) (hp : plainT t = true) :
    Spec.parse env (fuel + 1) (108 :: bs) = some (den t, r) := by
  open_ref 108
  simp only [rdU] at h1
  cases hl : rdN 4 bs with
  | none => simp [hl] at h1
  | some pl =>
    obtain ⟨n, b0⟩ := pl
    simp only [hl] at h1 ⊢
    split at h1
    · simp at h1
    split at h1
    · simp at h1
    · rename_i l r1 heq1
      split at h1
      · simp at h1
      · rename_i r2 heq2
        simp at h1; obtain ⟨rfl, rfl⟩ := h1
        simp only [plainT] at hp
        have hb := ih _ _ _ _ heq2 (by simp [plainT])
        simp [ihN _ _ _ _ _ heq1 hp, hb, den]
      · rename_i tl r2 hne heq2
        simp at h1; obtain ⟨rfl, rfl⟩ := h1
        simp only [plainT, Bool.and_eq_true] at hp
        have hb := ih _ _ _ _ heq2 hp.2
        simp [ihN _ _ _ _ _ heq1 hp.1, hb, den]

end

/-- what the decoder accepts, the spec reader accepts at the same fuel, with the value the decoded term denotes and the
same remaining bytes — for every byte string whose decoded term is `plainT` (finite floats, no map, no internal fun),
when nothing inflates (`hz`).  `hpf`: the float-text parsers agree wherever Rust's accepts. -/
theorem dec_refines (x : Ext) (cfg : DecCfg) (env : Spec.Env)
    (hpf : ∀ f b, x.parseFloat f = some b → Spec.parseFloatText f = some b)
    (hz : ∀ z, x.inflate z = none)
    (hcache : ∀ i a, cfg.cache.lookup i = some a → env.refs[i]? = some (cps a)) :
    ∀ fuel, RefT x cfg env fuel ∧ RefN x cfg env fuel := by
  intro fuel
  induction fuel with
  | zero =>
    refine ⟨?_, ?_⟩
    · intro d bs t r h1 _; simp [dec] at h1
    · intro d n bs ts r h1 _
      cases n with
      | zero => simp [decN] at h1; obtain ⟨rfl, rfl⟩ := h1; simp [Spec.parseN, denL]
      | succ n => simp [decN] at h1
  | succ fuel ihh =>
    obtain ⟨ih, ihN⟩ := ihh
    refine ⟨?_, ?_⟩
    · intro d bs t r h1 hp
      cases bs with
      | nil => simp [dec] at h1
      | cons tagB bs =>
        have h1' := h1
        rw [dec.eq_3] at h1
        split at h1
        · simp at h1
        split at h1
        · simp at h1
        simp only at h1
        split at h1
        · rename_i heq
          have ht : tagB = 97 := UInt8.toNat_inj.mp (by simpa using heq)
          subst ht
          exact ref_97 h1'
        · rename_i heq
          have ht : tagB = 98 := UInt8.toNat_inj.mp (by simpa using heq)
          subst ht
          exact ref_98 h1'
        · rename_i heq
          have ht : tagB = 99 := UInt8.toNat_inj.mp (by simpa using heq)
          subst ht
          exact ref_99 hpf h1'
        · rename_i heq
          have ht : tagB = 70 := UInt8.toNat_inj.mp (by simpa using heq)
          subst ht
          exact ref_70 h1' hp
        · rename_i heq
          have ht : tagB = 100 := UInt8.toNat_inj.mp (by simpa using heq)
          subst ht
          exact ref_100 h1'
        · rename_i heq
          have ht : tagB = 118 := UInt8.toNat_inj.mp (by simpa using heq)
          subst ht
          exact ref_118 h1'
        · rename_i heq
          have ht : tagB = 119 := UInt8.toNat_inj.mp (by simpa using heq)
          subst ht
          exact ref_119 h1'
        · rename_i heq
          have ht : tagB = 115 := UInt8.toNat_inj.mp (by simpa using heq)
          subst ht
          exact ref_115 h1'
        · rename_i heq
          have ht : tagB = 104 := UInt8.toNat_inj.mp (by simpa using heq)
          subst ht
          exact ref_104 ih ihN h1' hp
        · rename_i heq
          have ht : tagB = 105 := UInt8.toNat_inj.mp (by simpa using heq)
          subst ht
          exact ref_105 ih ihN h1' hp
        · rename_i heq
          have ht : tagB = 106 := UInt8.toNat_inj.mp (by simpa using heq)
          subst ht
          exact ref_106 h1'
        · rename_i heq
          have ht : tagB = 107 := UInt8.toNat_inj.mp (by simpa using heq)
          subst ht
          exact ref_107 h1'
        · rename_i heq
          have ht : tagB = 108 := UInt8.toNat_inj.mp (by simpa using heq)
          subst ht
          exact ref_108 ih ihN h1' hp
        · rename_i heq
          have ht : tagB = 109 := UInt8.toNat_inj.mp (by simpa using heq)
          subst ht
          exact ref_109 h1'
        · rename_i heq
          have ht : tagB = 77 := UInt8.toNat_inj.mp (by simpa using heq)
          subst ht
          exact ref_77 h1'
        · rename_i heq
          have ht : tagB = 110 := UInt8.toNat_inj.mp (by simpa using heq)
          subst ht
          exact ref_110 h1'
        · rename_i heq
          have ht : tagB = 111 := UInt8.toNat_inj.mp (by simpa using heq)
          subst ht
          exact ref_111 h1'
        · -- MAP_EXT: the result is a map, excluded by the guard
          split at h1
          · simp at h1
          split at h1
          · simp at h1
          split at h1
          · simp at h1; obtain ⟨rfl, _⟩ := h1; simp [plainT] at hp
          · simp at h1
        · rename_i heq
          have ht : tagB = 88 := UInt8.toNat_inj.mp (by simpa using heq)
          subst ht
          exact ref_88 ih h1'
        · rename_i heq
          have ht : tagB = 103 := UInt8.toNat_inj.mp (by simpa using heq)
          subst ht
          exact ref_103 ih h1'
        · rename_i heq
          have ht : tagB = 120 := UInt8.toNat_inj.mp (by simpa using heq)
          subst ht
          exact ref_120 ih h1'
        · rename_i heq
          have ht : tagB = 89 := UInt8.toNat_inj.mp (by simpa using heq)
          subst ht
          exact ref_89 ih h1'
        · rename_i heq
          have ht : tagB = 102 := UInt8.toNat_inj.mp (by simpa using heq)
          subst ht
          exact ref_102 ih h1'
        · rename_i heq
          have ht : tagB = 90 := UInt8.toNat_inj.mp (by simpa using heq)
          subst ht
          exact ref_90 ih h1'
        · rename_i heq
          have ht : tagB = 114 := UInt8.toNat_inj.mp (by simpa using heq)
          subst ht
          exact ref_114 ih h1'
        · rename_i heq
          have ht : tagB = 101 := UInt8.toNat_inj.mp (by simpa using heq)
          subst ht
          exact ref_101 ih h1'
        · rename_i heq
          have ht : tagB = 113 := UInt8.toNat_inj.mp (by simpa using heq)
          subst ht
          exact ref_113 ih h1'
        · -- NEW_FUN_EXT: the result is an internal fun, excluded by the guard
          exact absurd hp (by
            intro hp
            repeat' split at h1
            all_goals (first | (simp at h1; done) | (simp at h1; obtain ⟨rfl, _⟩ := h1; simp [plainT] at hp)))
        · rename_i heq
          have ht : tagB = 121 := UInt8.toNat_inj.mp (by simpa using heq)
          subst ht
          exact ref_121 ih h1' hp
        · -- COMPRESSED: nothing inflates
          split at h1
          · simp at h1
          split at h1
          · simp at h1
          · simp [hz] at h1
        · rename_i heq
          have ht : tagB = 82 := UInt8.toNat_inj.mp (by simpa using heq)
          subst ht
          exact ref_82 hcache h1'
        · simp at h1
    · intro d n bs ts r h1 hp
      cases n with
      | zero => simp [decN] at h1; obtain ⟨rfl, rfl⟩ := h1; simp [Spec.parseN, denL]
      | succ n =>
        simp only [decN] at h1
        simp only [Spec.parseN]
        split at h1
        · simp at h1
        · rename_i t1 r1 heq1
          split at h1
          · simp at h1
          · rename_i ts2 r2 heq2
            simp at h1; obtain ⟨rfl, rfl⟩ := h1
            simp only [plainL, Bool.and_eq_true] at hp
            simp [ih _ _ _ _ heq1 hp.1, ihN _ _ _ _ _ heq2 hp.2, denL]

end Edp
