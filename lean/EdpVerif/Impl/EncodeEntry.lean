import EdpVerif.Impl.Encode
/-
Model of the other entry points of crates/erltf/src/encoder.rs that hand out the term encoder's bytes.
`encode_with_dist_header*` is `Impl/DistHeader.lean` (`encodeDist`).
-/
namespace Edp

/-- the two ways `encode_to_writer` fails: the encoder's size error, or `EncodeError::IoError` from the writer -/
inductive WriteErr where
  | enc (e : EncErr)
  | io
  deriving Repr, BEq, DecidableEq

/-- `encode_to_writer(term, &mut writer)`: `encode(term)?` and then `writer.write_all(&encoded)?`.
The writer is the bytes written so far plus its answer to `write_all` (`accepts = false`: an I/O error; nothing is
modelled as written then). -/
def encodeToWriter (t : Term) (written : Bytes) (accepts : Bool) : Except WriteErr Bytes :=
  match encode t with
  | .error e => .error (.enc e)
  | .ok b => if accepts then .ok (written ++ b) else .error .io

end Edp
