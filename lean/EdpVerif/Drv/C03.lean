import EdpVerif.Drv.Etf
namespace Edp.Drv
open Edp

/-- C03 oracle: `c03 <bytes> <oracle> <impl result with `~` for spaces>`.
The Spec reads the bytes; when it accepts them as exactly one value, the library must have returned a term denoting
that value (maps as unordered sets of entries with distinct keys); when the Spec rejects, nothing is demanded. -/
def handleC03 : List String → Option String
  | ["c03", h, o, res] => some <| run do
    let b ← getHex h
    let orc := parseOracle o
    match Spec.parseTop orc.env b with
    | some (v, []) =>
      if !Spec.keysDistinct v then pure "ok" else  -- not a valid encoding: duplicate keys
      match res.splitOn "~" with
      | ["ok", t] =>
        let t ← getTerm t
        if Value.same v t.den then pure "ok" else pure ("FAIL spec=" ++ v.text ++ " decoded=" ++ t.den.text)
      | _ => pure ("FAIL spec=" ++ v.text ++ " library=" ++ res)
    | _ => pure "ok"
  | _ => none

end Edp.Drv
