import EdpVerif.Lemmas.Procs
/-! Invariants about entries that reach a CLOSED link / monitor set (the repaired `ExitSet`): every refused entry is
answered by exactly one `noproc` notice (sent, or the receiver was not to be found), never by two, and until then exactly
one client task is inside the call that owes it. Used by Props/C18.lean. -/
set_option linter.unusedSimpArgs false
set_option linter.unusedVariables false
namespace Edp.Impl.Procs

/-! ### the closed flags follow the program counter -/

def ClosedInv (st : St) : Prop := ∀ p,
  (st.procs p).closedL = (st.procs p).pc.startedL ∧ (st.procs p).closedM = (st.procs p).pc.linksDone

theorem closedInv_client {st st' : St} {t : Tid} (hi : ClosedInv st) (h : clientStep st t = some st') : ClosedInv st' := by
  step_cases h
  all_goals intro q
  all_goals have hq := hi q
  all_goals ((try simp only [St.setC, St.ret, St.modP, St.deliver, Proc.push, upd_apply]) <;> (repeat' split) <;>
    (try simp_all [PPc.startedL, PPc.linksDone]))

theorem closedInv_proc {st st' : St} {p : Pid} {k : Nat} (hi : ClosedInv st) (h : procStep st p k = some st') : ClosedInv st' := by
  step_cases h
  all_goals intro q
  all_goals have hq := hi q
  all_goals have hp := hi p
  all_goals ((try simp only [St.setC, St.ret, St.modP, St.deliver, Proc.push, upd_apply]) <;> (repeat' split) <;>
    (try simp_all [PPc.startedL, PPc.linksDone]))

/-! ### a closed set is its snapshot followed by the late entries -/

def LinkSplit (st : St) : Prop := ∀ p a,
  ((st.procs p).closedL = true → (st.procs p).links.count a = (st.procs p).snapL.count a + st.lateL.count (p, a)) ∧
  ((st.procs p).closedL = false → st.lateL.count (p, a) = 0)

def MonSplit (st : St) : Prop := ∀ p (x : Pid × Ref),
  ((st.procs p).closedM = true → (st.procs p).monitors.count x = (st.procs p).snapM.count x + st.lateM.count (p, x)) ∧
  ((st.procs p).closedM = false → st.lateM.count (p, x) = 0)

theorem count_setIns_mem {α : Type} [DecidableEq α] {x : α} {l : List α} (h : x ∈ l) : setIns x l = l := by
  simp [setIns, h]

theorem linkSplit_client {st st' : St} {t : Tid} (hb : Blank st) (hi : LinkSplit st) (h : clientStep st t = some st') :
    LinkSplit st' := by
  have hbn := hb st.nextPid (Nat.le_refl _)
  step_cases h
  all_goals intro q a
  all_goals have hq := hi q a
  all_goals have hn := hi st.nextPid a
  all_goals ((try simp only [St.setC, St.ret, St.modP, St.deliver, Proc.push, upd_apply]) <;> (repeat' split) <;>
    (try simp_all [List.count_append, List.count_cons, List.count_nil, setIns]))
  all_goals first
    | omega
    | (split <;> simp_all [List.count_append, List.count_cons] <;> omega)
    | (intro e; simp_all; done)
    | (constructor <;> (intro _ e; exact absurd e.symm ‹_›))

theorem linkSplit_proc {st st' : St} {p : Pid} {k : Nat} (hc : ClosedInv st) (hi : LinkSplit st) (h : procStep st p k = some st') :
    LinkSplit st' := by
  have hcp := hc p
  step_cases h
  all_goals intro q a
  all_goals have hq := hi q a
  all_goals have hp := hi p a
  all_goals ((try simp only [St.setC, St.ret, St.modP, St.deliver, Proc.push, upd_apply]) <;> (repeat' split) <;>
    (try simp_all [List.count_append, List.count_cons, List.count_nil, PPc.startedL, PPc.linksDone]))

theorem monSplit_client {st st' : St} {t : Tid} (hb : Blank st) (hi : MonSplit st) (h : clientStep st t = some st') :
    MonSplit st' := by
  have hbn := hb st.nextPid (Nat.le_refl _)
  step_cases h
  all_goals intro q a
  all_goals have hq := hi q a
  all_goals have hn := hi st.nextPid a
  all_goals ((try simp only [St.setC, St.ret, St.modP, St.deliver, Proc.push, upd_apply]) <;> (repeat' split) <;>
    (try simp_all [List.count_append, List.count_cons, List.count_nil, setIns]))
  all_goals first
    | omega
    | (split <;> simp_all [List.count_append, List.count_cons] <;> omega)
    | (intro e; simp_all; done)
    | (constructor <;> (intro _ e; exact absurd e.symm ‹_›))

theorem monSplit_proc {st st' : St} {p : Pid} {k : Nat} (hc : ClosedInv st) (hi : MonSplit st) (h : procStep st p k = some st') :
    MonSplit st' := by
  have hcp := hc p
  step_cases h
  all_goals intro q a
  all_goals have hq := hi q a
  all_goals have hp := hi p a
  all_goals ((try simp only [St.setC, St.ret, St.modP, St.deliver, Proc.push, upd_apply]) <;> (repeat' split) <;>
    (try simp_all [List.count_append, List.count_cons, List.count_nil, PPc.startedL, PPc.linksDone]))

/-! ### three states of a late entry: unknown, owed by exactly one client task, answered -/

structure LateG {α : Type} [BEq α] [LawfulBEq α] (pend : CPc → Option α) (late done : List α) (cpc : Tid → CPc) : Prop where
  owed : ∀ x, (∃ t, pend (cpc t) = some x) → late.count x = done.count x + 1
  settled : ∀ x, (∀ t, pend (cpc t) ≠ some x) → late.count x = done.count x
  uniq : ∀ t t' x, pend (cpc t) = some x → pend (cpc t') = some x → t = t'

theorem lateG_step {α : Type} [BEq α] [LawfulBEq α] [DecidableEq α] {pend : CPc → Option α} {late done late' done' : List α}
    {cpc cpc' : Tid → CPc} {t : Tid}
    (hi : LateG pend late done cpc) (hne : ∀ t', t' ≠ t → cpc' t' = cpc t')
    (hcase :
      (pend (cpc t) = none ∧ ∃ x, pend (cpc' t) = some x ∧ late' = late ++ [x] ∧ done' = done ∧ late.count x = 0) ∨
      (∃ x, pend (cpc t) = some x ∧ pend (cpc' t) = none ∧ late' = late ∧
        ∀ y, done'.count y = done.count y + (if y = x then 1 else 0)) ∨
      (pend (cpc' t) = pend (cpc t) ∧ late' = late ∧ done' = done)) :
    LateG pend late' done' cpc' := by
  obtain ⟨ho, hs, hu⟩ := hi
  rcases hcase with ⟨hp0, x, hp1, hl, hd, hx0⟩ | ⟨x, hp0, hp1, hl, hd⟩ | ⟨hp, hl, hd⟩
  · -- a refusal: task `t` now owes `x`
    have hnone : ∀ t', pend (cpc t') ≠ some x := by
      intro t' ht'
      have := ho x ⟨t', ht'⟩
      omega
    have hdx : done.count x = 0 := by have := hs x hnone; omega
    subst hl hd
    refine ⟨?_, ?_, ?_⟩
    · rintro y ⟨t', ht'⟩
      by_cases hy : y = x
      · subst hy
        simp only [List.count_append, List.count_cons, List.count_nil, beq_self_eq_true, ↓reduceIte]
        omega
      · have hte : t' ≠ t := by
          intro e; subst e; rw [hp1] at ht'; exact hy (Option.some.inj ht').symm
        rw [hne t' hte] at ht'
        have := ho y ⟨t', ht'⟩
        have hxy : (x == y) = false := by simp [Ne.symm hy]
        simp only [List.count_append, List.count_cons, List.count_nil, hxy]
        simpa using this
    · intro y hall
      have hy : y ≠ x := by intro e; subst e; exact hall t hp1
      have hold : ∀ t', pend (cpc t') ≠ some y := by
        intro t' ht'
        by_cases e : t' = t
        · subst e; rw [hp0] at ht'; cases ht'
        · exact hall t' (by rw [hne t' e]; exact ht')
      have := hs y hold
      have hxy : (x == y) = false := by simp [Ne.symm hy]
      simp only [List.count_append, List.count_cons, List.count_nil, hxy]
      simpa using this
    · intro t1 t2 y h1 h2
      by_cases e1 : t1 = t <;> by_cases e2 : t2 = t
      · rw [e1, e2]
      · subst e1
        rw [hp1] at h1; cases h1
        rw [hne t2 e2] at h2
        exact absurd h2 (hnone t2)
      · subst e2
        rw [hp1] at h2; cases h2
        rw [hne t1 e1] at h1
        exact absurd h1 (hnone t1)
      · rw [hne t1 e1] at h1
        rw [hne t2 e2] at h2
        exact hu t1 t2 y h1 h2
  · -- the owed notice is settled (sent, or the receiver could not be found)
    subst hl
    have honly : ∀ t', t' ≠ t → pend (cpc t') ≠ some x := fun t' hte ht' => hte (hu t' t x ht' hp0)
    refine ⟨?_, ?_, ?_⟩
    · rintro y ⟨t', ht'⟩
      have hte : t' ≠ t := by intro e; subst e; rw [hp1] at ht'; cases ht'
      rw [hne t' hte] at ht'
      have hy : y ≠ x := by intro e; subst e; exact honly t' hte ht'
      have := ho y ⟨t', ht'⟩
      rw [hd y]; simp only [hy, ↓reduceIte]; omega
    · intro y hall
      by_cases hy : y = x
      · subst hy
        have := ho y ⟨t, hp0⟩
        rw [hd y]; simp only [↓reduceIte]; exact this
      · have hold : ∀ t', pend (cpc t') ≠ some y := by
          intro t' ht'
          by_cases e : t' = t
          · subst e; rw [hp0] at ht'; exact hy (Option.some.inj ht').symm
          · exact hall t' (by rw [hne t' e]; exact ht')
        have := hs y hold
        rw [hd y]; simp only [hy, ↓reduceIte]; omega
    · intro t1 t2 y h1 h2
      have e1 : t1 ≠ t := by intro e; subst e; rw [hp1] at h1; cases h1
      have e2 : t2 ≠ t := by intro e; subst e; rw [hp1] at h2; cases h2
      rw [hne t1 e1] at h1
      rw [hne t2 e2] at h2
      exact hu t1 t2 y h1 h2
  · -- nothing about late entries changes
    subst hl hd
    have hsame : ∀ t', pend (cpc' t') = pend (cpc t') := by
      intro t'
      by_cases e : t' = t
      · subst e; exact hp
      · rw [hne t' e]
    refine ⟨?_, ?_, ?_⟩
    · rintro y ⟨t', ht'⟩
      exact ho y ⟨t', by rw [← hsame]; exact ht'⟩
    · intro y hall
      exact hs y (fun t' ht' => hall t' (by rw [hsame]; exact ht'))
    · intro t1 t2 y h1 h2
      rw [hsame] at h1 h2
      exact hu t1 t2 y h1 h2

def doneL (st : St) : List (Pid × Pid) := st.sentNL ++ st.skipNL ++ st.noRegL
def doneM (st : St) : List (Pid × (Pid × Ref)) := st.sentNM ++ st.skipNM ++ st.noRegM

def LateL (st : St) : Prop := LateG CPc.pendL st.lateL (doneL st) st.cpc
def LateM (st : St) : Prop := LateG CPc.pendM st.lateM (doneM st) st.cpc

/-- what a client step does to the late-link bookkeeping -/
theorem clientStep_lateL' {st st' : St} {t : Tid} (h : clientStep st t = some st') :
    ((st.cpc t).pendL = none ∧ (st'.cpc t).pendL.isSome = true ∧ ∀ x, (st'.cpc t).pendL = some x →
        (st'.lateL = st.lateL ++ [x] ∧ doneL st' = doneL st ∧
          (st.procs x.1).closedL = true ∧ x.2 ∉ (st.procs x.1).links)) ∨
    ((st.cpc t).pendL.isSome = true ∧ (st'.cpc t).pendL = none ∧ ∀ x, (st.cpc t).pendL = some x →
        (st'.lateL = st.lateL ∧ ∀ y, (doneL st').count y = (doneL st).count y + (if y = x then 1 else 0))) ∨
    ((st'.cpc t).pendL = (st.cpc t).pendL ∧ st'.lateL = st.lateL ∧ doneL st' = doneL st) := by
  step_cases h
  all_goals first
    | (right; right; simp [St.setC, St.ret, St.modP, St.deliver, doneL, CPc.pendL, *]; done)
    | (left; simp_all [St.setC, St.ret, St.modP, St.deliver, doneL, CPc.pendL]; done)
    | (right; left
       simp only [St.setC, St.ret, St.modP, St.deliver, doneL, CPc.pendL, upd_same, *, Option.isSome_some, true_and,
         Option.some.injEq]
       intro x hx
       subst hx
       intro y
       split
       · next hy => subst hy; simp [List.count_append, List.count_cons] <;> omega
       · next hy => simp [List.count_append, List.count_cons, hy, Ne.symm hy])

theorem clientStep_lateL {st st' : St} {t : Tid} (h : clientStep st t = some st') :
    ((st.cpc t).pendL = none ∧ ∃ x, (st'.cpc t).pendL = some x ∧ st'.lateL = st.lateL ++ [x] ∧ doneL st' = doneL st ∧
        (st.procs x.1).closedL = true ∧ x.2 ∉ (st.procs x.1).links) ∨
    (∃ x, (st.cpc t).pendL = some x ∧ (st'.cpc t).pendL = none ∧ st'.lateL = st.lateL ∧
        ∀ y, (doneL st').count y = (doneL st).count y + (if y = x then 1 else 0)) ∨
    ((st'.cpc t).pendL = (st.cpc t).pendL ∧ st'.lateL = st.lateL ∧ doneL st' = doneL st) := by
  rcases clientStep_lateL' h with ⟨h0, h1, h2⟩ | ⟨h0, h1, h2⟩ | h3
  · obtain ⟨x, hx⟩ := Option.isSome_iff_exists.mp h1
    exact Or.inl ⟨h0, x, hx, h2 x hx⟩
  · obtain ⟨x, hx⟩ := Option.isSome_iff_exists.mp h0
    exact Or.inr (Or.inl ⟨x, hx, h1, h2 x hx⟩)
  · exact Or.inr (Or.inr h3)

theorem clientStep_lateM' {st st' : St} {t : Tid} (h : clientStep st t = some st') :
    ((st.cpc t).pendM = none ∧ (st'.cpc t).pendM.isSome = true ∧ ∀ x, (st'.cpc t).pendM = some x →
        (st'.lateM = st.lateM ++ [x] ∧ doneM st' = doneM st ∧
          (st.procs x.1).closedM = true ∧ x.2 ∉ (st.procs x.1).monitors)) ∨
    ((st.cpc t).pendM.isSome = true ∧ (st'.cpc t).pendM = none ∧ ∀ x, (st.cpc t).pendM = some x →
        (st'.lateM = st.lateM ∧ ∀ y, (doneM st').count y = (doneM st).count y + (if y = x then 1 else 0))) ∨
    ((st'.cpc t).pendM = (st.cpc t).pendM ∧ st'.lateM = st.lateM ∧ doneM st' = doneM st) := by
  step_cases h
  all_goals first
    | (right; right; simp [St.setC, St.ret, St.modP, St.deliver, doneM, CPc.pendM, *]; done)
    | (left; simp_all [St.setC, St.ret, St.modP, St.deliver, doneM, CPc.pendM]; done)
    | (right; left
       simp only [St.setC, St.ret, St.modP, St.deliver, doneM, CPc.pendM, upd_same, *, Option.isSome_some, true_and,
         Option.some.injEq]
       intro x hx
       subst hx
       intro y
       split
       · next hy => subst hy; simp [List.count_append, List.count_cons] <;> omega
       · next hy => simp [List.count_append, List.count_cons, hy, Ne.symm hy])

theorem clientStep_lateM {st st' : St} {t : Tid} (h : clientStep st t = some st') :
    ((st.cpc t).pendM = none ∧ ∃ x, (st'.cpc t).pendM = some x ∧ st'.lateM = st.lateM ++ [x] ∧ doneM st' = doneM st ∧
        (st.procs x.1).closedM = true ∧ x.2 ∉ (st.procs x.1).monitors) ∨
    (∃ x, (st.cpc t).pendM = some x ∧ (st'.cpc t).pendM = none ∧ st'.lateM = st.lateM ∧
        ∀ y, (doneM st').count y = (doneM st).count y + (if y = x then 1 else 0)) ∨
    ((st'.cpc t).pendM = (st.cpc t).pendM ∧ st'.lateM = st.lateM ∧ doneM st' = doneM st) := by
  rcases clientStep_lateM' h with ⟨h0, h1, h2⟩ | ⟨h0, h1, h2⟩ | h3
  · obtain ⟨x, hx⟩ := Option.isSome_iff_exists.mp h1
    exact Or.inl ⟨h0, x, hx, h2 x hx⟩
  · obtain ⟨x, hx⟩ := Option.isSome_iff_exists.mp h0
    exact Or.inr (Or.inl ⟨x, hx, h1, h2 x hx⟩)
  · exact Or.inr (Or.inr h3)

theorem procStep_late {st st' : St} {p : Pid} {k : Nat} (h : procStep st p k = some st') :
    st'.cpc = st.cpc ∧ st'.lateL = st.lateL ∧ doneL st' = doneL st ∧ st'.lateM = st.lateM ∧ doneM st' = doneM st ∧
      st'.sentNL = st.sentNL ∧ st'.skipNL = st.skipNL ∧ st'.noRegL = st.noRegL ∧
      st'.sentNM = st.sentNM ∧ st'.skipNM = st.skipNM ∧ st'.noRegM = st.noRegM := by
  step_cases h
  all_goals simp [St.setC, St.ret, St.modP, St.deliver, doneL, doneM]

theorem lateL_step : ∀ st e st', LinkSplit st → LateL st → stepEv st e = some st' → LateL st' := by
  intro st e st' hs hi h
  cases e with
  | start t op =>
    simp only [stepEv] at h
    split at h
    · next hidle =>
      cases h
      refine lateG_step (t := t) hi (fun t' ht => by simp [St.setC, upd_ne _ _ ht]) (Or.inr (Or.inr ⟨?_, rfl, rfl⟩))
      simp only [St.setC, upd_same, hidle]
      cases op <;> rfl
    · cases h
  | cont t =>
    refine lateG_step (t := t) hi (fun t' ht => clientStep_cpc_ne h ht) ?_
    rcases clientStep_lateL h with ⟨h0, x, h1, h2, h3, hcl, hnm⟩ | h2 | h3
    · refine Or.inl ⟨h0, x, h1, h2, h3, ?_⟩
      have := (hs x.1 x.2).1 hcl
      have h0 : (st.procs x.1).links.count x.2 = 0 := List.count_eq_zero.mpr hnm
      have : st.lateL.count (x.1, x.2) = 0 := by omega
      simpa using this
    · exact Or.inr (Or.inl h2)
    · exact Or.inr (Or.inr h3)
  | proc p k =>
    obtain ⟨hc, hl, hd, _⟩ := procStep_late h
    refine lateG_step (t := 0) hi (fun t' _ => by rw [hc]) (Or.inr (Or.inr ⟨by rw [hc], hl, hd⟩))

theorem lateM_step : ∀ st e st', MonSplit st → LateM st → stepEv st e = some st' → LateM st' := by
  intro st e st' hs hi h
  cases e with
  | start t op =>
    simp only [stepEv] at h
    split at h
    · next hidle =>
      cases h
      refine lateG_step (t := t) hi (fun t' ht => by simp [St.setC, upd_ne _ _ ht]) (Or.inr (Or.inr ⟨?_, rfl, rfl⟩))
      simp only [St.setC, upd_same, hidle]
      cases op <;> rfl
    · cases h
  | cont t =>
    refine lateG_step (t := t) hi (fun t' ht => clientStep_cpc_ne h ht) ?_
    rcases clientStep_lateM h with ⟨h0, x, h1, h2, h3, hcl, hnm⟩ | h2 | h3
    · refine Or.inl ⟨h0, x, h1, h2, h3, ?_⟩
      have := (hs x.1 x.2).1 hcl
      have h0 : (st.procs x.1).monitors.count x.2 = 0 := List.count_eq_zero.mpr hnm
      have : st.lateM.count (x.1, x.2) = 0 := by omega
      simpa using this
    · exact Or.inr (Or.inl h2)
    · exact Or.inr (Or.inr h3)
  | proc p k =>
    obtain ⟨hc, _, _, hl, hd, _⟩ := procStep_late h
    refine lateG_step (t := 0) hi (fun t' _ => by rw [hc]) (Or.inr (Or.inr ⟨by rw [hc], hl, hd⟩))

/-! ### the `noproc` notices in a mailbox's history are the ones counted as sent -/

def ExitNCount (st : St) : Prop := ∀ p a, st.timesAccepted a (.exitNoproc p) = st.sentNL.count (p, a)
def MonNCount (st : St) : Prop := ∀ p a r, st.timesAccepted a (.monNoproc p r) = st.sentNM.count (p, (a, r))

theorem exitNCount_client {st st' : St} {t : Tid} (hb : Blank st) (hi : ExitNCount st) (h : clientStep st t = some st') :
    ExitNCount st' := by
  have hbn := hb st.nextPid (Nat.le_refl _)
  step_cases h
  all_goals intro q a
  all_goals have hq := hi q a
  all_goals have hq1 := hi q st.nextPid
  all_goals simp only [St.timesAccepted] at hq hq1 ⊢
  all_goals ((try simp only [St.setC, St.ret, St.modP, St.deliver, Proc.push, upd_apply]) <;> (repeat' split) <;>
    (try simp_all [List.count_append, List.count_cons, List.count_nil]))
  all_goals first
    | omega
    | (intro e; simp_all; done)
    | (intro _ e; exact absurd e.symm ‹_›)
    | (intro _ e _; exact absurd e.symm ‹_›)
    | (split <;> simp_all <;> omega)

theorem exitNCount_proc {st st' : St} {p : Pid} {k : Nat} (hi : ExitNCount st) (h : procStep st p k = some st') :
    ExitNCount st' := by
  step_cases h
  all_goals intro q a
  all_goals have hq := hi q a
  all_goals simp only [St.timesAccepted] at hq ⊢
  all_goals ((try simp only [St.setC, St.ret, St.modP, St.deliver, Proc.push, upd_apply]) <;> (repeat' split) <;>
    (try simp_all [List.count_append, List.count_cons, List.count_nil]))

theorem monNCount_client {st st' : St} {t : Tid} (hb : Blank st) (hi : MonNCount st) (h : clientStep st t = some st') :
    MonNCount st' := by
  have hbn := hb st.nextPid (Nat.le_refl _)
  step_cases h
  all_goals intro q a r
  all_goals have hq := hi q a r
  all_goals have hq1 := hi q st.nextPid r
  all_goals simp only [St.timesAccepted] at hq hq1 ⊢
  all_goals ((try simp only [St.setC, St.ret, St.modP, St.deliver, Proc.push, upd_apply]) <;> (repeat' split) <;>
    (try simp_all [List.count_append, List.count_cons, List.count_nil]))
  all_goals first
    | omega
    | (intro e; simp_all; done)
    | (intro _ e; exact absurd e.symm ‹_›)
    | (intro _ e _; exact absurd e.symm ‹_›)
    | (split <;> simp_all <;> omega)

theorem monNCount_proc {st st' : St} {p : Pid} {k : Nat} (hi : MonNCount st) (h : procStep st p k = some st') :
    MonNCount st' := by
  step_cases h
  all_goals intro q a r
  all_goals have hq := hi q a r
  all_goals simp only [St.timesAccepted] at hq ⊢
  all_goals ((try simp only [St.setC, St.ret, St.modP, St.deliver, Proc.push, upd_apply]) <;> (repeat' split) <;>
    (try simp_all [List.count_append, List.count_cons, List.count_nil]))

/-! ### a receiver whose mailbox was closed when the `noproc` notice was due has left the registry -/

def SkipN (st : St) : Prop :=
  (∀ x, x ∈ st.skipNL → (st.procs x.2).pc.gone = true) ∧ (∀ x, x ∈ st.skipNM → (st.procs x.2.1).pc.gone = true)

theorem clientStep_skipN {st st' : St} {t : Tid} (h : clientStep st t = some st') :
    (∀ x, x ∈ st'.skipNL → x ∈ st.skipNL ∨ (st.procs x.2).closed = true) ∧
    (∀ x, x ∈ st'.skipNM → x ∈ st.skipNM ∨ (st.procs x.2.1).closed = true) := by
  step_cases h
  all_goals constructor
  all_goals intro x hx
  all_goals simp only [St.setC, St.ret, St.modP, St.deliver] at hx
  all_goals first
    | (left; exact hx)
    | (rcases List.mem_append.mp hx with hx | hx
       · left; exact hx
       · right; simp only [List.mem_singleton] at hx; subst hx; assumption)

theorem skipN_step : ∀ st e st', RegInv st → SkipN st → stepEv st e = some st' → SkipN st' := by
  intro st e st' hr hi h
  have hg : ∀ q, (st.procs q).pc.gone = true → (st'.procs q).pc.gone = true := fun q hq =>
    pc_stable (f := PPc.gone) rfl (fun _ _ _ _ h hg => (procStep_self h).2.2.2.2.2.2.2 hg) hr h hq
  have hcl : ∀ q, (st.procs q).closed = true → (st'.procs q).pc.gone = true := fun q hq =>
    hg q (by rw [hr.closedDead q hq]; rfl)
  cases e with
  | start t op =>
    simp only [stepEv] at h
    split at h
    · cases h; exact hi
    · cases h
  | cont t =>
    obtain ⟨h1, h2⟩ := clientStep_skipN h
    refine ⟨fun x hx => ?_, fun x hx => ?_⟩
    · rcases h1 x hx with h | h
      · exact hg _ (hi.1 x h)
      · exact hcl _ h
    · rcases h2 x hx with h | h
      · exact hg _ (hi.2 x h)
      · exact hcl _ h
  | proc p k =>
    obtain ⟨_, _, _, _, _, _, e1, _, _, e2, _⟩ := procStep_late h
    refine ⟨fun x hx => ?_, fun x hx => ?_⟩
    · rw [e1] at hx; exact hg _ (hi.1 x hx)
    · rw [e2] at hx; exact hg _ (hi.2 x hx)

/-! ### everything together -/

structure AllInv2 (st : St) : Prop where
  base : AllInv st
  closed : ClosedInv st
  lsplit : LinkSplit st
  msplit : MonSplit st
  lateL : LateL st
  lateM : LateM st
  exitN : ExitNCount st
  monN : MonNCount st
  skipN : SkipN st

theorem lateG_init {α : Type} [BEq α] [LawfulBEq α] (pend : CPc → Option α) (h : pend .idle = none) :
    LateG pend [] [] (fun _ => CPc.idle) := by
  refine ⟨?_, fun _ _ => rfl, ?_⟩
  · rintro x ⟨t, ht⟩
    rw [h] at ht; cases ht
  · intro t t' x ht _
    rw [h] at ht; cases ht

theorem allInv2_init (cap : Nat) : AllInv2 (St.init cap) := by
  refine ⟨allInv_init cap, ?_, ?_, ?_, lateG_init _ rfl, lateG_init _ rfl, ?_, ?_, ?_⟩
  · intro p; simp [St.init, PPc.startedL, PPc.linksDone]
  · intro p a; simp [St.init]
  · intro p a; simp [St.init]
  · intro p a; simp [St.init, St.timesAccepted]
  · intro p a r; simp [St.init, St.timesAccepted]
  · constructor <;> simp [St.init]

theorem allInv2_step : ∀ st e st', AllInv2 st → stepEv st e = some st' → AllInv2 st' := by
  intro st e st' hi h
  have hbase := allInv_step st e st' hi.base h
  have hl := lateL_step st e st' hi.lsplit hi.lateL h
  have hm := lateM_step st e st' hi.msplit hi.lateM h
  have hsk := skipN_step st e st' hi.base.reg hi.skipN h
  cases e with
  | start t op =>
    simp only [stepEv] at h
    split at h
    · cases h
      exact ⟨hbase, hi.closed, hi.lsplit, hi.msplit, hl, hm, hi.exitN, hi.monN, hsk⟩
    · cases h
  | cont t =>
    exact ⟨hbase, closedInv_client hi.closed h, linkSplit_client hi.base.blank hi.lsplit h,
      monSplit_client hi.base.blank hi.msplit h, hl, hm, exitNCount_client hi.base.blank hi.exitN h,
      monNCount_client hi.base.blank hi.monN h, hsk⟩
  | proc p k =>
    exact ⟨hbase, closedInv_proc hi.closed h, linkSplit_proc hi.closed hi.lsplit h, monSplit_proc hi.closed hi.msplit h,
      hl, hm, exitNCount_proc hi.exitN h, monNCount_proc hi.monN h, hsk⟩

theorem allInv2_run (cap : Nat) (evs : List Ev) : AllInv2 (run (St.init cap) evs) :=
  run_induction allInv2_step (allInv2_init cap) evs

end Edp.Impl.Procs
