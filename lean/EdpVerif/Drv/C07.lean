import EdpVerif.Drv.Common
namespace Edp.Drv

/-- driver requests of property C07 (stub: nothing handled yet) -/
def handleC07 : List String → Option String
  | _ => none

end Edp.Drv
