import EdpVerif.Drv.Etf
import EdpVerif.Spec.EtfLimits
namespace Edp.Drv
open Edp

/-- C03 oracle: `c03 <bytes> <oracle> <impl result with `~` for spaces>`.
The Spec reads the bytes; when it accepts them as exactly one value, the library must have returned a term denoting
that value (maps as unordered sets of entries with distinct keys); when the Spec rejects, nothing is demanded.
Completeness (C03_valid_is_decoded) is judged here too: a valid encoding must have been ACCEPTED whenever it stays
within the library's published limits (`Spec.withinTop`, Spec/EtfLimits.lean); beyond them nothing is demanded.
`c03lim` reports on which side of the limits the bytes are, so that the harness can count (and pin) its boundary cases. -/
def handleC03 : List String → Option String
  | ["c03", h, o, res] => some <| run do
    let b ← getHex h
    let orc := parseOracle o
    match Spec.parseTop orc.env b with
    | some (v, []) =>
      if !Spec.keysDistinct v then pure "ok" else  -- not a valid encoding: duplicate keys
      if !Spec.withinTop orc.env b then pure "ok" else  -- beyond the published limits: nothing demanded
      match res.splitOn "~" with
      | ["ok", t] =>
        let t ← getTerm t
        -- structural equality first: `Value.same` is exponential in the nesting depth of map keys
        if v == t.den || Value.same v t.den then pure "ok" else pure ("FAIL spec=" ++ v.text ++ " decoded=" ++ t.den.text)
      | _ => pure ("FAIL spec=" ++ v.text ++ " library=" ++ res)
    | _ => pure "ok"
  | ["c03lim", h, o] => some <| run do
    let b ← getHex h
    let orc := parseOracle o
    match Spec.parseTop orc.env b with
    | some (_, _) => pure (if Spec.withinTop orc.env b then "within" else "beyond")
    | none => pure "invalid"
  | _ => none

end Edp.Drv
