import EdpVerif.Impl.Term
/-!
What "OTP-style behaviours answer each call once to its caller" asks of a behaviour process, written from the OTP message
shapes (gen.erl / gen_server.erl: a call is the message `{'$gen_call', {Pid, Ref}, Request}`, its answer is `{Ref, Reply}`
sent to `Pid`; a cast `{'$gen_cast', Request}` and any other message are never answered) and from what this library adds for
its event manager (`{'$gen_call', {Pid, Ref}, HandlerId, Request}` answered `{Ref, Reply}`, `{'$gen_which_handlers', {Pid, Ref}}`
answered `{Ref, Ids}`, `{'$gen_sync_notify', Event}` acknowledged with `ok` to the sender of the message).

Independent of `Impl/Behaviours.lean`: own message type, own reader of the shapes. A history is the list of messages in mailbox
order, each with what the user's callback answered and who could be reached at that moment.
-/
namespace Edp.Spec.Beh
open Edp

inductive Msg where
  | regular (frm : Option PidF) (body : Term)
  | control
  | exit (reason : Term)
  | other
  deriving Repr, Inhabited

/-- what the user's callback did with the message (irrelevant for messages that cause no callback with a result) -/
inductive Answer where
  | reply (v : Term)
  | noReply
  | failed
  deriving Repr, Inhabited

structure Step where
  msg : Msg
  ans : Answer
  /-- the process is registered and its mailbox can take a message -/
  reach : PidF → Bool

/-- the atoms of the protocol, as the bytes of their names -/
def tagGenCall : Bytes := [36, 103, 101, 110, 95, 99, 97, 108, 108]                    -- '$gen_call' (gen.erl)
def tagGenCast : Bytes := [36, 103, 101, 110, 95, 99, 97, 115, 116]                    -- '$gen_cast' (gen_server.erl)
def tagNotify : Bytes := [36, 103, 101, 110, 95, 110, 111, 116, 105, 102, 121]           -- '$gen_notify' (this library)
def tagSyncNotify : Bytes := [36, 103, 101, 110, 95, 115, 121, 110, 99, 95, 110, 111, 116, 105, 102, 121]  -- '$gen_sync_notify'
def tagWhich : Bytes := [36, 103, 101, 110, 95, 119, 104, 105, 99, 104, 95, 104, 97, 110, 100, 108, 101, 114, 115]  -- '$gen_which_handlers'
def atomOk : Bytes := [111, 107]
def atomError : Bytes := [101, 114, 114, 111, 114]
def atomNormal : Bytes := [110, 111, 114, 109, 97, 108]

def isAtom (t : Term) (name : Bytes) : Bool :=
  match t with
  | .atom b => decide (b = name)
  | _ => false

/-- `{'$gen_call', {Pid, Ref}, Request}` -/
def callOf : Term → Option (PidF × Term × Term)
  | .tuple [tag, .tuple [.pid p, .ref n c i l], req] =>
    if isAtom tag tagGenCall then some (p, .ref n c i l, req) else none
  | _ => none

/-- what a generic server owes for ONE message it handles: a call whose callback replies, from a caller that can be reached,
is owed `{Ref, Reply}`; nothing else is owed anything -/
def owed (s : Step) : Option (PidF × Term) :=
  match s.msg with
  | .regular _ body =>
    match callOf body, s.ans with
    | some (p, r, _), .reply v => if s.reach p then some (p, .tuple [r, v]) else none
    | _, _ => none
  | _ => none

/-- the only thing that ends a server: the callback of a message failed (crashed, in OTP terms) -/
def ends (s : Step) : Bool :=
  match s.msg, s.ans with
  | .regular _ _, .failed => true
  | _, _ => false

/-- the messages the server gets to -/
def handled : List Step → List Step
  | [] => []
  | s :: r => if ends s then [s] else s :: handled r

/-- every reply the server owes over a history, in the order the calls were handled -/
def expected (l : List Step) : List (PidF × Term) := (handled l).filterMap owed

def survives (l : List Step) : Bool := !(l.any ends)

/-! ### the event manager -/

/-- the form of an answer: to whom, and what identifies it -/
inductive Owed where
  /-- `{Ref, _}` -/
  | tagged (to : PidF) (ref : Term)
  /-- `ok` -/
  | ack (to : PidF)
  /-- anything else: never owed -/
  | odd (to : PidF)
  deriving Repr

def fromOf : Term → Option (PidF × Term)
  | .tuple [.pid p, .ref n c i l] => some (p, .ref n c i l)
  | _ => none

structure EvStep where
  msg : Msg
  reach : PidF → Bool

/-- what the event manager owes for one message: every call, whatever becomes of its handler, and every `which_handlers`
is owed one `{Ref, _}`; a `sync_notify` whose sender is known is owed one `ok`; `notify` and everything else nothing -/
def geOwed (s : EvStep) : Option Owed :=
  match s.msg with
  | .regular frm body =>
    match body with
    | .tuple [tag, f, _, _] =>
      if isAtom tag tagGenCall then
        match fromOf f with
        | some (p, r) => if s.reach p then some (.tagged p r) else none
        | none => none
      else none
    | .tuple [tag, x] =>
      if isAtom tag tagWhich then
        match fromOf x with
        | some (p, r) => if s.reach p then some (.tagged p r) else none
        | none => none
      else if isAtom tag tagSyncNotify then
        match frm with
        | some p => if s.reach p then some (.ack p) else none
        | none => none
      else none
    | _ => none
  | _ => none

/-- the form of a message found in a mailbox -/
def shape : PidF × Term → Owed
  | (p, .tuple [r, _]) => .tagged p r
  | (p, .atom b) => if b = atomOk then .ack p else .odd p
  | (p, _) => .odd p

def geExpected (l : List EvStep) : List Owed := l.filterMap geOwed

/-! ### judging an observed run (P lines) -/

def samePid (a b : PidF) : Bool := a.node == b.node && a.id == b.id && a.serial == b.serial && a.creation == b.creation

def proj (p : PidF) (l : List (PidF × Term)) : List Term := (l.filter fun e => samePid e.1 p).map (·.2)

def pidsOf (l : List (PidF × Term)) : List PidF :=
  l.foldl (fun acc e => if acc.any (samePid e.1) then acc else acc ++ [e.1]) []

def textOf (l : List Term) : String := "[" ++ ",".intercalate (l.map Term.text) ++ "]"

/-- per caller: what it found in its mailbox is what it is owed, in that order -/
def judge (want got : List (PidF × Term)) : String :=
  let ps := pidsOf (want ++ got)
  match ps.find? fun p => !(proj p want == proj p got) with
  | none => "ok"
  | some p => s!"FAIL D {Term.pidText p} found {textOf (proj p got)}, it is owed {textOf (proj p want)}"

def gsCheck (steps : List Step) (got : List (PidF × Term)) (alive : Bool) : String :=
  if alive != survives steps then
    s!"FAIL D the server is {if alive then "running" else "gone"}, the history {if survives steps then "has no" else "has a"} failing callback"
  else judge (expected steps) got

def owedText : Owed → String
  | .tagged p r => Term.pidText p ++ ">{" ++ r.text ++ ",_}"
  | .ack p => Term.pidText p ++ ">ok"
  | .odd p => Term.pidText p ++ ">?"

def owedPid : Owed → PidF
  | .tagged p _ => p
  | .ack p => p
  | .odd p => p

def projO (p : PidF) (l : List Owed) : List String := (l.filter fun o => samePid (owedPid o) p).map owedText

def geCheck (steps : List EvStep) (got : List (PidF × Term)) : String :=
  let want := geExpected steps
  let gotS := got.map shape
  let ps := (want ++ gotS).foldl (fun acc o => if acc.any (samePid (owedPid o)) then acc else acc ++ [owedPid o]) []
  match ps.find? fun p => !(projO p want == projO p gotS) with
  | none => "ok"
  | some p => s!"FAIL D {Term.pidText p} found {projO p gotS}, it is owed {projO p want}"

end Edp.Spec.Beh
