import EdpVerif.Drv.Common
namespace Edp.Drv

/-- driver requests of property C06 (stub: nothing handled yet) -/
def handleC06 : List String → Option String
  | _ => none

end Edp.Drv
