import EdpVerif.Impl.Elixir
import EdpVerif.Spec.Elixir
/-! Helper lemmas for C20: ranges (integer arithmetic with a variable step). -/
namespace Edp.Ex
open Edp

/-! ### the Spec's own consistency: `mem` is membership in `elems`, `count` is its length -/

theorem spec_mem_up (f l s v : Int) (hs : 0 < s) :
    (f ≤ v ∧ v ≤ l ∧ (v - f) % s = 0) ↔ ∃ i : Nat, i < ((l - f) / s + 1).toNat ∧ f + (i : Int) * s = v := by
  constructor
  · rintro ⟨h1, h2, h3⟩
    have hq0 : 0 ≤ (v - f) / s := Int.ediv_nonneg (by omega) (by omega)
    have hqs : (v - f) / s * s = v - f := Int.ediv_mul_cancel (Int.dvd_of_emod_eq_zero h3)
    have hqle : (v - f) / s ≤ (l - f) / s := Int.ediv_le_ediv hs (by omega)
    refine ⟨((v - f) / s).toNat, ?_, ?_⟩
    · rw [Int.lt_toNat, Int.toNat_of_nonneg hq0]; omega
    · rw [Int.toNat_of_nonneg hq0, hqs]; omega
  · rintro ⟨i, hi, hv⟩
    rw [Int.lt_toNat] at hi
    have hi0 : (0 : Int) ≤ i := Int.natCast_nonneg i
    have h1 : (i : Int) * s ≤ (l - f) / s * s := Int.mul_le_mul_of_nonneg_right (by omega) (by omega)
    have h2 : (l - f) / s * s ≤ l - f := Int.ediv_mul_le _ (by omega)
    have h3 : 0 ≤ (i : Int) * s := Int.mul_nonneg hi0 (by omega)
    have h4 : v - f = (i : Int) * s := by omega
    refine ⟨by omega, by omega, ?_⟩
    rw [h4]; exact Int.mul_emod_left _ _

theorem spec_mem_down (f l s v : Int) (hs : s < 0) :
    (l ≤ v ∧ v ≤ f ∧ (f - v) % (-s) = 0) ↔ ∃ i : Nat, i < ((f - l) / (-s) + 1).toNat ∧ f + (i : Int) * s = v := by
  have h := spec_mem_up (-f) (-l) (-s) (-v) (by omega)
  have e1 : -v - -f = f - v := by omega
  have e2 : -l - -f = f - l := by omega
  rw [e1, e2] at h
  constructor
  · rintro ⟨h1, h2, h3⟩
    obtain ⟨i, hi, hv⟩ := h.mp ⟨by omega, by omega, h3⟩
    refine ⟨i, hi, ?_⟩
    rw [Int.mul_neg] at hv; omega
  · rintro ⟨i, hi, hv⟩
    obtain ⟨h1, h2, h3⟩ := h.mpr ⟨i, hi, by rw [Int.mul_neg]; omega⟩
    exact ⟨by omega, by omega, h3⟩

theorem spec_length (f l s : Int) : (Spec.Range.elems f l s).length = Spec.Range.count f l s := by
  simp [Spec.Range.elems]

theorem spec_mem_iff (f l s v : Int) : Spec.Range.mem f l s v = true ↔ v ∈ Spec.Range.elems f l s := by
  unfold Spec.Range.mem Spec.Range.elems Spec.Range.count
  simp only [List.mem_map, List.mem_range]
  by_cases hs : 0 < s
  · simp only [hs, gt_iff_lt, if_true]
    by_cases hfl : l < f
    · simp only [hfl, if_true]
      constructor
      · intro h; simp at h; omega
      · rintro ⟨i, hi, _⟩; omega
    · simp only [hfl, if_false, decide_eq_true_eq]
      exact spec_mem_up f l s v hs
  · by_cases hs' : s < 0
    · simp only [hs, hs', gt_iff_lt, if_true, if_false]
      by_cases hfl : f < l
      · simp only [hfl, if_true]
        constructor
        · intro h; simp at h; omega
        · rintro ⟨i, hi, _⟩; omega
      · simp only [hfl, if_false, decide_eq_true_eq]
        exact spec_mem_down f l s v hs'
    · simp only [hs, hs', gt_iff_lt, if_false]
      constructor
      · intro h; simp at h
      · rintro ⟨i, hi, _⟩; omega

/-! ### the model against the Spec, for every range -/

theorem isEmpty_false_iff (r : Range) :
    r.isEmpty = false ↔ (0 < r.step ∧ r.first ≤ r.last) ∨ (r.step < 0 ∧ r.last ≤ r.first) := by
  unfold Range.isEmpty
  by_cases h1 : 0 < r.step
  · simp [h1]; omega
  · by_cases h2 : r.step < 0
    · simp [h1, h2]
    · simp [h1, h2]

theorem count_up {f l s : Int} (hs : 0 < s) (hfl : f ≤ l) :
    Spec.Range.count f l s = ((l - f) / s + 1).toNat := by
  unfold Spec.Range.count
  simp [hs]; omega

theorem count_down {f l s : Int} (hs : s < 0) (hfl : l ≤ f) :
    Spec.Range.count f l s = ((f - l) / (-s) + 1).toNat := by
  unfold Spec.Range.count
  have : ¬ 0 < s := by omega
  simp [hs, this]; omega

theorem beq_zero_eq_decide (x : Int) : (x == 0) = decide (x = 0) := by
  by_cases h : x = 0 <;> simp [h]

theorem natCast_succ_mul (n : Nat) (s : Int) : ((n + 1 : Nat) : Int) * s = (n : Int) * s + s := by
  rw [Int.natCast_add, Int.add_mul]; simp

theorem count_empty {r : Range} (he : r.isEmpty = true) : Spec.Range.count r.first r.last r.step = 0 := by
  unfold Range.isEmpty at he
  unfold Spec.Range.count
  by_cases h1 : 0 < r.step
  · simp [h1] at he; simp [h1, he]
  · by_cases h2 : r.step < 0
    · simp [h1, h2] at he; simp [h1, h2, he]
    · simp [h1, h2]

/-- `len` is the Spec's count, saturated at `usize::MAX` -/
theorem len_eq (r : Range) : r.len = min (Spec.Range.count r.first r.last r.step) 18446744073709551615 := by
  unfold Range.len
  cases he : r.isEmpty with
  | true => simp [count_empty he]
  | false =>
    simp only [Bool.false_eq_true, if_false]
    rcases (isEmpty_false_iff r).mp he with ⟨hp, hfl⟩ | ⟨hn, hfl⟩
    · have hq : 0 ≤ (r.last - r.first) / r.step := Int.ediv_nonneg (by omega) (by omega)
      have e1 : absDiff r.last r.first = r.last - r.first := by unfold absDiff; split <;> omega
      have e2 : uabs r.step = r.step := by unfold uabs; split <;> omega
      rw [count_up hp hfl, e1, e2]
      unfold USIZE_MAX
      generalize (r.last - r.first) / r.step = q at *
      omega
    · have hq : 0 ≤ (r.first - r.last) / (-r.step) := Int.ediv_nonneg (by omega) (by omega)
      have e1 : absDiff r.last r.first = r.first - r.last := by unfold absDiff; split <;> omega
      have e2 : uabs r.step = -r.step := by unfold uabs; split <;> omega
      rw [count_down hn hfl, e1, e2]
      unfold USIZE_MAX
      generalize (r.first - r.last) / (-r.step) = q at *
      omega

/-- `contains` is the Spec's membership, for every value -/
theorem contains_eq (r : Range) (v : Int) : r.contains v = Spec.Range.mem r.first r.last r.step v := by
  unfold Range.contains Spec.Range.mem
  cases he : r.isEmpty with
  | true =>
    simp only [if_true]
    unfold Range.isEmpty at he
    by_cases h1 : 0 < r.step
    · simp [h1] at he; simp [h1]; omega
    · by_cases h2 : r.step < 0
      · simp [h1, h2] at he; simp [h1, h2]; omega
      · simp [h1, h2]
  | false =>
    simp only [Bool.false_eq_true, if_false]
    rcases (isEmpty_false_iff r).mp he with ⟨hp, hfl⟩ | ⟨hn, hfl⟩
    · have e2 : uabs r.step = r.step := by unfold uabs; split <;> omega
      simp only [gt_iff_lt, hp, if_true, ge_iff_le, e2]
      by_cases hb : r.first ≤ v ∧ v ≤ r.last
      · have e1 : absDiff v r.first = v - r.first := by unfold absDiff; split <;> omega
        simp [hb, e1, beq_zero_eq_decide]
      · have : ¬ (r.first ≤ v ∧ v ≤ r.last ∧ (v - r.first) % r.step = 0) := fun h => hb ⟨h.1, h.2.1⟩
        simp [hb, this]
    · have hp : ¬ 0 < r.step := by omega
      have e2 : uabs r.step = -r.step := by unfold uabs; split <;> omega
      simp only [gt_iff_lt, hp, hn, if_true, if_false, ge_iff_le, e2]
      by_cases hb : v ≤ r.first ∧ r.last ≤ v
      · have e1 : absDiff v r.first = r.first - v := by unfold absDiff; split <;> omega
        have hb' : r.last ≤ v ∧ v ≤ r.first := ⟨hb.2, hb.1⟩
        simp [hb, e1, beq_zero_eq_decide]
      · simp [hb]
        intro h1 h2; exact absurd ⟨h2, h1⟩ hb

/-- `size_hint` of the fresh iterator: the exact count, or "more than `usize::MAX`" -/
theorem sizeHint_eq (r : Range) :
    r.sizeHint r.iter =
      if Spec.Range.count r.first r.last r.step ≤ 18446744073709551615
      then (Spec.Range.count r.first r.last r.step, some (Spec.Range.count r.first r.last r.step))
      else (18446744073709551615, none) := by
  unfold Range.sizeHint Range.iter
  cases he : r.isEmpty with
  | true => simp [count_empty he]
  | false =>
    simp only [Bool.or_self, Bool.false_eq_true, if_false]
    rcases (isEmpty_false_iff r).mp he with ⟨hp, hfl⟩ | ⟨hn, hfl⟩
    · have hq : 0 ≤ (r.last - r.first) / r.step := Int.ediv_nonneg (by omega) (by omega)
      have e0 : ¬ r.first > r.last := by omega
      have e1 : absDiff r.last r.first = r.last - r.first := by unfold absDiff; split <;> omega
      have e2 : uabs r.step = r.step := by unfold uabs; split <;> omega
      simp only [gt_iff_lt, hp, if_true, e0, decide_false, Bool.false_eq_true, if_false, e1, e2]
      rw [count_up hp hfl]
      unfold USIZE_MAX
      generalize (r.last - r.first) / r.step = q at *
      by_cases hc : q + 1 ≤ 18446744073709551615
      · have : (q + 1).toNat ≤ 18446744073709551615 := by omega
        simp [hc, this]
      · have : ¬ (q + 1).toNat ≤ 18446744073709551615 := by omega
        simp [hc, this]
    · have hq : 0 ≤ (r.first - r.last) / (-r.step) := Int.ediv_nonneg (by omega) (by omega)
      have hp : ¬ 0 < r.step := by omega
      have e0 : ¬ r.first < r.last := by omega
      have e1 : absDiff r.last r.first = r.first - r.last := by unfold absDiff; split <;> omega
      have e2 : uabs r.step = -r.step := by unfold uabs; split <;> omega
      simp only [gt_iff_lt, hp, if_false, e0, decide_false, Bool.false_eq_true, e1, e2]
      rw [count_down hn hfl]
      unfold USIZE_MAX
      generalize (r.first - r.last) / (-r.step) = q at *
      by_cases hc : q + 1 ≤ 18446744073709551615
      · have : (q + 1).toNat ≤ 18446744073709551615 := by omega
        simp [hc, this]
      · have : ¬ (q + 1).toNat ≤ 18446744073709551615 := by omega
        simp [hc, this]

/-! ### the iteration -/

/-- ascending iteration from `cur` with `n+1` members left: `checked_add` ends it after the last member -/
theorem collect_up (r : Range) (hp : 0 < r.step) (he : r.isEmpty = false) (hl : r.last ≤ I64_MAX) :
    ∀ (n : Nat) (cur : Int) (fuel : Nat), I64_MIN ≤ cur →
      cur + (n : Int) * r.step ≤ r.last → r.last < cur + (n : Int) * r.step + r.step → n + 2 ≤ fuel →
      r.collect fuel ⟨cur, false⟩ = (List.range (n + 1)).map (fun i : Nat => cur + (i : Int) * r.step) := by
  intro n
  induction n with
  | zero =>
    intro cur fuel hc h1 h2 hf
    obtain ⟨m, rfl⟩ : ∃ m, fuel = m + 2 := ⟨fuel - 2, by omega⟩
    simp only [Int.natCast_zero, Int.zero_mul, Int.add_zero] at h1 h2
    by_cases hcl : cur = r.last
    · simp [Range.collect, Range.next, he, hp, hcl]
    · have e1 : ¬ cur > r.last := by omega
      by_cases hin : InI64 (cur + r.step)
      · have e2 : cur + r.step > r.last := by omega
        simp [Range.collect, Range.next, Range.advance, he, hp, e1, hcl, hin, e2]
      · simp [Range.collect, Range.next, Range.advance, he, hp, e1, hcl, hin]
  | succ n ih =>
    intro cur fuel hc h1 h2 hf
    obtain ⟨m, rfl⟩ : ∃ m, fuel = m + 1 := ⟨fuel - 1, by omega⟩
    rw [natCast_succ_mul] at h1 h2
    have hn0 : 0 ≤ (n : Int) * r.step := Int.mul_nonneg (Int.natCast_nonneg n) (by omega)
    have e1 : ¬ cur > r.last := by omega
    have e2 : ¬ cur = r.last := by omega
    have e3 : InI64 (cur + r.step) := ⟨by omega, by omega⟩
    have ih' := ih (cur + r.step) m (by omega) (by omega) (by omega) (by omega)
    rw [List.range_succ_eq_map, List.map_cons, List.map_map]
    simp only [Range.collect, Range.next, Range.advance, he, hp, e1, e2, e3, Bool.or_self, Bool.false_eq_true, if_false, if_true]
    rw [ih']
    simp only [Int.natCast_zero, Int.zero_mul, Int.add_zero, List.cons.injEq, true_and]
    apply List.map_congr_left
    intro i _
    simp only [Function.comp, Nat.succ_eq_add_one]
    rw [natCast_succ_mul]; omega

/-- descending iteration, the mirror image -/
theorem collect_down (r : Range) (hn : r.step < 0) (he : r.isEmpty = false) (hl : I64_MIN ≤ r.last) :
    ∀ (n : Nat) (cur : Int) (fuel : Nat), cur ≤ I64_MAX →
      r.last ≤ cur + (n : Int) * r.step → cur + (n : Int) * r.step + r.step < r.last → n + 2 ≤ fuel →
      r.collect fuel ⟨cur, false⟩ = (List.range (n + 1)).map (fun i : Nat => cur + (i : Int) * r.step) := by
  have hp : ¬ r.step > 0 := by omega
  intro n
  induction n with
  | zero =>
    intro cur fuel hc h1 h2 hf
    obtain ⟨m, rfl⟩ : ∃ m, fuel = m + 2 := ⟨fuel - 2, by omega⟩
    simp only [Int.natCast_zero, Int.zero_mul, Int.add_zero] at h1 h2
    by_cases hcl : cur = r.last
    · simp [Range.collect, Range.next, he, hp, hcl]
    · have e1 : ¬ cur < r.last := by omega
      by_cases hin : InI64 (cur + r.step)
      · have e2 : cur + r.step < r.last := by omega
        simp [Range.collect, Range.next, Range.advance, he, hp, e1, hcl, hin, e2]
      · simp [Range.collect, Range.next, Range.advance, he, hp, e1, hcl, hin]
  | succ n ih =>
    intro cur fuel hc h1 h2 hf
    obtain ⟨m, rfl⟩ : ∃ m, fuel = m + 1 := ⟨fuel - 1, by omega⟩
    rw [natCast_succ_mul] at h1 h2
    have hn0 : (n : Int) * r.step ≤ 0 := by
      have := Int.mul_nonneg (Int.natCast_nonneg n) (show 0 ≤ -r.step by omega)
      rw [Int.mul_neg] at this; omega
    have e1 : ¬ cur < r.last := by omega
    have e2 : ¬ cur = r.last := by omega
    have e3 : InI64 (cur + r.step) := ⟨by omega, by omega⟩
    have ih' := ih (cur + r.step) m (by omega) (by omega) (by omega) (by omega)
    rw [List.range_succ_eq_map, List.map_cons, List.map_map]
    simp only [Range.collect, Range.next, Range.advance, he, hp, e1, e2, e3, Bool.or_self, Bool.false_eq_true, if_false, if_true]
    rw [ih']
    simp only [Int.natCast_zero, Int.zero_mul, Int.add_zero, List.cons.injEq, true_and]
    apply List.map_congr_left
    intro i _
    simp only [Function.comp, Nat.succ_eq_add_one]
    rw [natCast_succ_mul]; omega

/-- for every `i64` range the iteration is the Spec's element list, whatever fuel (at least `r.fuel`) is given -/
theorem collect_all (r : Range) (hw : r.WF) (fuel : Nat) (hf : r.fuel ≤ fuel) :
    r.collect fuel r.iter = Spec.Range.elems r.first r.last r.step := by
  obtain ⟨⟨hf1, hf2⟩, ⟨hl1, hl2⟩, ⟨hs1, hs2⟩⟩ := hw
  unfold Spec.Range.elems
  cases he : r.isEmpty with
  | true =>
    rw [count_empty he]
    unfold Range.fuel at hf
    obtain ⟨m, rfl⟩ : ∃ m, fuel = m + 1 := ⟨fuel - 1, by omega⟩
    simp [Range.collect, Range.next, he]
  | false =>
    unfold Range.fuel at hf
    unfold Range.iter
    rcases (isEmpty_false_iff r).mp he with ⟨hp, hfl⟩ | ⟨hn, hfl⟩
    · have hq : 0 ≤ (r.last - r.first) / r.step := Int.ediv_nonneg (by omega) (by omega)
      have hlo : (r.last - r.first) / r.step * r.step ≤ r.last - r.first := Int.ediv_mul_le _ (by omega)
      have hhi : r.last - r.first < ((r.last - r.first) / r.step + 1) * r.step := Int.lt_ediv_add_one_mul_self _ hp
      rw [Int.add_mul, Int.one_mul] at hhi
      have hqn : (((r.last - r.first) / r.step).toNat : Int) = (r.last - r.first) / r.step := Int.toNat_of_nonneg hq
      have hqs : (r.last - r.first) / r.step * 1 ≤ (r.last - r.first) / r.step * r.step :=
        Int.mul_le_mul_of_nonneg_left (by omega) hq
      rw [count_up hp hfl]
      have hcnt : ((r.last - r.first) / r.step + 1).toNat = ((r.last - r.first) / r.step).toNat + 1 := by omega
      rw [hcnt]
      apply collect_up r hp he hl2 _ _ _ hf1
      · rw [hqn]; omega
      · rw [hqn]; omega
      · omega
    · have hq : 0 ≤ (r.first - r.last) / (-r.step) := Int.ediv_nonneg (by omega) (by omega)
      have hlo : (r.first - r.last) / (-r.step) * (-r.step) ≤ r.first - r.last := Int.ediv_mul_le _ (by omega)
      have hhi : r.first - r.last < ((r.first - r.last) / (-r.step) + 1) * (-r.step) :=
        Int.lt_ediv_add_one_mul_self _ (by omega)
      rw [Int.add_mul, Int.one_mul, Int.mul_neg] at hhi
      rw [Int.mul_neg] at hlo
      have hqn : (((r.first - r.last) / (-r.step)).toNat : Int) = (r.first - r.last) / (-r.step) := Int.toNat_of_nonneg hq
      have hqs : (r.first - r.last) / (-r.step) * 1 ≤ (r.first - r.last) / (-r.step) * (-r.step) :=
        Int.mul_le_mul_of_nonneg_left (by omega) hq
      rw [Int.mul_neg] at hqs
      rw [count_down hn hfl]
      have hcnt : ((r.first - r.last) / (-r.step) + 1).toNat = ((r.first - r.last) / (-r.step)).toNat + 1 := by omega
      rw [hcnt]
      apply collect_down r hn he hl1 _ _ _ hf2
      · rw [hqn]; omega
      · rw [hqn]; omega
      · omega

/-- the count of an `i64` range exceeds `usize::MAX` only for `i64::MIN..=i64::MAX` with a unit step -/
theorem count_le_usize (r : Range) (hw : r.WF)
    (h : ¬ (r.first = I64_MIN ∧ r.last = I64_MAX ∧ r.step = 1) ∧ ¬ (r.first = I64_MAX ∧ r.last = I64_MIN ∧ r.step = -1)) :
    Spec.Range.count r.first r.last r.step ≤ 18446744073709551615 := by
  obtain ⟨⟨hf1, hf2⟩, ⟨hl1, hl2⟩, ⟨hs1, hs2⟩⟩ := hw
  unfold I64_MIN I64_MAX at *
  cases he : r.isEmpty with
  | true => rw [count_empty he]; omega
  | false =>
    rcases (isEmpty_false_iff r).mp he with ⟨hp, hfl⟩ | ⟨hn, hfl⟩
    · rw [count_up hp hfl]
      have hq : 0 ≤ (r.last - r.first) / r.step := Int.ediv_nonneg (by omega) (by omega)
      have hle : (r.last - r.first) / r.step ≤ r.last - r.first := Int.ediv_le_self _ (by omega)
      by_cases h1 : r.step = 1
      · have : r.last - r.first < 18446744073709551615 := by omega
        omega
      · have : (r.last - r.first) / r.step < 9223372036854775808 :=
          Int.ediv_lt_of_lt_mul hp (by omega)
        omega
    · rw [count_down hn hfl]
      have hq : 0 ≤ (r.first - r.last) / (-r.step) := Int.ediv_nonneg (by omega) (by omega)
      have hle : (r.first - r.last) / (-r.step) ≤ r.first - r.last := Int.ediv_le_self _ (by omega)
      by_cases h1 : r.step = -1
      · have : r.first - r.last < 18446744073709551615 := by omega
        omega
      · have : (r.first - r.last) / (-r.step) < 9223372036854775808 :=
          Int.ediv_lt_of_lt_mul (by omega) (by omega)
        omega

end Edp.Ex
