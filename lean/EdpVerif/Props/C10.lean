import EdpVerif.Lemmas.CmpSwap
import EdpVerif.Impl.Encode
import EdpVerif.Impl.Decode
import EdpVerif.Lemmas.Codec
import EdpVerif.Impl.EqHash
import EdpVerif.Lemmas.RoundTrip
import EdpVerif.Lemmas.LocalSpan
import EdpVerif.Lemmas.Convert
import EdpVerif.Lemmas.DecSorted
import EdpVerif.Lemmas.RoundTripLocal
import EdpVerif.Lemmas.Reencode
import EdpVerif.Generated.MiscC10
import EdpVerif.Generated.Tags
/-
C10 — identifiers received from a peer are re-emitted byte-for-byte.
-/
namespace Edp.Props.C10
open Edp

/-- an identifier that carries preserved node-local bytes is written back as exactly `LOCAL_EXT` followed by those
bytes, whatever its logical fields and whatever atom cache is in force -/
theorem C10_local_pid_verbatim (cache : List Bytes) (p : PidF) (l : Bytes) (h : p.loc = some l) :
    enc cache (.pid p) = .ok (121 :: l) := by
  simp [enc, encPid, h]

theorem C10_local_port_verbatim (cache : List Bytes) (n : Bytes) (i c : Nat) (l : Bytes) :
    enc cache (.port n i c (some l)) = .ok (121 :: l) := by
  simp [enc, encPort]

theorem C10_local_ref_verbatim (cache : List Bytes) (n : Bytes) (c : Nat) (ids : List Nat) (l : Bytes) :
    enc cache (.ref n c ids (some l)) = .ok (121 :: l) := by
  simp [enc, encRef]

/-- identifiers compare by their logical fields only: the preserved bytes never influence the order, so the same
identifier is recognised whichever form it arrived in -/
theorem C10_pid_order_ignores_local (p : PidF) (l l' : Option Bytes) (t : Term) :
    Term.cmp (.pid { p with loc := l }) t = Term.cmp (.pid { p with loc := l' }) t := by
  unfold Term.cmp
  simp only [Term.norm]
  cases h : Term.norm t <;> simp [Term.cmpN, Term.pidCmp]

theorem C10_port_order_ignores_local (n : Bytes) (i c : Nat) (l l' : Option Bytes) (t : Term) :
    Term.cmp (.port n i c l) t = Term.cmp (.port n i c l') t := by
  unfold Term.cmp
  simp only [Term.norm]
  cases h : Term.norm t <;> simp [Term.cmpN]

theorem C10_ref_order_ignores_local (n : Bytes) (c : Nat) (ids : List Nat) (l l' : Option Bytes) (t : Term) :
    Term.cmp (.ref n c ids l) t = Term.cmp (.ref n c ids l') t := by
  unfold Term.cmp
  simp only [Term.norm]
  cases h : Term.norm t <;> simp [Term.cmpN]

/-- the decoder keeps, for a LOCAL_EXT-wrapped pid, exactly the bytes that followed the tag: 8 hash bytes and the
nested encoding — shown here for the modern pid form with any node atom, any numbers, any hash, any trailing data -/
theorem C10_decode_keeps_local_bytes (x : Ext) (hash node rest : Bytes) (id serial creation fuel d : Nat)
    (hh : hash.length = 8) (hn : node.length ≤ 255) (hu : validUtf8 node = true)
    (hid : id < 2 ^ 32) (hs : serial < 2 ^ 32) (hc : creation < 2 ^ 32) (hd : d + 2 ≤ MAX_NESTING_DEPTH) :
    let inner := 88 :: 119 :: UInt8.ofNat node.length :: node ++ be32 id ++ be32 serial ++ be32 creation
    dec x {} (fuel + 3) d (121 :: hash ++ inner ++ rest) =
      .ok (.pid { node, id, serial, creation, loc := some (hash ++ inner) }, rest) := by
  intro inner
  have hd1 : ¬ d > MAX_NESTING_DEPTH := by omega
  have hd2 : ¬ d + 1 > MAX_NESTING_DEPTH := by omega
  have hd3 : ¬ d + 1 + 1 > MAX_NESTING_DEPTH := by omega
  have hn' : ¬ node.length > MAX_ATOM_SIZE := by simp [MAX_ATOM_SIZE]; omega
  have hlen : node.length < 256 := by omega
  simp only [inner, List.cons_append, List.append_assoc]
  simp [dec, hd1, hd2, hd3, ownedOnlyTags, decAtomBody, rdU_byte node.length _ hlen, hn', hu,
    rdU_of_length 8 hash _ hh, rdU_be32, hid, hs, hc]
  have key : ∀ (A R : Bytes) n, n = A.length → List.take n (A ++ R) = A := by
    intro A R n h; subst h; simp
  have e := key (hash ++ 88 :: 119 :: UInt8.ofNat node.length :: (node ++ (be32 id ++ (be32 serial ++ be32 creation)))) rest
  simp only [List.append_assoc, List.cons_append] at e
  apply e
  simp [be32, beN_length, hh]; omega

/-! ### equality and hash (`PartialEq` / `Hash`, Impl/EqHash.lean — tied to the real `==` and `Hash::hash` by C11's run) -/

/-- `==` never looks at the preserved bytes: for the three identifier kinds, against any term, on either side -/
theorem C10_eq_ignores_local (t u : Term) (l l' : Option Bytes) :
    (∀ p : PidF, Term.eqv (.pid { p with loc := l }) u = Term.eqv (.pid { p with loc := l' }) u ∧
                 Term.eqv t (.pid { p with loc := l }) = Term.eqv t (.pid { p with loc := l' })) ∧
    (∀ n i c, Term.eqv (.port n i c l) u = Term.eqv (.port n i c l') u ∧ Term.eqv t (.port n i c l) = Term.eqv t (.port n i c l')) ∧
    (∀ n c ids, Term.eqv (.ref n c ids l) u = Term.eqv (.ref n c ids l') u ∧ Term.eqv t (.ref n c ids l) = Term.eqv t (.ref n c ids l')) := by
  refine ⟨fun p => ⟨?_, ?_⟩, fun n i c => ⟨?_, ?_⟩, fun n c ids => ⟨?_, ?_⟩⟩
  · cases u <;> simp [Term.eqv, pidEq]
  · cases t <;> simp [Term.eqv, pidEq]
  · cases u <;> simp [Term.eqv]
  · cases t <;> simp [Term.eqv]
  · cases u <;> simp [Term.eqv]
  · cases t <;> simp [Term.eqv]

example : Term.eqv (.pid { node := [97], id := 1, serial := 2, creation := 3, loc := some [1, 2, 3] })
    (.pid { node := [97], id := 1, serial := 2, creation := 3, loc := none }) = true := by
  simp [Term.eqv, pidEq]

/-- the bytes fed to the hasher never contain the preserved bytes: the same identifier hashes the same in either form -/
theorem C10_hash_ignores_local (l l' : Option Bytes) :
    (∀ p : PidF, Term.hashBytes (.pid { p with loc := l }) = Term.hashBytes (.pid { p with loc := l' })) ∧
    (∀ n i c, Term.hashBytes (.port n i c l) = Term.hashBytes (.port n i c l')) ∧
    (∀ n c ids, Term.hashBytes (.ref n c ids l) = Term.hashBytes (.ref n c ids l')) := by
  refine ⟨fun p => ?_, fun n i c => ?_, fun n c ids => ?_⟩ <;> simp [Term.hashBytes, hPid]

example : Term.hashBytes (.port [97] 1 2 (some [9])) = Term.hashBytes (.port [97] 1 2 none) := by simp [Term.hashBytes]

/-- every identifier kind, every well-formed inner form, any hash, at any depth the limit allows, with anything behind it:
the node-local form is written back as `LOCAL_EXT ++ hash ++ inner` and read again as the same identifier carrying the same
bytes (Lemmas/RoundTrip.lean `dec_enc_local`) -/
theorem C10_local_roundtrip (x : Ext) (t : Term) (hash plain r : Bytes) (fuel d : Nat)
    (hid : isIdent t = true) (hh : hash.length = 8) (hw : wfT (clearLoc t) = true)
    (hp : enc [] (clearLoc t) = .ok plain) (hl : locOf t = some (hash ++ plain)) (hd : d + 2 ≤ MAX_NESTING_DEPTH) :
    enc [] t = .ok (121 :: (hash ++ plain)) ∧ dec x {} (fuel + 3) d (121 :: (hash ++ plain) ++ r) = .ok (t, r) :=
  dec_enc_local x {} [] (by simp [cfgFor]) (by simp) rfl t hash plain r fuel d hid hh hw hp hl hd

/-! ### received bytes, any inner form (every input) -/

/-- whatever the decoder accepts behind a LOCAL_EXT tag as an identifier — the modern or a legacy form inside, another
LOCAL_EXT, even a compressed term; any hash; at any depth; with anything behind it; any behaviour of the external calls —
the encoder writes that identifier back as exactly the bytes the decoder consumed, and those are the bytes it carries -/
theorem C10_local_span_reemitted (x : Ext) (cfg : DecCfg) (cache : List Bytes) (fuel d : Nat) (bs r : Bytes) (t : Term)
    (h : dec x cfg fuel d (121 :: bs) = .ok (t, r)) (hid : isIdent t = true) :
    ∃ span, 121 :: bs = span ++ r ∧ enc cache t = .ok span ∧ locOf t = some (span.drop 1) :=
  dec_local_reemitted x cfg cache fuel d bs r t h hid

example : ∃ span, 121 :: ([1, 2, 3, 4, 5, 6, 7, 8] ++ (88 :: 119 :: 1 :: [97] ++ be32 1 ++ be32 2 ++ be32 3) ++ [9]) = span ++ [9] ∧
    enc [] (.pid ⟨[97], 1, 2, 3, some ([1, 2, 3, 4, 5, 6, 7, 8] ++ (88 :: 119 :: 1 :: [97] ++ be32 1 ++ be32 2 ++ be32 3))⟩) = .ok span :=
  have h := C10_decode_keeps_local_bytes Ext.none [1, 2, 3, 4, 5, 6, 7, 8] [97] [9] 1 2 3 0 0 rfl (by decide) (by decide)
    (by decide) (by decide) (by decide) (by decide)
  let ⟨span, h1, h2, _⟩ := C10_local_span_reemitted Ext.none {} [] 3 0 _ [9] _ h rfl
  ⟨span, h1, h2⟩

/-! ### wherever nested (every context) -/

/-- an identifier that carries preserved bytes `l`, in ANY position of a term — tuple element, list element, element or
tail of an improper list, map key, map value, free variable of a fun, nested to any depth in any mixture (`TCtx`,
Lemmas/LocalSpan.lean) — is written as the one block `LOCAL_EXT ++ l` inside the term's encoding, whatever surrounds it
and whatever atom cache is in force -/
theorem C10_nested_verbatim (cache : List Bytes) (c : TCtx) (u : Term) (l bs : Bytes)
    (hid : isIdent u = true) (hl : locOf u = some l) (h : enc cache (c.plug u) = .ok bs) : Occurs (121 :: l) bs := by
  obtain ⟨ub, hu, ho⟩ := enc_plug cache c u bs h
  have : ub = 121 :: l := by
    cases u <;> simp [isIdent] at hid
    · rename_i p; simp only [locOf] at hl; simp [enc, encPid, hl] at hu; exact hu.symm
    · simp only [locOf] at hl; subst hl; simp [enc, encPort] at hu; exact hu.symm
    · simp only [locOf] at hl; subst hl; simp [enc, encRef] at hu; exact hu.symm
  rw [← this]; exact ho

/-- a pid with preserved bytes as a map key inside a list tail inside a tuple -/
example : ∃ bs, enc [] ((TCtx.tuple [.int 1] (.ilistTail [.nil] (.mapKey [] .hole (.int 2) [])) []).plug
      (.pid { node := [97], id := 1, serial := 2, creation := 3, loc := some [9, 9] })) = .ok bs ∧ Occurs [121, 9, 9] bs :=
  ⟨_, rfl, C10_nested_verbatim [] (TCtx.tuple [.int 1] (.ilistTail [.nil] (.mapKey [] .hole (.int 2) [])) [])
    (.pid { node := [97], id := 1, serial := 2, creation := 3, loc := some [9, 9] }) [9, 9] _ rfl rfl rfl⟩

/-- the same for the creator pid of a fun (a `PidF` field, not a sub-term), the fun itself in any position -/
theorem C10_fun_pid_verbatim (cache : List Bytes) (c : TCtx) (a : Nat) (un : Bytes) (i nf : Nat) (m : Bytes) (oi ou : Nat)
    (p : PidF) (fr : List Term) (l bs : Bytes) (hl : p.loc = some l)
    (h : enc cache (c.plug (.ifun a un i nf m oi ou p fr)) = .ok bs) : Occurs (121 :: l) bs := by
  obtain ⟨ub, hu, ho⟩ := enc_plug cache c _ bs h
  obtain ⟨pb, hp, ho'⟩ := enc_fun_pid cache a un i nf m oi ou p fr ub hu
  have : pb = 121 :: l := by simp [encPid, hl] at hp; exact hp.symm
  rw [← this]; exact ho'.trans ho

example : ∃ bs, enc [] (.ifun 0 [] 0 0 [109] 1 2 { node := [97], id := 1, serial := 2, creation := 3, loc := some [7] } []) = .ok bs ∧
    Occurs [121, 7] bs :=
  ⟨_, rfl, C10_fun_pid_verbatim [] .hole 0 [] 0 0 [109] 1 2 { node := [97], id := 1, serial := 2, creation := 3, loc := some [7] } [] [7] _ rfl rfl⟩

/-! ### however cloned, moved or converted (Impl/Convert.lean: borrowed.rs arm by arm, `derive(Clone)` field by field) -/

/-- the derived clones of the three identifier structs copy every field, the preserved bytes among them -/
theorem C10_clone_keeps_local :
    (∀ p : PidF, clonePid p = p) ∧ (∀ n i c l, clonePort n i c l = (n, i, c, l)) ∧ (∀ n c ids l, cloneRef n c ids l = (n, c, ids, l)) ∧
    (∀ t, cloneT t = t) ∧ (∀ b, cloneB b = b) :=
  ⟨fun _ => rfl, fun _ _ _ _ => rfl, fun _ _ _ _ => rfl, cloneT_id, cloneB_id⟩

/-- `to_owned` of ANY zero-copy tree (any ownership flags, identifiers in any form at any depth, maps that are `BTreeMap`s:
`btreeSorted`) is the tree's structural image: nothing is dropped, reordered or rebuilt, and in particular every identifier
keeps its preserved bytes -/
theorem C10_to_owned_structural (b : BTerm) (h : btreeSorted (erase b) = true) : toOwned b = erase b := toOwned_erase b h

/-- and `From<&OwnedTerm>` builds a tree whose structural image is the term it was built from -/
theorem C10_from_owned_structural (t : Term) (h : btreeSorted t = true) : erase (fromOwned t) = t := erase_fromOwned t h

example : toOwned (fromOwned (.tuple [.port [97] 1 2 (some [5, 5]), .map [(.int 1, .atom [98])]])) =
    .tuple [.port [97] 1 2 (some [5, 5]), .map [(.int 1, .atom [98])]] :=
  toOwned_fromOwned _ (by simp [btreeSorted, btreeSortedL, btreeSortedKV, pairwiseLt, allLt])

/-- every sequence of clones, moves and conversions through the zero-copy representation (with or without a clone of the
zero-copy tree in between) returns the term it started from, so the encoder writes the same bytes afterwards — every term
whose maps are `BTreeMap`s, every sequence -/
theorem C10_conversions_identity (cs : List Conv) (t : Term) (h : btreeSorted t = true) :
    applyConvs cs t = t ∧ encode (applyConvs cs t) = encode t := by
  rw [applyConvs_id cs t h]; exact ⟨rfl, rfl⟩

example : applyConvs [.clone, .viaBorrowed, .move, .viaBorrowedClone] (.ref [97] 1 [2, 3] (some [4])) = .ref [97] 1 [2, 3] (some [4]) :=
  (C10_conversions_identity _ _ rfl).1

/-- the `btreeSorted` guard is discharged for everything the decoder returns: a decoded term (any configuration, cache, input;
`decode`, `decode_borrowed`, `decode_with_atom_cache`) whose map keys carry minimal big integers (`mapKeysMin`; on other keys
the library's order is not transitive, C11's recorded finding) is unchanged by every sequence of clones, moves and
conversions, and is written as the same bytes afterwards -/
theorem C10_conversions_identity_decoded (x : Ext) (cfg : DecCfg) (bs : Bytes) (t : Term) (cs : List Conv)
    (h : decodeWith x cfg bs = .ok t) (hk : mapKeysMin t = true) :
    btreeSorted t = true ∧ applyConvs cs t = t ∧ encode (applyConvs cs t) = encode t := by
  have hb : btreeSorted t = true :=
    btreeSorted_of_mapsStrict t (mapsStrict_of_btInv t (decodeWith_btInv x cfg bs t h) hk)
  exact ⟨hb, C10_conversions_identity cs t hb⟩

/-- non-vacuity: a node-local pid as a map value, keys sent out of order -/
example : mapKeysMin (.map [(.int 1, .pid { node := [97], id := 1, serial := 2, creation := 3, loc := some [9] }), (.int 2, .nil)]) = true := by
  simp [mapKeysMin, mapKeysMinKV, keysWFo, WFo]

/-- received, converted, put anywhere into a new term (the pid of a request used in the reply), encoded: the output contains
exactly the bytes that were received — every input the decoder accepts as an identifier behind LOCAL_EXT, every sequence of
conversions, every context, any atom cache on the way out -/
theorem C10_received_reemitted_anywhere (x : Ext) (cfg : DecCfg) (cache : List Bytes) (fuel d : Nat) (bs r out : Bytes) (u : Term)
    (cs : List Conv) (c : TCtx) (h : dec x cfg fuel d (121 :: bs) = .ok (u, r)) (hid : isIdent u = true)
    (he : enc cache (c.plug (applyConvs cs u)) = .ok out) : ∃ span, 121 :: bs = span ++ r ∧ Occurs span out := by
  obtain ⟨span, h1, h2, h3⟩ := dec_local_reemitted x cfg cache fuel d bs r u h hid
  have hm : btreeSorted u = true := by cases u <;> simp [isIdent] at hid <;> simp [btreeSorted]
  rw [applyConvs_id cs u hm] at he
  refine ⟨span, h1, ?_⟩
  have ho := C10_nested_verbatim cache c u (span.drop 1) out hid h3 he
  have hs : span = 121 :: span.drop 1 := by
    have h4 : enc cache u = .ok (121 :: span.drop 1) := by
      cases u <;> simp [isIdent] at hid
      · rename_i p; simp only [locOf] at h3; simp [enc, encPid, h3]
      · simp only [locOf] at h3; subst h3; simp [enc, encPort]
      · simp only [locOf] at h3; subst h3; simp [enc, encRef]
    rw [h2] at h4
    exact Except.ok.inj h4
  rw [hs]; exact ho

/-! ### the decode side, nested: what was left open -/

/-- decoding what the encoder wrote for a term with node-local identifiers AT ANY DEPTH (as map values, tuple elements, fun
creators, …) returns the term's wire form with every identifier intact — same `loc` bytes — for every atom cache the encoder
used and the decoder configuration that fits it, any fuel that covers the term, any depth, any trailing bytes, any behaviour
of the external calls (Lemmas/RoundTripLocal.lean: the mutual induction of the round trip over `wfX`) -/
theorem C10_nested_local_roundtrip (x : Ext) (cfg : DecCfg) (cache : List Bytes) (hc : cfgFor cache cfg)
    (hlen : cache.length ≤ 256) (hb : cfg.borrowed = false) (t : Term) (bs r : Bytes) (fuel d : Nat)
    (hw : wfX cache t) (hd : depX t + d ≤ MAX_NESTING_DEPTH) (he : enc cache t = .ok bs) (hf : tszX t ≤ fuel) :
    dec x cfg fuel d (bs ++ r) = .ok (wire t, r) := dec_encX x cfg cache hc hlen hb t bs r fuel d hw hd he hf

/-- and at the top level: `decode (encode t) = wire t`, then encoded again gives the same bytes (identifiers replayed
verbatim) — for every such term whose maps have increasing keys and that has no empty improper list -/
theorem C10_nested_local_reencode (x : Ext) (t t' : Term) (bs : Bytes) (hw : wfX [] t) (hd : depX t ≤ MAX_NESTING_DEPTH)
    (hs : sortedKeys t = true) (hn : noEmptyImproper t = true) (he : encode t = .ok bs) (hdec : decode x bs = .ok t') :
    t' = wire t ∧ encode t' = .ok bs := by
  rw [decode_encode_local x t bs hw hd he] at hdec
  cases hdec
  refine ⟨rfl, ?_⟩
  unfold encode at he ⊢
  cases h : enc [] t with
  | error e => simp [h] at he
  | ok b => simp [h] at he; subst he; simp [enc_wire [] t b hs hn h]

/-- non-vacuity: a node-local port inside a list inside a tuple satisfies the hypotheses -/
example : wfX [] (.tuple [.list [.port [97] 1 2 (some [1, 2, 3, 4, 5, 6, 7, 8, 120, 119, 1, 97, 0, 0, 0, 0, 0, 0, 0, 1, 0, 0, 0, 2])]]) := by
  simp only [wfX, wfXL, locOk, locOf]
  refine ⟨by decide, ⟨by decide, ?_, trivial⟩, trivial⟩
  exact ⟨[1, 2, 3, 4, 5, 6, 7, 8], [120, 119, 1, 97, 0, 0, 0, 0, 0, 0, 0, 1, 0, 0, 0, 2], rfl, rfl, by decide, rfl⟩

/-! ### the source has the shape the model transcribes (regenerated every run) -/

/-- the three identifier structs derive `Clone` (no hand-written one), `local_ext_bytes` is among their fields and is looked at
by none of `eq` / `hash` / `cmp` (exactly the other fields are); `with_local_ext_bytes` stores its argument, `new` stores
nothing; both conversions have one arm per variant of `BorrowedTerm`, variant to same variant, the identifier arms being
`p.clone()`; the three identifier encoders start by replaying the preserved bytes behind `LOCAL_EXT` = 121; `parse_local_ext`
keeps `start[..8 + nested_len]` for exactly the three kinds; `is_borrowed` looks at the eight variants the model looks at -/
theorem C10_source_shape :
    Gen.C10_PID_FIELDS = ["node", "id", "serial", "creation", "local_ext_bytes"] ∧
    Gen.C10_PORT_FIELDS = ["node", "id", "creation", "local_ext_bytes"] ∧
    Gen.C10_REF_FIELDS = ["node", "creation", "ids", "local_ext_bytes"] ∧
    ("Clone" ∈ Gen.C10_PID_DERIVES ∧ "Clone" ∈ Gen.C10_PORT_DERIVES ∧ "Clone" ∈ Gen.C10_REF_DERIVES) ∧
    (Gen.C10_PID_MANUAL_CLONE = false ∧ Gen.C10_PORT_MANUAL_CLONE = false ∧ Gen.C10_REF_MANUAL_CLONE = false) ∧
    (Gen.C10_PID_EQ_FIELDS = Gen.C10_PID_FIELDS.filter (· != "local_ext_bytes") ∧ Gen.C10_PID_HASH_FIELDS = Gen.C10_PID_EQ_FIELDS ∧
      Gen.C10_PID_ORD_FIELDS = Gen.C10_PID_EQ_FIELDS) ∧
    (Gen.C10_PORT_EQ_FIELDS = Gen.C10_PORT_FIELDS.filter (· != "local_ext_bytes") ∧ Gen.C10_PORT_HASH_FIELDS = Gen.C10_PORT_EQ_FIELDS ∧
      Gen.C10_PORT_ORD_FIELDS = Gen.C10_PORT_EQ_FIELDS) ∧
    (Gen.C10_REF_EQ_FIELDS = Gen.C10_REF_FIELDS.filter (· != "local_ext_bytes") ∧ Gen.C10_REF_HASH_FIELDS = Gen.C10_REF_EQ_FIELDS ∧
      Gen.C10_REF_ORD_FIELDS = Gen.C10_REF_EQ_FIELDS) ∧
    (Gen.C10_PID_KEEPS_LOCAL && Gen.C10_PORT_KEEPS_LOCAL && Gen.C10_REF_KEEPS_LOCAL &&
      Gen.C10_PID_NEW_PLAIN && Gen.C10_PORT_NEW_PLAIN && Gen.C10_REF_NEW_PLAIN) = true ∧
    Gen.C10_BORROWED_VARIANTS.length = 17 ∧
    Gen.C10_TO_OWNED_ARMS = Gen.C10_BORROWED_VARIANTS.map (fun v => (v, v)) ∧
    Gen.C10_FROM_OWNED_ARMS = Gen.C10_BORROWED_VARIANTS.map (fun v => (v, v)) ∧
    Gen.C10_IDENT_COPIES = ["to_owned:Pid:clone", "to_owned:Port:clone", "to_owned:Reference:clone",
      "from:Pid:clone", "from:Port:clone", "from:Reference:clone"] ∧
    Gen.C10_IS_BORROWED_ARMS = ["Atom", "Binary", "BitBinary", "String", "List", "ImproperList", "Map", "Tuple"] ∧
    Gen.C10_ENC_REPLAY = ["encode_pid_impl", "encode_port_impl", "encode_reference_impl"] ∧
    Gen.C10_LOCAL_KEEP = ["Pid", "Port", "Reference"] ∧ Gen.LOCAL_EXT = 121 := by decide

end Edp.Props.C10
