import EdpVerif.Lemmas.DecMono
import EdpVerif.Lemmas.DecModern
import EdpVerif.Lemmas.DecCtx
import EdpVerif.Lemmas.DecNoTrailing
import EdpVerif.Impl.TableTie
import EdpVerif.Generated.MiscC13
import EdpVerif.Lemmas.Convert
import EdpVerif.Lemmas.DecSorted
/-
C13 — the zero-copy decoder agrees with the owned decoder.

Models.  `decode` / `decodeBorrowed` are the two configurations of one generic decoder model (Impl/Decode.lean), each tied
to its own Rust twin by the correspondence run (`dec` / `decb` lines).  `decodeBorrowedCtx` (Impl/DecodeCtx.lean) is the
zero-copy parser family once more, function by function, WITH the `ParsingContext` it maintains (byte offset, path, the
`usize` subtraction that computes the offset); it is tied to `decode_borrowed` including the reported offset and path
(`c13ctx` lines), and `C13_ctx_erase` shows that forgetting the context gives `decodeBorrowed` on every input.
`to_owned` is the identity on the model term; the harness checks on every accepted input that the canonical text written from
the zero-copy tree itself equals the text of the converted term, and that `From<&OwnedTerm>` followed by `to_owned` returns it.

Clauses.  (1) same term whenever the zero-copy decoder accepts: `C13_agree`, `C13_agree_ctx`, `C13_reject_both`.
(2) accepts whenever the owned decoder accepts, on inputs laid out with modern tags only: `C13_modern_accepts`,
`C13_modern_accepts_ctx`, with the guard `Spec.Modern.modernOnly` (an independent recogniser of the layout); the guard
cannot be dropped (`C13_legacy_refused`); the tag tables behind it are regenerated (`C13_tagsets`, `C13_modern_dispatched`,
`C13_owned_only_exact`, `C13_ctx_parsers`).
(3) the reported offset lies within the input: `C13_offset_within` (with `C13_no_underflow`: the subtraction that computes
it never wraps), and what more is true: `C13_offset_behind_version`, `C13_trailing_offset`, `C13_version_offset`.
-/
namespace Edp.Props.C13
open Edp

/-- evaluation of the models on a concrete input (non-vacuity examples) -/
macro "evalm" : tactic => `(tactic| simp [decodeBorrowedCtx, decC, decCN, decCKV, decodeBorrowed, decode, decodeWith, dec, decN, decKV,
  ownedOnlyTags, ctxLeafTags, cBorrowed, MAX_NESTING_DEPTH, MAX_ATOM_SIZE, MAX_LIST_SIZE, MAX_TUPLE_SIZE, rdU, rdN, takeE, takeN,
  decAtomBody, decLatin1Body, latin1ToUtf8, utf8Encode, utf8EncodeCp, Ext.none, SeqKind.seg])

/-! ### clause 1 — same term -/

/-- on every input the zero-copy decoder accepts, the owned decoder returns exactly the same term
(any external behaviour of zlib / float parsing, any atom cache, any fuel, any depth) -/
theorem C13_agree (x : Ext) (bs : Bytes) (t : Term) :
    decodeBorrowed x bs = .ok t → decode x bs = .ok t := by
  unfold decodeBorrowed decode decodeWith
  cases bs with
  | nil => simp
  | cons v r =>
    by_cases hv : v != 131
    · simp [hv]
    · simp only [hv, Bool.false_eq_true, ↓reduceIte]
      intro h
      split at h
      · simp at h
      · rename_i t' heq
        have := (dec_mono x [] (r.length + 1 + x.extra)).1 0 r _ heq
        simp only [cO] at this
        rw [this]; exact h
      · rename_i t' rest hne heq
        simp at h

example : decodeBorrowed Ext.none [131, 97, 5] = .ok (.int 5) := by evalm

/-- the contrapositive, spelled out: an input the owned decoder refuses is refused by the zero-copy decoder -/
theorem C13_reject_both (x : Ext) (bs : Bytes) (e : DErr) :
    decode x bs = .error e → ∃ e', decodeBorrowed x bs = .error e' := by
  intro h
  cases hb : decodeBorrowed x bs with
  | error e' => exact ⟨e', rfl⟩
  | ok t => rw [C13_agree x bs t hb] at h; simp at h

example : decode Ext.none [131, 0] = .error .err := by evalm

/-! ### clause 1, the conversion itself (`BorrowedTerm::to_owned`, Impl/Convert.lean: borrowed.rs arm by arm) -/

/-- `to_owned` forgets the ownership flags and nothing else: whatever tree the zero-copy decoder built — any term shape,
any mixture of borrowed and owned `Cow`s (`tagWith t fl`: the tree with structural image `t` and flags `fl`), maps being
`BTreeMap`s (`btreeSorted`) — converting it gives exactly the term it is the image of -/
theorem C13_to_owned_forgets_ownership (t : Term) (fl : List Bool) (h : btreeSorted t = true) :
    erase (tagWith t fl).1 = t ∧ toOwned (tagWith t fl).1 = t :=
  ⟨erase_tagWith t fl, toOwned_tagWith t fl h⟩

example : toOwned (tagWith (.tuple [.atom [97], .bin [1], .map [(.atom [98], .str [99])]]) [true, false, false, true]).1 =
    .tuple [.atom [97], .bin [1], .map [(.atom [98], .str [99])]] :=
  (C13_to_owned_forgets_ownership _ _ (by simp [btreeSorted, btreeSortedL, btreeSortedKV, pairwiseLt, allLt])).2

/-- clause 1 with the conversion spelled out: on every input the zero-copy decoder accepts with a tree whose image is `t`,
whatever that tree borrows and whatever it owns, `to_owned` of the tree is exactly the term the owned decoder returns -/
theorem C13_agree_converted (x : Ext) (bs : Bytes) (t : Term) (fl : List Bool) (hm : btreeSorted t = true) :
    decodeBorrowed x bs = .ok t → decode x bs = .ok (toOwned (tagWith t fl).1) := by
  intro h
  rw [toOwned_tagWith t fl hm]
  exact C13_agree x bs t h

/-- the same with the `btreeSorted` guard discharged: the maps of a term the zero-copy decoder returns ARE `BTreeMap`s
(Lemmas/DecSorted.lean: induction over the decoder model, every tag) as soon as their keys carry big integers with minimal
digits only (`mapKeysMin t`; the decoder keeps non-minimal digits, on which the library's order is not transitive) -/
theorem C13_agree_converted_decoded (x : Ext) (bs : Bytes) (t : Term) (fl : List Bool) (hk : mapKeysMin t = true) :
    decodeBorrowed x bs = .ok t → btreeSorted t = true ∧ decode x bs = .ok (toOwned (tagWith t fl).1) := by
  intro h
  have hb : btreeSorted t = true :=
    btreeSorted_of_mapsStrict t (mapsStrict_of_btInv t (decodeWith_btInv x _ bs t h) hk)
  exact ⟨hb, C13_agree_converted x bs t fl hb h⟩

example : mapKeysMin (.tuple [.map [(.big false [0, 1], .big false [1, 0])]]) = true := by
  simp [mapKeysMin, mapKeysMinL, mapKeysMinKV, keysWFo, WFo, minDigits]

/-- `is_borrowed` answers whether some `Cow` of the tree is borrowed: every tree -/
theorem C13_is_borrowed_iff_some_flag (b : BTerm) : isBorrowed b = (flagsOf b).any id := isBorrowed_flags b

example : isBorrowed (.tuple [.atom false [97], .list [.bin true [1]]]) = true := by
  rw [C13_is_borrowed_iff_some_flag]; rfl

/-! ### clause 2 — acceptance on modern-tag inputs -/

/-- on every input laid out with the tags current OTP releases emit over distribution only (the Spec's recogniser
`modernOnly`: layout, nothing else), the zero-copy decoder accepts whenever the owned decoder accepts, with the same
term — all byte strings, any behaviour of the external calls -/
theorem C13_modern_accepts (x : Ext) (bs : Bytes) (t : Term) :
    Spec.Modern.modernOnly bs = true → decode x bs = .ok t → decodeBorrowed x bs = .ok t := by
  intro hm hd
  unfold decode decodeWith at hd
  unfold decodeBorrowed decodeWith
  cases bs with
  | nil => simp at hd
  | cons v r =>
    by_cases hv : v != 131
    · simp [hv] at hd
    · simp only [hv, Bool.false_eq_true, ↓reduceIte] at hd ⊢
      have hv' : v = 131 := by simpa using hv
      subst hv'
      simp only [Spec.Modern.modernOnly, beq_iff_eq] at hm
      split at hd
      · simp at hd
      · rename_i t' heq
        have := ((dec_accepts_modern x [] (r.length + 1 + x.extra)).1 0 r t' [] _ _ heq hm).2
        simp only [cB] at this
        rw [this]; exact hd
      · simp at hd

example : Spec.Modern.modernOnly [131, 104, 2, 97, 1, 119, 1, 97] = true := by decide
example : Spec.Modern.modernOnly [131, 104, 1, 115, 1, 97] = false := by decide


/-- the guard cannot be dropped: a legacy SMALL_ATOM_EXT atom is accepted by the owned decoder and refused by the
zero-copy decoder (which has no arm for tag 115), and the recogniser says so -/
theorem C13_legacy_refused :
    ∃ bs t, decode Ext.none bs = .ok t ∧ decodeBorrowed Ext.none bs = .error .err ∧ Spec.Modern.modernOnly bs = false :=
  ⟨[131, 115, 1, 97], .atom [97], by evalm, by evalm, by decide⟩

/-- the zero-copy decoder dispatches on a subset of the owned decoder's tags (both regenerated from the source every run) -/
theorem C13_tagsets : ∀ t ∈ Gen.borrowedTags, t ∈ Gen.ownedTags := by decide

/-- the tags the Spec's recogniser knows are exactly the 21 modern tags, and the zero-copy decoder's dispatch table
(regenerated) has an arm for every one of them -/
theorem C13_modern_dispatched :
    Spec.Modern.modernTags = [97, 98, 110, 111, 70, 118, 119, 104, 105, 106, 107, 108, 109, 77, 116, 88, 120, 89, 90, 113, 112] ∧
    ∀ t ∈ Spec.Modern.modernTags, t ∈ Gen.borrowedTags := by decide

/-- the tags the model's zero-copy configuration refuses are exactly the tags the regenerated owned table has and the
regenerated zero-copy table lacks (DIST_HEADER, 68, is in the owned table only to be rejected), and none of them is modern -/
theorem C13_owned_only_exact :
    (∀ t, t ∈ ownedOnlyTags ↔ (t ∈ Gen.ownedTags ∧ t ∉ Gen.borrowedTags ∧ t ≠ 68)) ∧
    ∀ t ∈ ownedOnlyTags, t ∉ Spec.Modern.modernTags := by
  constructor
  · intro t; simp [ownedOnlyTags, Gen.ownedTags, Gen.borrowedTags]; omega
  · decide

/-- which zero-copy parsers receive the error context, which do not, and which path segment each loop pushes —
as regenerated from decoder.rs — are what the context model has -/
theorem C13_ctx_parsers :
    Gen.C13_CTX_TAGS = ctxNodeTags ∧ Gen.C13_PLAIN_TAGS = ctxLeafTags ∧
    Gen.C13_PUSHES = [("parse_small_tuple_borrowed", ["TupleElement"]), ("parse_large_tuple_borrowed", ["TupleElement"]),
      ("parse_list_borrowed", ["ListElement", "ImproperListTail"]), ("parse_map_borrowed", ["MapKey", "MapValue"]),
      ("parse_new_fun_ext_borrowed", ["FunFreeVar"])] ∧
    Gen.C13_OFFSET_ASSIGNMENTS = ["parse_versioned_term_borrowed:original_len-input.len()-1",
      "parse_term_borrowed:original_len-input.len()", "decode_borrowed:original_len-remaining.len()"] := by decide

/-! ### the context model is the zero-copy decoder -/

/-- forgetting offset and path, the context model returns what the zero-copy configuration of the generic model returns,
on every input (so clause 1 and 2 hold for it as well), and the offset arithmetic never panics on the way -/
theorem C13_ctx_erase (x : Ext) (bs : Bytes) : (decodeBorrowedCtx x bs).erase = some (decodeBorrowed x bs) := by
  unfold decodeBorrowedCtx decodeBorrowed decodeWith
  cases bs with
  | nil => simp [BTop.erase]
  | cons v r =>
    simp only [List.length_cons, Nat.lt_irrefl, gt_iff_lt, ↓reduceIte]
    by_cases hv : v != 131
    · simp [hv, BTop.erase]
    · simp only [hv, Bool.false_eq_true, ↓reduceIte]
      have h := ctx_top x r
      revert h
      generalize decC x (r.length + 1) (r.length + 1 + x.extra) 0 [] r = cres
      have e : ({ borrowed := true } : DecCfg) = cBorrowed := rfl
      rw [e]
      generalize dec x cBorrowed (r.length + 1 + x.extra) 0 r = dres
      intro h
      rcases cres with ⟨t, r2, off2⟩ | ⟨e, o, q⟩ | _
      · obtain ⟨rfl, hl, _, _⟩ := h
        cases r2 with
        | nil => simp [BTop.erase]
        | cons b rest =>
          have : ¬ (rest.length + 1 > r.length + 1) := by simp only [List.length_cons] at hl; omega
          simp [this, BTop.erase]
      · obtain ⟨rfl, _, _⟩ := h
        simp [BTop.erase]
      · exact h.elim


example : decodeBorrowedCtx Ext.none [131, 104, 2, 97, 1] = .fail .err 5 [.tupleElem 1] := by evalm

theorem C13_agree_ctx (x : Ext) (bs : Bytes) (t : Term) : decodeBorrowedCtx x bs = .ok t → decode x bs = .ok t := by
  intro h
  have := C13_ctx_erase x bs
  rw [h] at this
  simp only [BTop.erase, Option.some.injEq] at this
  exact C13_agree x bs t this.symm

theorem C13_modern_accepts_ctx (x : Ext) (bs : Bytes) (t : Term) :
    Spec.Modern.modernOnly bs = true → decode x bs = .ok t → decodeBorrowedCtx x bs = .ok t := by
  intro hm hd
  have h1 := C13_modern_accepts x bs t hm hd
  have h2 := C13_ctx_erase x bs
  rw [h1] at h2
  cases hc : decodeBorrowedCtx x bs <;> rw [hc] at h2 <;> simp [BTop.erase] at h2
  rw [h2]

example : decodeBorrowedCtx Ext.none [131, 104, 2, 97, 1, 106] = .ok (.tuple [.int 1, .nil]) := by evalm

/-! ### clause 3 — the reported offset -/

/-- `original_len - input.len()` never underflows: no parser of the family is ever handed more bytes than the input has -/
theorem C13_no_underflow (x : Ext) (bs : Bytes) : decodeBorrowedCtx x bs ≠ .panic := by
  intro h
  have := C13_ctx_erase x bs
  rw [h] at this
  simp [BTop.erase] at this

/-- when the zero-copy decoder rejects an input, the byte offset it reports lies within the input — every input, every
kind of error -/
theorem C13_offset_within (x : Ext) (bs : Bytes) (e : DErr) (off : Nat) (p : List Seg) :
    decodeBorrowedCtx x bs = .fail e off p → off ≤ bs.length := by
  unfold decodeBorrowedCtx
  cases bs with
  | nil => intro h; simp at h; omega
  | cons v r =>
    simp only [List.length_cons, Nat.lt_irrefl, gt_iff_lt, ↓reduceIte]
    by_cases hv : v != 131
    · simp only [hv, ↓reduceIte]; intro h; simp at h; omega
    · simp only [hv, Bool.false_eq_true, ↓reduceIte]
      have h := ctx_top x r
      revert h
      generalize decC x (r.length + 1) (r.length + 1 + x.extra) 0 [] r = cres
      generalize dec x cBorrowed (r.length + 1 + x.extra) 0 r = dres
      intro h
      rcases cres with ⟨t, r2, off2⟩ | ⟨e', o, q⟩ | _
      · cases r2 with
        | nil => intro h'; simp at h'
        | cons b rest =>
          intro h'
          simp only [] at h'
          split at h'
          · simp at h'
          · simp at h'; omega
      · obtain ⟨_, _, ho⟩ := h
        intro h'; simp at h'; omega
      · exact h.elim

example : decodeBorrowedCtx Ext.none [131, 108, 0, 0, 0, 1, 97] = .fail .err 6 [.listElem 0] := by evalm

/-- behind a good version byte every reported offset is at least 1, and an error other than trailing data carries the path
and offset of the term being parsed: it lies behind the version byte -/
theorem C13_offset_behind_version (x : Ext) (r : Bytes) (e : DErr) (off : Nat) (p : List Seg) :
    decodeBorrowedCtx x (131 :: r) = .fail e off p → 1 ≤ off := by
  unfold decodeBorrowedCtx
  simp only [List.length_cons, Nat.lt_irrefl, gt_iff_lt, ↓reduceIte, bne_self_eq_false, Bool.false_eq_true]
  have h := ctx_top x r
  revert h
  generalize decC x (r.length + 1) (r.length + 1 + x.extra) 0 [] r = cres
  generalize dec x cBorrowed (r.length + 1 + x.extra) 0 r = dres
  intro h
  rcases cres with ⟨t, r2, off2⟩ | ⟨e', o, q⟩ | _
  · obtain ⟨_, hl, _, _⟩ := h
    cases r2 with
    | nil => intro h'; simp at h'
    | cons b rest =>
      intro h'
      simp only [List.length_cons] at hl
      simp only [] at h'
      split at h'
      · simp at h'
      · simp at h'; omega
  · obtain ⟨_, hlo, _⟩ := h
    intro h'; simp at h'; omega
  · exact h.elim

/-- trailing data: the offset is where the trailing bytes start, the count is what follows, the path is the root -/
theorem C13_trailing_offset (x : Ext) (bs : Bytes) (n off : Nat) (p : List Seg) :
    decodeBorrowedCtx x bs = .fail (.trailing n) off p → off + n = bs.length ∧ 0 < n ∧ 0 < off := by
  intro h0
  have hw := C13_offset_within x bs _ _ _ h0
  revert h0
  unfold decodeBorrowedCtx
  cases bs with
  | nil => intro h; simp at h
  | cons v r =>
    simp only [List.length_cons, Nat.lt_irrefl, gt_iff_lt, ↓reduceIte]
    by_cases hv : v != 131
    · simp only [hv, ↓reduceIte]; intro h; simp at h
    · simp only [hv, Bool.false_eq_true, ↓reduceIte]
      have h := ctx_top x r
      have hnt := (dec_ne_trailing x cBorrowed n (r.length + 1 + x.extra)).1 0 r
      revert h hnt
      generalize decC x (r.length + 1) (r.length + 1 + x.extra) 0 [] r = cres
      generalize dec x cBorrowed (r.length + 1 + x.extra) 0 r = dres
      intro h hnt
      rcases cres with ⟨t, r2, off2⟩ | ⟨e', o, q⟩ | _
      · obtain ⟨_, hl, _, _⟩ := h
        cases r2 with
        | nil => intro h'; simp at h'
        | cons b rest =>
          intro h'
          simp only [List.length_cons] at hl
          simp only [] at h'
          split at h'
          · simp at h'
          · simp at h'; omega
      · intro h'
        simp at h'
        obtain ⟨rfl, _, _⟩ := h'
        -- a parser of the family never reports trailing data: that is the top level's finding
        exact absurd h.1 hnt
      · exact h.elim

example : decodeBorrowedCtx Ext.none [131, 106, 7, 7] = .fail (.trailing 2) 2 [] := by evalm

/-- a missing or wrong version byte is reported at offset 0, at the root -/
theorem C13_version_offset (x : Ext) (bs : Bytes) (h : ∀ r, bs ≠ 131 :: r) : decodeBorrowedCtx x bs = .fail .err 0 [] := by
  unfold decodeBorrowedCtx
  cases bs with
  | nil => rfl
  | cons v r =>
    have hv : (v != 131) = true := by
      simp only [bne_iff_ne, ne_eq]
      intro hv; exact h r (by rw [hv])
    simp [hv]

example : decodeBorrowedCtx Ext.none [130, 106] = .fail .err 0 [] := by evalm

end Edp.Props.C13
