import EdpVerif.Impl.Term
/-
Model of `impl Ord for OwnedTerm` (term.rs) / `impl Ord for BorrowedTerm` (borrowed.rs):
type ranks, exact numeric comparison (`compare_signed_magnitudes`, `compare_signed_magnitude_float`),
cons-cell list comparison (`compare_list_terms`), bytes-then-bits for bit-strings, maps by size,
keys, values.  `PartialEq` (derived) is `Term.eqv`; `Hash` is `hashTokens`.
-/
namespace Edp

abbrev thenO (a b : Ordering) : Ordering := a.then b

/-- lexicographic order of byte/number lists, shorter prefix first (Rust slice `cmp`) -/
def lexCmp : List Nat → List Nat → Ordering
  | [], [] => .eq
  | [], _ :: _ => .lt
  | _ :: _, [] => .gt
  | a :: as, b :: bs => thenO (compare a b) (lexCmp as bs)

def bytesCmp (a b : Bytes) : Ordering := lexCmp (a.map UInt8.toNat) (b.map UInt8.toNat)

/-! ### numbers -/

/-- value of a little-endian base-256 magnitude -/
def magVal : Bytes → Nat
  | [] => 0
  | b :: r => b.toNat + 256 * magVal r

def allZero (d : Bytes) : Bool := d.all (· == 0)

/-- `compare_magnitudes`: digit count, then from the most significant digit down -/
def cmpMag (a b : Bytes) : Ordering := thenO (compare a.length b.length) (bytesCmp a.reverse b.reverse)

def signum (neg : Bool) (d : Bytes) : Int := if allZero d then 0 else if neg then -1 else 1

/-- `compare_signed_magnitudes` -/
def cmpSignedMag (an : Bool) (a : Bytes) (bn : Bool) (b : Bytes) : Ordering :=
  thenO (compare (signum an a) (signum bn b))
    (if signum an a < 0 then cmpMag b a else cmpMag a b)

/-- minimal little-endian digits of a natural number (`[]` for 0) -/
def natDigits (n : Nat) : Bytes :=
  if h : n = 0 then [] else UInt8.ofNat (n % 256) :: natDigits (n / 256)
termination_by n
decreasing_by omega

def cmpIntBig (i : Int) (neg : Bool) (d : Bytes) : Ordering :=
  cmpSignedMag (i < 0) (natDigits i.natAbs) neg d

/-- an IEEE-754 double given by its bit pattern -/
structure F64 where
  neg : Bool
  exp : Nat
  frac : Nat

def f64 (bits : Nat) : F64 := ⟨bits / 2 ^ 63 % 2 == 1, bits / 2 ^ 52 % 2048, bits % 2 ^ 52⟩
def F64.isNaN (f : F64) : Bool := f.exp == 2047 && f.frac != 0
def F64.isInf (f : F64) : Bool := f.exp == 2047 && f.frac == 0
def F64.isZero (f : F64) : Bool := f.exp == 0 && f.frac == 0
/-- finite `f` = `mant * 2^expo` -/
def F64.mant (f : F64) : Nat := if f.exp == 0 then f.frac else f.frac + 2 ^ 52
def F64.expo (f : F64) : Int := if f.exp == 0 then -1074 else (f.exp : Int) - 1075
def F64.sign (f : F64) : Int := if f.isZero then 0 else if f.neg then -1 else 1

/-- compare the natural number `v` with `m * 2^e`, exactly -/
def cmpNatDyadic (v m : Nat) (e : Int) : Ordering :=
  if e ≥ 0 then compare v (m * 2 ^ e.toNat) else compare (v * 2 ^ (-e).toNat) m

abbrev ordRev (o : Ordering) : Ordering := o.swap

/-- `compare_signed_magnitude_float`: integer (sign, magnitude) against a float; NaN sorts last -/
def cmpSignedMagFloat (neg : Bool) (d : Bytes) (bits : Nat) : Ordering :=
  let f := f64 bits
  if f.isNaN then .lt else
  let si := signum neg d
  let sf : Int := f.sign
  thenO (compare si sf)
    (if si == 0 then .eq
     else if f.isInf then (if f.neg then .gt else .lt)
     else if si < 0 then ordRev (cmpNatDyadic (magVal d) f.mant f.expo)
     else cmpNatDyadic (magVal d) f.mant f.expo)

def cmpIntFloat (i : Int) (bits : Nat) : Ordering := cmpSignedMagFloat (i < 0) (natDigits i.natAbs) bits

/-- two non-NaN floats by value: sign first, then (exponent, fraction) which orders magnitudes (infinity has exponent 2047) -/
def cmpNonNaN (fa fb : F64) : Ordering :=
  thenO (compare fa.sign fb.sign)
    (if fa.sign = 0 then .eq
     else if fa.sign < 0 then (thenO (compare fa.exp fb.exp) (compare fa.frac fb.frac)).swap
     else thenO (compare fa.exp fb.exp) (compare fa.frac fb.frac))

/-- float against float as the code has it: NaN = NaN, NaN after everything, otherwise by value
(`partial_cmp`, taken to be comparison of the real values, with -0.0 = 0.0) -/
def cmpFloat (a b : Nat) : Ordering :=
  if (f64 a).isNaN && (f64 b).isNaN then .eq
  else if (f64 a).isNaN then .gt
  else if (f64 b).isNaN then .lt
  else cmpNonNaN (f64 a) (f64 b)

/-! ### terms -/

namespace Term

/-- `term_type_order` -/
def rank : Term → Nat
  | .int _ | .big _ _ | .float _ => 0
  | .atom _ => 1
  | .ref _ _ _ _ => 2
  | .xfun _ _ _ | .ifun _ _ _ _ _ _ _ _ _ => 3
  | .port _ _ _ _ => 4
  | .pid _ => 5
  | .tuple _ => 6
  | .map _ => 7
  | .nil | .list _ | .ilist _ _ => 8
  | .bin _ | .bits _ _ | .str _ => 9

def listRank : Nat := 8

def isListLike : Term → Bool
  | .nil | .list _ | .ilist _ _ => true
  | _ => false

mutual
/-- follow list tails, as `ListCells` does lazily: the same Erlang list always has the same cells -/
def norm : Term → Term
  | .list l => match normL l with
    | [] => .nil
    | l' => .list l'
  | .ilist l t =>
    match normL l, norm t with
    | [], t' => t'
    | l', .nil => .list l'
    | l', .list l2 => .list (l' ++ l2)
    | l', .ilist l2 t2 => .ilist (l' ++ l2) t2
    | l', t' => .ilist l' t'
  | .map kvs => .map (normKV kvs)
  | .tuple l => .tuple (normL l)
  | .ifun a u i nf m oi ou p fr => .ifun a u i nf m oi ou p (normL fr)
  | t => t
def normL : List Term → List Term
  | [] => []
  | t :: ts => norm t :: normL ts
def normKV : List (Term × Term) → List (Term × Term)
  | [] => []
  | (k, v) :: r => (norm k, norm v) :: normKV r
end

def pidCmp (a b : PidF) : Ordering :=
  thenO (bytesCmp a.node b.node) (thenO (compare a.id b.id) (thenO (compare a.serial b.serial) (compare a.creation b.creation)))

def bitParts : Term → Option (Bytes × Nat)
  | .bin b => some (b, 8)
  | .str s => some (s, 8)
  | .bits b n => some (b, n)
  | _ => none

mutual
/-- the comparison on terms whose list tails have been followed (`norm`) -/
def cmpN : Term → Term → Ordering
  | a, b =>
    if rank a ≠ rank b then compare (rank a) (rank b) else
    match a, b with
    | .int x, .int y => compare x y
    | .int x, .big n d => cmpIntBig x n d
    | .big n d, .int y => ordRev (cmpIntBig y n d)
    | .big n d, .big n2 d2 => cmpSignedMag n d n2 d2
    | .int x, .float f => cmpIntFloat x f
    | .float f, .int y => ordRev (cmpIntFloat y f)
    | .big n d, .float f => cmpSignedMagFloat n d f
    | .float f, .big n d => ordRev (cmpSignedMagFloat n d f)
    | .float x, .float y => cmpFloat x y
    | .atom x, .atom y => bytesCmp x y
    | .ref n c ids _, .ref n2 c2 ids2 _ => thenO (bytesCmp n n2) (thenO (compare c c2) (lexCmp ids ids2))
    | .xfun m f a, .xfun m2 f2 a2 => thenO (bytesCmp m m2) (thenO (bytesCmp f f2) (compare a a2))
    | .ifun _ u i _ m oi ou p fr, .ifun _ u2 i2 _ m2 oi2 ou2 p2 fr2 =>
        thenO (bytesCmp m m2) (thenO (compare oi oi2) (thenO (compare ou ou2) (thenO (compare i i2)
          (thenO (bytesCmp u u2) (thenO (pidCmp p p2) (cmpZip fr fr2 .eq .lt .gt))))))
    | .xfun _ _ _, .ifun _ _ _ _ _ _ _ _ _ => .lt
    | .ifun _ _ _ _ _ _ _ _ _, .xfun _ _ _ => .gt
    | .port n i c _, .port n2 i2 c2 _ => thenO (bytesCmp n n2) (thenO (compare i i2) (compare c c2))
    | .pid p, .pid q => pidCmp p q
    | .tuple x, .tuple y => thenO (compare x.length y.length) (cmpZip x y .eq .eq .eq)
    | .map x, .map y => thenO (compare x.length y.length) (thenO (cmpKeys x y) (cmpVals x y))
    -- lists as chains of cons cells: `nil`, `list l` (tail nil) and `ilist l t`
    | .nil, .nil => .eq
    | .nil, .list y => if y.isEmpty then .eq else .lt
    | .list x, .nil => if x.isEmpty then .eq else .gt
    | .list x, .list y => cmpZip x y .eq .lt .gt
    | .nil, .ilist y t => if y.isEmpty then compare listRank (rank t) else .lt
    | .ilist x t, .nil => if x.isEmpty then compare (rank t) listRank else .gt
    | .list x, .ilist y t => cmpZip x y (compare listRank (rank t)) .lt (compare listRank (rank t))
    | .ilist x t, .list y => cmpZip x y (compare (rank t) listRank) (compare (rank t) listRank) .gt
    | .ilist x t, .ilist y t2 => cmpZip x y (cmpN t t2) (compare (rank t) listRank) (compare listRank (rank t2))
    | a, b =>
      match bitParts a, bitParts b with
      | some (x, xb), some (y, yb) => thenO (bytesCmp x y) (compare xb yb)
      | _, _ => .eq
/-- element-wise; `both` when both run out together, `aOut` when the first runs out first, `bOut` otherwise -/
def cmpZip : List Term → List Term → Ordering → Ordering → Ordering → Ordering
  | [], [], both, _, _ => both
  | [], _ :: _, _, aOut, _ => aOut
  | _ :: _, [], _, _, bOut => bOut
  | x :: xs, y :: ys, both, aOut, bOut => thenO (cmpN x y) (cmpZip xs ys both aOut bOut)
def cmpKeys : List (Term × Term) → List (Term × Term) → Ordering
  | (k, _) :: r, (k2, _) :: r2 => thenO (cmpN k k2) (cmpKeys r r2)
  | _, _ => .eq
def cmpVals : List (Term × Term) → List (Term × Term) → Ordering
  | (_, v) :: r, (_, v2) :: r2 => thenO (cmpN v v2) (cmpVals r r2)
  | _, _ => .eq
end

/-- `Ord::cmp` -/
def cmp (a b : Term) : Ordering := cmpN (norm a) (norm b)

end Term
end Edp
