import EdpVerif.Impl.Serde
/-! C15, the error clause: for every constructor of the type universe, the term shapes a value of the type is written as
(in either wire representation) or is documented to be read from. Written from the serde data model, not from de.rs. -/
namespace Edp.SerdeShape
open Edp Edp.Serde

/-- the term reads as a string (`deserialize_str` / `deserialize_identifier`) naming one of the variants -/
def namesVariant (vs : List (Bytes × Ty)) (t : Term) : Bool :=
  match deStr t with
  | .ok a => vs.any fun v => v.1 == a
  | .error _ => false

/-- which terms a type can be read from at all, by the type's constructor (written from the serde data model:
what the serialiser writes for the type, in either wire representation, plus the documented leniencies) -/
def shapeOk : Ty → Term → Bool
  | .int _, .int _ => true
  | .int _, .big _ _ => true
  | .f32, .float _ => true
  | .f64, .float _ => true
  | .bool, .atom a => a == sTrue || a == sFalse
  | .char, .str _ => true
  | .char, .bin _ => true
  | .string, .bin _ => true
  | .string, .str _ => true
  | .string, .atom _ => true
  | .bytes, .bin _ => true
  | .unit, .atom a => a == sNil
  | .option ty, t => isUndef t || shapeOk ty t
  | .tuple ts, .tuple l => decide (ts.length ≤ l.length)
  | .seq _, .list _ => true
  | .seq _, .nil => true
  | .map _ _, .map _ => true
  | .struct _ _, .map _ => true
  | .unitStruct n, .atom a => a == n
  | .newtype _ ty, t => shapeOk ty t
  | .tupleStruct _ ts, .tuple l => decide (ts.length ≤ l.length)
  | .exStruct _ _, .map _ => true
  | .enum _ vs, .atom a => vs.any fun v => v.1 == a
  | .enum _ vs, .tuple (h :: _) => namesVariant vs h
  | _, _ => false

end Edp.SerdeShape
