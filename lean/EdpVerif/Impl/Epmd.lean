import EdpVerif.Basic.Bytes
import EdpVerif.Basic.Utf8
import EdpVerif.Generated.MiscC04conn
/-
Model of crates/edp_client/src/epmd_client.rs: `lookup_node` (PORT_PLEASE2_REQ → PORT2_RESP) and `register_node`
(ALIVE2_REQ → ALIVE2_RESP / ALIVE2_X_RESP), function by function. Message tags, accepted node types / protocols and the
two length limits are the values `tools/gen_misc.py gen_c04conn` extracts from the source.

  Rust                                                Lean
  the TcpStream after the request was written          Stream (the bytes EPMD sends from now on; whether it then closes)
  stream.read_u8/u16/u32().await?                      rdU k  (short input: UnexpectedEof after a close, else the exchange's
  stream.read_exact(&mut buf).await?                   rdB n   timeout fires — `within_timeout`)
  vec![0u8; nlen as usize] / vec![0u8; elen as usize]  the allocation log (first component of `lookupParse`)
  buf.put_u16(node_name.len() as u16 + 1)              `lookupReq`: the cast wraps, the addition panics on overflow (dev profile)
  buf.put_u16(total_len as u16) …                      `registerReq`: the casts wrap
-/
namespace Edp.Impl.Epmd
open Edp

def tagPort2Req : Nat := Gen.EPMD_PORT2_REQ
def tagPort2Resp : Nat := Gen.EPMD_PORT2_RESP
def tagAlive2Req : Nat := Gen.EPMD_ALIVE2_REQ
def tagAlive2Resp : Nat := Gen.EPMD_ALIVE2_RESP
def tagAlive2XResp : Nat := Gen.EPMD_ALIVE2_X_RESP
/-- the node-type bytes the `match` of `lookup_node` has arms for -/
def typeArms : List Nat := Gen.EPMD_TYPE_ARMS.map (·.1)
def protoArms : List Nat := Gen.EPMD_PROTO_ARMS.map (·.1)
def maxName : Nat := Gen.EPMD_MAX_NAME
def maxExtra : Nat := Gen.EPMD_MAX_EXTRA

inductive Err
  | notFound                -- Error::EpmdLookup
  | badType (b : Nat)       -- EpmdProtocol("Unknown node type: ..")
  | badProto (b : Nat)      -- EpmdProtocol("Unknown protocol: ..")
  | nameLong (n : Nat)      -- EpmdProtocol("Node name too long: ..")
  | badUtf8                 -- EpmdProtocol("Invalid UTF-8 in node name")
  | extraLong (n : Nat)     -- EpmdProtocol("Extra data too long: ..")
  | badResp (b : Nat)       -- EpmdProtocol("Unexpected response type: ..")
  | regErr (code : Nat)     -- Error::EpmdRegistration
  | eof                     -- Error::Io(UnexpectedEof)
  | timeout                 -- Error::Timeout
  | noEpmd                  -- EpmdProtocol("Failed to connect to EPMD ..")
deriving DecidableEq, Repr

structure NodeInfo where
  port : Nat
  type : Nat
  proto : Nat
  hi : Nat
  lo : Nat
  name : Bytes
  extra : Bytes
deriving DecidableEq, Repr

/-- what EPMD sends after the request, and whether it closes the connection after that (`false`: it stays silent) -/
structure Stream where
  data : Bytes
  closed : Bool
deriving DecidableEq, Repr

/-- a read that cannot be completed: end of stream after a close, otherwise the timeout of the exchange -/
def short (s : Stream) : Err := if s.closed then .eof else .timeout

/-- `read_u8 / read_u16 / read_u32` -/
def rdU (k : Nat) (s : Stream) : Except Err (Nat × Stream) :=
  match rdN k s.data with
  | some (v, r) => .ok (v, { s with data := r })
  | none => .error (short s)

/-- `read_exact` into a buffer of `n` bytes -/
def rdB (n : Nat) (s : Stream) : Except Err (Bytes × Stream) :=
  match takeN n s.data with
  | some (b, r) => .ok (b, { s with data := r })
  | none => .error (short s)

/-- the reply half of `lookup_node`: the sizes of the buffers it allocated, and its result -/
def lookupParse (s : Stream) : List Nat × Except Err NodeInfo :=
  match rdU 1 s with
  | .error e => ([], .error e)
  | .ok (t, s) =>
  if t ≠ tagPort2Resp then ([], .error (.badResp t)) else
  match rdU 1 s with
  | .error e => ([], .error e)
  | .ok (res, s) =>
  if res ≠ 0 then ([], .error .notFound) else
  match rdU 2 s with
  | .error e => ([], .error e)
  | .ok (port, s) =>
  match rdU 1 s with
  | .error e => ([], .error e)
  | .ok (ty, s) =>
  if ¬ typeArms.contains ty then ([], .error (.badType ty)) else
  match rdU 1 s with
  | .error e => ([], .error e)
  | .ok (pr, s) =>
  if ¬ protoArms.contains pr then ([], .error (.badProto pr)) else
  match rdU 2 s with
  | .error e => ([], .error e)
  | .ok (hi, s) =>
  match rdU 2 s with
  | .error e => ([], .error e)
  | .ok (lo, s) =>
  match rdU 2 s with
  | .error e => ([], .error e)
  | .ok (nlen, s) =>
  if nlen > maxName then ([], .error (.nameLong nlen)) else
  match rdB nlen s with
  | .error e => ([nlen], .error e)
  | .ok (name, s) =>
  if ¬ validUtf8 name then ([nlen], .error .badUtf8) else
  match rdU 2 s with
  | .error e => ([nlen], .error e)
  | .ok (elen, s) =>
  if elen > maxExtra then ([nlen], .error (.extraLong elen)) else
  match rdB elen s with
  | .error e => ([nlen, elen], .error e)
  | .ok (extra, _) => ([nlen, elen], .ok ⟨port, ty, pr, hi, lo, name, extra⟩)

/-- a request buffer, or the panic of an overflowing addition -/
inductive Req
  | ok (b : Bytes)
  | panic
deriving DecidableEq, Repr

/-- the request half of `lookup_node`: `put_u16(node_name.len() as u16 + 1); put_u8(PORT2_REQ); put_slice(name)` -/
def lookupReq (name : Bytes) : Req :=
  if name.length % 65536 + 1 ≥ 65536 then .panic
  else .ok (be16 (name.length % 65536 + 1) ++ [UInt8.ofNat tagPort2Req] ++ name)

/-- the request half of `register_node` (`Protocol::Tcp as u8` = 0; every length goes through `as u16`) -/
def registerReq (port type hi lo : Nat) (name extra : Bytes) : Bytes :=
  be16 (1 + 2 + 1 + 1 + 2 + 2 + 2 + name.length + 2 + extra.length) ++ [UInt8.ofNat tagAlive2Req] ++ be16 port ++
    [UInt8.ofNat type, 0] ++ be16 hi ++ be16 lo ++ be16 name.length ++ name ++ be16 extra.length ++ extra

/-- the reply half of `register_node`: the creation -/
def registerParse (s : Stream) : Except Err Nat :=
  match rdU 1 s with
  | .error e => .error e
  | .ok (t, s) =>
  if t = tagAlive2Resp then
    match rdU 1 s with
    | .error e => .error e
    | .ok (res, s) =>
    if res ≠ 0 then .error (.regErr res) else
    match rdU 2 s with
    | .error e => .error e
    | .ok (c, _) => .ok c
  else if t = tagAlive2XResp then
    match rdU 1 s with
    | .error e => .error e
    | .ok (res, s) =>
    if res ≠ 0 then .error (.regErr res) else
    match rdU 4 s with
    | .error e => .error e
    | .ok (c, _) => .ok c
  else .error (.badResp t)

end Edp.Impl.Epmd
