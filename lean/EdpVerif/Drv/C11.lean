import EdpVerif.Drv.Common
namespace Edp.Drv

/-- driver requests of property C11 (stub: nothing handled yet) -/
def handleC11 : List String → Option String
  | _ => none

end Edp.Drv
