//! C16: allocated pids and references are unique under any interleaving.
//!
//! Drives the REAL `edp_client::PidAllocator` and `edp_node::Node::make_reference`:
//!  * sequentially, from counter positions set through the `*_test_only` accessors (1, MAX-1, MAX, serial 2^32-1,
//!    serial 2^64-1, id u32::MAX, ...), across id wraps and the serial's 32-bit wrap; results are compared with the Lean
//!    model's sequential function (`c16seq` hash + final state, `c16win` explicit windows, `c16ops` with `set_creation`);
//!  * on 2-4 real OS threads (seeded counts, optionally a concurrent `set_creation` thread): every thread's observed
//!    results are handed to the driver, which must reconstruct a schedule of the small-step model producing exactly
//!    these per-thread results (`c16thr`, trace validation at allocation granularity);
//!  * the property itself on the implementation's output: (id, serial) pairwise distinct, creations in force
//!    (X lines from the harness for the large runs, `c16uniq` / `c16refuniq` P lines through the Lean oracle).
//! Finer interleaving control needs the hook patch proposed in notes/C16-hooks.patch (see harness/src/c16_sched.rs.txt).
use crate::Ctx;
use edp_client::PidAllocator;
use erltf::types::Atom;
use std::panic::{catch_unwind, AssertUnwindSafe};
use std::sync::atomic::Ordering;
use std::sync::{Arc, Barrier};

/// only used to pick boundary positions; the oracle's value is regenerated from the source (Generated/Misc.lean)
const MAXP: u32 = 1_048_576;
const FNV0: u64 = 14695981039346656037;
const FNVP: u64 = 1099511628211;

#[derive(Clone, Copy, PartialEq, Eq, Debug)]
enum Res {
    Ok(u32, u32, u32),
    Err,
    Panic,
}

impl Res {
    fn text(&self) -> String {
        match self {
            Res::Ok(i, s, c) => format!("{}.{}.{}", i, s, c),
            Res::Err => "err".to_string(),
            Res::Panic => "panic".to_string(),
        }
    }
    fn hash(&self, h: u64) -> u64 {
        match self {
            Res::Ok(i, s, c) => mix(mix(mix(mix(h, 0), *i as u64), *s as u64), *c as u64),
            Res::Err => mix(h, 1),
            Res::Panic => mix(h, 2),
        }
    }
}

fn mix(h: u64, w: u64) -> u64 {
    (h ^ w).wrapping_mul(FNVP)
}

fn call(a: &PidAllocator) -> Res {
    match catch_unwind(AssertUnwindSafe(|| a.allocate())) {
        Ok(Ok(p)) => Res::Ok(p.id, p.serial, p.creation),
        Ok(Err(_)) => Res::Err,
        Err(_) => Res::Panic,
    }
}

/// The allocation sequence as the property states it, written from the statement and not from the code: numbers 1..=MAX are
/// handed out in turn with the current serial; when the number space is exhausted the serial advances and numbering starts
/// again (the pid that carries the number MAX already has the advanced serial, the next one is number 1 with that serial).
/// `n` allocations from the counter position (`id0`, `ser0`) hand out exactly this set, in whatever order the callers
/// interleave: a pid outside it repeats one that an earlier allocation of the same history was given (seeded change S68:
/// the serial read before the lock, so that a caller overtaken by a wrapping one returns (1, old serial)).
pub fn sequential_window(id0: u32, ser0: u64, n: usize) -> Option<Vec<u64>> {
    let (mut id, mut ser) = (id0 as u64, ser0);
    let mut v = Vec::with_capacity(n);
    for _ in 0..n {
        if id >= MAXP as u64 {
            ser = ser.checked_add(1)?;
            v.push((id << 32) | (ser % (1u64 << 32)));
            id = 1;
        } else {
            v.push((id << 32) | (ser % (1u64 << 32)));
            id += 1;
        }
    }
    v.sort_unstable();
    Some(v)
}

/// X check: the pids of a concurrent run are the sequential window of its start position
pub fn window_check(ctx: &mut Ctx, what: &str, id0: u32, ser0: u64, keys: &[u64]) {
    if id0 == 0 || id0 > MAXP {
        return; // not a position the allocator itself ever reaches
    }
    let Some(want) = sequential_window(id0, ser0, keys.len()) else { return };
    let mut got = keys.to_vec();
    got.sort_unstable();
    if got != want {
        let show = |k: &u64| format!("{}.{}", k >> 32, k & 0xffff_ffff);
        let extra: Vec<String> = got.iter().filter(|k| want.binary_search(k).is_err()).take(4).map(show).collect();
        let missing: Vec<String> = want.iter().filter(|k| got.binary_search(k).is_err()).take(4).map(show).collect();
        ctx.fail("c16-not-the-sequential-window", &format!("{}: handed out {:?} which the {} allocations from this position never yield in sequence (a pid of an earlier epoch or position is repeated); not handed out: {:?}", what, extra, keys.len(), missing));
    }
    ctx.count("window_checks");
}

fn mk(id0: u32, ser0: u64, cre: u32) -> PidAllocator {
    let a = PidAllocator::new(Atom::new("c16@localhost"), cre);
    a.next_id_test_only().store(id0, Ordering::SeqCst);
    a.next_serial_test_only().store(ser0, Ordering::SeqCst);
    a
}

fn dup_check(ctx: &mut Ctx, what: &str, keys: &mut Vec<u64>) {
    keys.sort_unstable();
    for w in keys.windows(2) {
        if w[0] == w[1] {
            ctx.fail("c16-dup-pid", &format!("{} id={} serial={} handed out twice", what, w[0] >> 32, w[0] & 0xffff_ffff));
            return;
        }
    }
}

/// n sequential allocations from (id0, ser0); ties the hash of all results, the final counters and explicit windows
fn seq_run(ctx: &mut Ctx, id0: u32, ser0: u64, cre: u32, n: usize) {
    let a = mk(id0, ser0, cre);
    let mut h = FNV0;
    let mut oks = 0u64;
    let mut last = Res::Err;
    let mut saw_panic = false;
    let mut keys: Vec<u64> = Vec::with_capacity(n);
    // windows: the first results, and the ones around the id wrap
    let wrap_at: Option<usize> = if id0 <= MAXP { Some((MAXP - id0) as usize) } else { None };
    let w0 = (0usize, 6usize.min(n));
    let w1 = match wrap_at {
        Some(w) if w >= 3 && w + 5 <= n => Some((w - 3, 8usize)),
        _ => None,
    };
    let mut win0: Vec<String> = vec![];
    let mut win1: Vec<String> = vec![];
    for i in 0..n {
        let r = call(&a);
        h = r.hash(h);
        match r {
            Res::Ok(id, s, c) => {
                oks += 1;
                keys.push(((id as u64) << 32) | s as u64);
                if c != cre {
                    ctx.fail("c16-creation", &format!("seq id0={} ser0={} i={} creation={} expected={}", id0, ser0, i, c, cre));
                }
            }
            Res::Panic => {
                saw_panic = true;
                ctx.count("seq_panics");
            }
            Res::Err => ctx.count("seq_errs"),
        }
        if i < w0.1 {
            win0.push(r.text());
        }
        if let Some((f, c)) = w1 {
            if i >= f && i < f + c {
                win1.push(r.text());
            }
        }
        last = r;
    }
    let st = format!(
        "{},{},{}",
        a.next_id_test_only().load(Ordering::SeqCst),
        a.next_serial_test_only().load(Ordering::SeqCst),
        if saw_panic { 1 } else { 0 }
    );
    ctx.tie("seq", &format!("c16seq {} {} {} {}", id0, ser0, cre, n), &format!("h={} ok={} last={} st={}", h, oks, last.text(), st));
    if !win0.is_empty() {
        ctx.tie("win", &format!("c16win {} {} {} {} {}", id0, ser0, cre, w0.0, w0.1), &win0.join(","));
    }
    if let Some((f, c)) = w1 {
        ctx.tie("win", &format!("c16win {} {} {} {} {}", id0, ser0, cre, f, c), &win1.join(","));
        ctx.count("seq_id_wraps_windowed");
    }
    dup_check(ctx, &format!("seq id0={} ser0={} n={}", id0, ser0, n), &mut keys);
    ctx.add("seq_allocations", n as u64);
    ctx.count("seq_runs");
}

fn positions(ctx: &mut Ctx) -> Vec<(u32, u64)> {
    let k = |ctx: &mut Ctx| ctx.rng.range(1, 600) as u32;
    let r32 = |ctx: &mut Ctx| ctx.rng.next() & 0xffff_ffff;
    vec![
        (1, 0),
        (MAXP - 1, 0),
        (MAXP, 0),
        (MAXP - k(ctx), 0),
        (1, 0xffff_ffff),
        (MAXP - k(ctx), 0xffff_ffff),
        (MAXP - k(ctx), 0xffff_fffe),
        (MAXP, 0xffff_ffff),
        (MAXP - k(ctx), 0x1_0000_0000 - 1 + (r32(ctx) << 32)), // low word 2^32-1, high word arbitrary
        (MAXP - k(ctx), u64::MAX),                              // `fetch_add(..) + 1` overflows: panic, then poisoned
        (MAXP - k(ctx), u64::MAX - 1),
        (u32::MAX, r32(ctx)),                                    // `id + 1` overflows: panic, then poisoned
        (u32::MAX - 1, r32(ctx)),
        (0, r32(ctx)),
        (MAXP + 1 + k(ctx), r32(ctx)),
        (ctx.rng.range(1, MAXP as u64) as u32, r32(ctx)),
        (ctx.rng.range(1, MAXP as u64) as u32, ctx.rng.next()),
    ]
}

fn seq_part(ctx: &mut Ctx) {
    // total: 10^5 (quick) / 10^7 (thorough) allocations across wraps
    let per = ctx.n(4000, 120_000);
    for (id0, ser0) in positions(ctx) {
        let cre = ctx.rng.range(0, 5) as u32 + if ctx.rng.chance(1, 8) { 0xffff_fff0 } else { 0 };
        seq_run(ctx, id0, ser0, cre, per);
    }
    // one long run from a fresh allocator state crossing several id wraps
    let long = ctx.n(32_000, 8_000_000);
    seq_run(ctx, MAXP - 10_000, 0xffff_fffe, 1, long);
    // short runs at every boundary position
    for (id0, ser0) in positions(ctx) {
        seq_run(ctx, id0, ser0, 3, 12);
    }
}

/// "the serial advances instead of a number being re-issued": the ids handed out at the start of an id epoch and the
/// same ids after the next wrap must differ in their serial. The middle of the epoch (a million allocations) is skipped
/// by moving the id counter with the test accessor, exactly as the position setter does for every other run.
fn epoch_windows(ctx: &mut Ctx) {
    for ser0 in [0u64, 5, 0xffff_fffe, 0xffff_ffff, 0x1_0000_0000, 0x1_0000_0001, 0x2_0000_0005, 0xffff_ffff_0000_0000, u64::MAX - 3] {
        let a = mk(1, ser0, 9);
        let mut keys: Vec<u64> = vec![];
        let mut trace = vec![];
        let mut ok = true;
        for round in 0..3 {
            for _ in 0..6 {
                match call(&a) {
                    Res::Ok(i, s, _) => {
                        keys.push(((i as u64) << 32) | s as u64);
                        trace.push(format!("{}.{}", i, s));
                    }
                    _ => ok = false, // the debug-profile overflow panic near u64::MAX is modelled elsewhere
                }
            }
            if round < 2 {
                // skip to the end of this epoch
                a.next_id_test_only().store(MAXP - 2, Ordering::SeqCst);
                trace.push("|skip-to-end-of-epoch|".into());
            }
        }
        ctx.count("epoch_window_runs");
        if ok {
            let mut k = keys.clone();
            k.sort_unstable();
            if k.windows(2).any(|w| w[0] == w[1]) {
                ctx.fail("c16-dup-pid", &format!("from next_id=1 next_serial={}: {}", ser0, trace.join(" ")));
            }
        }
    }
}

/// sequential mixes of allocate and set_creation
fn ops_part(ctx: &mut Ctx) {
    let rounds = ctx.n(150, 3000);
    for _ in 0..rounds {
        let pos = positions(ctx);
        let (id0, ser0) = *ctx.rng.pick(&pos);
        // keep the start within a few steps of the boundary so that short sequences cross it
        let id0 = if id0 < MAXP && id0 > MAXP - 700 { MAXP - ctx.rng.range(0, 6) as u32 } else { id0 };
        let cre = ctx.rng.range(0, 9) as u32;
        let a = mk(id0, ser0, cre);
        let len = ctx.rng.range(1, 40) as usize;
        let mut ops = vec![];
        let mut out = vec![];
        let mut saw_panic = false;
        let mut cur = cre;
        for _ in 0..len {
            if ctx.rng.chance(1, 4) {
                let c = ctx.rng.range(0, 0xffff_ffff) as u32;
                a.set_creation(c);
                cur = c;
                ops.push(format!("c{}", c));
                ctx.count("ops_set_creation");
            } else {
                let r = call(&a);
                if r == Res::Panic {
                    saw_panic = true;
                }
                if let Res::Ok(_, _, c) = r {
                    if c != cur {
                        ctx.fail("c16-creation", &format!("ops id0={} ser0={} ops={} creation={} in-force={}", id0, ser0, ops.join(","), c, cur));
                    }
                }
                out.push(r.text());
                ops.push("a".to_string());
                ctx.count("ops_allocate");
            }
        }
        let st = format!(
            "{},{},{}",
            a.next_id_test_only().load(Ordering::SeqCst),
            a.next_serial_test_only().load(Ordering::SeqCst),
            if saw_panic { 1 } else { 0 }
        );
        let cre_now: u32 = a.creation().into();
        ctx.tie(
            "ops",
            &format!("c16ops {} {} {} {}", id0, ser0, cre, ops.join(",")),
            &format!("{} st={} cre={}", out.join(","), st, cre_now),
        );
    }
}

/// real OS threads; every thread's observed results go to the driver for trace validation
fn thread_part(ctx: &mut Ctx) {
    let rounds = ctx.n(48, 600);
    for round in 0..rounds {
        let nthreads = ctx.rng.range(2, 4) as usize;
        let pos = positions(ctx);
        let (mut id0, ser0) = pos[round % pos.len()];
        let max_per = if ctx.rng.chance(1, 3) { 12 } else { 300 };
        let counts: Vec<usize> = (0..nthreads).map(|_| ctx.rng.range(1, max_per) as usize).collect();
        let total: usize = counts.iter().sum();
        // place the id wrap inside the run for the near-wrap positions
        if id0 < MAXP && id0 > MAXP - 700 {
            id0 = MAXP - ctx.rng.range(0, total as u64) as u32;
        }
        let cre = ctx.rng.range(0, 9) as u32;
        let setcs: Vec<u32> = if ctx.rng.chance(1, 3) {
            let m = ctx.rng.range(1, 6);
            (0..m).map(|i| 1000 + i as u32).collect()
        } else {
            vec![]
        };
        let spin: Vec<u64> = (0..nthreads + 1).map(|_| ctx.rng.range(0, 200)).collect();
        let a = Arc::new(mk(id0, ser0, cre));
        let progress = Arc::new(std::sync::atomic::AtomicUsize::new(0));
        let barrier = Arc::new(Barrier::new(nthreads + 1));
        let mut handles = vec![];
        for t in 0..nthreads {
            let a = a.clone();
            let b = barrier.clone();
            let n = counts[t];
            let sp = spin[t];
            let pr = progress.clone();
            handles.push(std::thread::spawn(move || {
                b.wait();
                let mut v = Vec::with_capacity(n);
                for i in 0..n {
                    v.push(call(&a));
                    pr.fetch_add(1, Ordering::SeqCst);
                    if sp > 0 && (i as u64) % (sp + 1) == 0 {
                        std::thread::yield_now();
                    }
                }
                v
            }));
        }
        let setter = {
            let a = a.clone();
            let b = barrier.clone();
            let vals = setcs.clone();
            let sp = spin[nthreads];
            let pr = progress.clone();
            std::thread::spawn(move || {
                b.wait();
                let m = vals.len();
                for (j, c) in vals.into_iter().enumerate() {
                    // store the j-th value once about (j+1)/(m+1) of the allocations have been made
                    let threshold = total * (j + 1) / (m + 1);
                    while pr.load(Ordering::SeqCst) < threshold {
                        std::thread::yield_now();
                    }
                    for _ in 0..sp {
                        std::hint::spin_loop();
                    }
                    a.set_creation(c);
                }
            })
        };
        let per: Vec<Vec<Res>> = handles.into_iter().map(|h| h.join().unwrap()).collect();
        setter.join().unwrap();
        let lists: Vec<String> = per.iter().map(|v| v.iter().map(|r| r.text()).collect::<Vec<_>>().join(",")).collect();
        let lists = lists.join(";");
        let setcs_s = if setcs.is_empty() { "-".to_string() } else { setcs.iter().map(|c| c.to_string()).collect::<Vec<_>>().join(",") };
        let saw_panic = per.iter().flatten().any(|r| *r == Res::Panic);
        let st = format!(
            "{},{},{}",
            a.next_id_test_only().load(Ordering::SeqCst),
            a.next_serial_test_only().load(Ordering::SeqCst),
            if saw_panic { 1 } else { 0 }
        );
        let cre_now: u32 = a.creation().into();
        // model-vs-code: the model has a schedule that yields exactly these per-thread observations and this final state
        ctx.tie(
            "thr",
            &format!("c16thr {} {} {} {} {}", id0, ser0, cre, setcs_s, lists),
            &format!("admitted n={} st={} cre={}", total, st, cre_now),
        );
        // the property on the implementation's output, through the Lean oracle and directly
        ctx.prop("gen", &format!("c16uniq {} {} {}", cre, setcs_s, lists), "ok");
        let mut keys: Vec<u64> = per
            .iter()
            .flatten()
            .filter_map(|r| if let Res::Ok(i, s, _) = r { Some(((*i as u64) << 32) | *s as u64) } else { None })
            .collect();
        if !saw_panic && keys.len() == total {
            window_check(ctx, &format!("threads id0={} ser0={} counts={:?}", id0, ser0, counts), id0, ser0, &keys);
        }
        dup_check(ctx, &format!("threads id0={} ser0={} counts={:?}", id0, ser0, counts), &mut keys);
        // per-thread: the creation values a thread sees never go back in the order they were stored
        for v in &per {
            let mut idx = 0usize;
            for r in v {
                if let Res::Ok(_, _, c) = r {
                    let all: Vec<u32> = std::iter::once(cre).chain(setcs.iter().copied()).collect();
                    match all.iter().position(|x| x == c) {
                        Some(p) if p >= idx => idx = p,
                        _ => ctx.fail("c16-creation", &format!("threads id0={} ser0={} creation {} after index {}", id0, ser0, c, idx)),
                    }
                }
            }
        }
        ctx.add("thread_allocations", total as u64);
        ctx.count(&format!("thread_rounds_{}threads", nthreads));
        if !setcs.is_empty() {
            ctx.count("thread_rounds_with_set_creation");
        }
        if saw_panic {
            ctx.count("thread_rounds_with_panic");
        }
        ctx.count("traces_validated");
    }
}

fn ref_text(r: &erltf::types::ExternalReference) -> String {
    let w = |i: usize| r.ids.get(i).copied().map(|x| x.to_string()).unwrap_or_else(|| "x".to_string());
    format!("{}:{}:{}:{}{}", r.creation, w(0), w(1), w(2), if r.ids.len() == 3 { "" } else { ":extra" })
}

fn ref_part(ctx: &mut Ctx) {
    // sequential: a fresh node's counter starts at 0, its creation at 1 (no accessor exists to move the counter)
    let n = ctx.n(30_000, 3_000_000);
    let node = edp_node::Node::new("c16@localhost", "cookie");
    let mut h = FNV0;
    let mut last = String::new();
    let mut firsts: Vec<u32> = Vec::with_capacity(n);
    for _ in 0..n {
        let r = node.make_reference();
        h = mix(mix(mix(mix(h, r.creation as u64), r.ids[0] as u64), r.ids[1] as u64), r.ids[2] as u64);
        firsts.push(r.ids[0]);
        last = ref_text(&r);
    }
    ctx.tie("refseq", &format!("c16refseq 0 1 {}", n), &format!("h={} last={}", h, last));
    firsts.sort_unstable();
    if firsts.windows(2).any(|w| w[0] == w[1]) {
        ctx.fail("c16-dup-ref", &format!("sequential n={} first word repeated", n));
    }
    ctx.add("ref_seq_calls", n as u64);
    // the small-step model itself on a short sequential run
    let node = edp_node::Node::new("c16@localhost", "cookie");
    let k = 25;
    let rs: Vec<String> = (0..k).map(|_| ref_text(&node.make_reference())).collect();
    ctx.tie("refrun", &format!("c16refrun 0 1 {}", k), &rs.join(","));
    // threads
    let rounds = ctx.n(40, 500);
    for _ in 0..rounds {
        let nthreads = ctx.rng.range(2, 4) as usize;
        let max_per = if ctx.rng.chance(1, 3) { 8 } else { 120 };
        let counts: Vec<usize> = (0..nthreads).map(|_| ctx.rng.range(1, max_per) as usize).collect();
        let total: usize = counts.iter().sum();
        let spin: Vec<u64> = (0..nthreads).map(|_| ctx.rng.range(0, 50)).collect();
        let node = edp_node::Node::new("c16@localhost", "cookie");
        let barrier = Barrier::new(nthreads);
        let per: Vec<Vec<String>> = std::thread::scope(|s| {
            let hs: Vec<_> = (0..nthreads)
                .map(|t| {
                    let node = &node;
                    let b = &barrier;
                    let n = counts[t];
                    let sp = spin[t];
                    s.spawn(move || {
                        b.wait();
                        let mut v = Vec::with_capacity(n);
                        for i in 0..n {
                            v.push(ref_text(&node.make_reference()));
                            if sp > 0 && (i as u64) % (sp + 1) == 0 {
                                std::thread::yield_now();
                            }
                        }
                        v
                    })
                })
                .collect();
            hs.into_iter().map(|h| h.join().unwrap()).collect()
        });
        let lists = per.iter().map(|v| v.join(",")).collect::<Vec<_>>().join(";");
        ctx.tie("refthr", &format!("c16refthr 0 1 {}", lists), &format!("admitted n={} counter={}", total, 3 * total));
        ctx.prop("gen", &format!("c16refuniq 1 {}", lists), "ok");
        let mut all: Vec<&String> = per.iter().flatten().collect();
        all.sort();
        if all.windows(2).any(|w| w[0] == w[1]) {
            ctx.fail("c16-dup-ref", &format!("threads counts={:?} reference handed out twice", counts));
        }
        ctx.add("ref_thread_calls", total as u64);
        ctx.count("traces_validated");
        ctx.count(&format!("ref_thread_rounds_{}threads", nthreads));
    }
}

/// references made before and after `Node::start` (which adopts the creation EPMD assigns): all pairwise distinct as
/// (creation, words), each carrying the creation in force when it was made. The placeholder creation of a node that has not
/// started is 1, and an EPMD may well assign 1: then only the words tell the references apart.
fn ref_start_part(ctx: &mut Ctx) {
    let rt = tokio::runtime::Builder::new_current_thread().enable_all().build().unwrap();
    rt.block_on(async {
        let epmd = crate::peer::FakeEpmd::start().await;
        for (case, creation) in [1u32, 1, 7, 2, u32::MAX, 1].into_iter().enumerate() {
            // the stand-in hands out its counter + 1
            *epmd.creation.lock().unwrap() = creation - 1;
            let before = if case == 1 { 0 } else { 1 + ctx.rng.below(5) as usize };
            let after = 1 + ctx.rng.below(6) as usize;
            let mut node = edp_node::Node::new(format!("c16s{}@127.0.0.1", case), "cookie");
            let mut made: Vec<(String, u32)> = vec![];
            for _ in 0..before {
                made.push((ref_text(&node.make_reference()), 1));
            }
            if let Err(e) = node.start(0).await {
                ctx.fail("c16-start", &format!("Node::start against the scripted EPMD failed: {}", e));
                continue;
            }
            for _ in 0..after {
                made.push((ref_text(&node.make_reference()), creation));
            }
            ctx.count("ref_across_start_cases");
            ctx.add("ref_across_start_calls", made.len() as u64);
            let texts: Vec<&String> = made.iter().map(|m| &m.0).collect();
            for (i, (t, want)) in made.iter().enumerate() {
                let got: u32 = t.split(':').next().unwrap().parse().unwrap();
                if got != *want {
                    ctx.fail("c16-ref-creation", &format!("reference #{} {} made {} start (EPMD creation {}) carries creation {} instead of {}", i, t, if i < before { "before" } else { "after" }, creation, got, want));
                }
                if texts[..i].contains(&t) {
                    ctx.fail("c16-dup-ref", &format!("EPMD creation {}: {} references before start, {} after: reference #{} {} was handed out before: {:?}", creation, before, after, i, t, texts));
                }
            }
            let join = |v: &[&String]| v.iter().map(|s| s.as_str()).collect::<Vec<_>>().join(",");
            if creation == 1 {
                ctx.prop("gen", &format!("c16refuniq 1 {}", join(&texts)), "ok");
            } else {
                if before > 0 {
                    ctx.prop("gen", &format!("c16refuniq 1 {}", join(&texts[..before])), "ok");
                }
                ctx.prop("gen", &format!("c16refuniq {} {}", creation, join(&texts[before..])), "ok");
            }
        }
    });
}

struct Nop;
impl edp_node::Process for Nop {
    async fn handle_message(&mut self, _msg: edp_node::Message) -> edp_node::Result<()> {
        Ok(())
    }
}

/// Histories of `Node` calls that make identifiers or change the creation — `make_reference`, `spawn`, the `allocate()`
/// of an rpc call (op `a`: on a node connected to the scripted peer BEFORE `start`, so that pids handed out before `start`
/// are seen — the peer reads the REG_SEND's sender pid), `start` (EPMD assigning 1, 2, 7, u32::MAX or a random creation;
/// a second `start`; a `start` that fails after the node marked itself started) — against the node-level model
/// (`c16node`), and judged by an independent fold over the history (`c16nodecre`): every pid and reference carries the
/// creation in force when it was made, and all identifiers of a history are pairwise distinct as (id, serial, creation)
/// / (creation, words) — in particular pids made before and after a `start` that assigns creation 1.
fn node_part(ctx: &mut Ctx) {
    use std::time::Duration;
    let rt = tokio::runtime::Builder::new_current_thread().enable_all().build().unwrap();
    rt.block_on(async {
        let epmd = crate::peer::FakeEpmd::start().await;
        let cases = ctx.n(18, 120);
        for case in 0..cases {
            let bad_name = case % 5 == 4;
            let connected = !bad_name && case % 3 == 0;
            let name = if bad_name { format!("n16x{}", case) } else { format!("n16x{}@127.0.0.1", case) };
            let mut node = edp_node::Node::new(name, "cookie");
            let peer_name = format!("x16p{}@127.0.0.1", case);
            let mut peer_conn = None;
            if connected {
                let listener = crate::peer::listen_as(&epmd, &format!("x16p{}", case)).await;
                let pcfg = crate::peer::PeerCfg::new(&peer_name, "cookie");
                let peer = tokio::spawn(async move { crate::peer::accept_and_handshake(&listener, &pcfg).await });
                if node.connect(peer_name.clone()).await.is_err() {
                    ctx.count("node_connect_failed");
                    continue;
                }
                match tokio::time::timeout(Duration::from_secs(5), peer).await {
                    Ok(Ok(Some(pc))) if pc.hs.completed => peer_conn = Some(pc),
                    _ => {
                        ctx.count("node_connect_failed");
                        continue;
                    }
                }
            }
            let len = if connected { 6 + ctx.rng.below(5) as usize } else { 3 + ctx.rng.below(9) as usize };
            let (mut ops, mut outs): (Vec<String>, Vec<String>) = (vec![], vec![]);
            let (mut in_force, mut started) = (1u32, false);
            let mut pids_seen: Vec<String> = vec![];
            for k in 0..len {
                let pick = if connected && (k == 0 || k == 1) { 4 }
                    else if connected && k == 2 { 5 }
                    else if k == 1 && case % 2 == 0 { 5 }
                    else { ctx.rng.below(7) };
                match pick {
                    0 | 1 => {
                        let r = node.make_reference();
                        if r.creation != in_force {
                            ctx.fail("c16-node-creation", &format!("history {} then make_reference: reference {} carries creation {} but {} is in force", ops.join(","), ref_text(&r), r.creation, in_force));
                        }
                        ops.push("r".into());
                        outs.push(format!("R{}", ref_text(&r)));
                        ctx.count("node_make_reference");
                    }
                    4 if connected => {
                        // the allocate() of an rpc call; nobody answers, the call times out; the peer saw the sender pid
                        let before = ops.join(",");
                        ops.push("a".into());
                        let _ = node.rpc_call_raw_with_timeout(&peer_name, "m", "f", vec![], Duration::from_millis(25)).await;
                        let pc = peer_conn.as_mut().unwrap();
                        let mut seen = None;
                        for _ in 0..4 {
                            match pc.recv_frame(Duration::from_millis(1500)).await {
                                Some(f) if f.len() > 1 && f[0] == 112 => {
                                    if let Ok((erltf::OwnedTerm::Tuple(items), _)) = erltf::decoder::decode_with_trailing(&f[1..]) {
                                        if let Some(erltf::OwnedTerm::Pid(p)) = items.get(1) {
                                            seen = Some(p.clone());
                                        }
                                    }
                                    break;
                                }
                                Some(_) => continue, // a tick
                                None => break,
                            }
                        }
                        match seen {
                            Some(p) => {
                                let t = format!("P{}.{}.{}", p.id, p.serial, p.creation);
                                if p.creation != in_force {
                                    ctx.fail("c16-node-creation", &format!("history {} then an rpc call: its pid {} carries creation {} but {} is in force", before, t, p.creation, in_force));
                                }
                                if pids_seen.contains(&t) {
                                    ctx.fail("c16-dup-pid", &format!("history {}: the pid {} of an rpc call was handed out before: {:?}", ops.join(","), t, pids_seen));
                                }
                                pids_seen.push(t.clone());
                                outs.push(t);
                                ctx.count(if started { "node_rpc_pid_after_start" } else { "node_rpc_pid_before_start" });
                            }
                            None => {
                                outs.push("unseen".into());
                                ctx.count("node_rpc_pid_unseen");
                            }
                        }
                    }
                    2 | 3 | 4 => {
                        let before = ops.join(",");
                        ops.push("p".into());
                        match node.spawn(Nop).await {
                            Ok(p) => {
                                let t = format!("P{}.{}.{}", p.id, p.serial, p.creation);
                                if p.creation != in_force {
                                    ctx.fail("c16-node-creation", &format!("history {} then spawn: pid {} carries creation {} but {} is in force", before, t, p.creation, in_force));
                                }
                                if pids_seen.contains(&t) {
                                    ctx.fail("c16-dup-pid", &format!("history {}: spawn returned {} which was handed out before: {:?}", ops.join(","), t, pids_seen));
                                }
                                pids_seen.push(t.clone());
                                outs.push(t);
                                ctx.count("node_spawn_ok");
                            }
                            Err(_) => {
                                outs.push("refused".into());
                                ctx.count("node_spawn_refused");
                            }
                        }
                    }
                    _ => {
                        let c = if connected { [1u32, 2, 7][case / 3 % 3] } else {
                            match ctx.rng.below(6) { 0 => 1, 1 => 2, 2 => 7, 3 => u32::MAX, _ => 1 + (ctx.rng.next() as u32 % 0xffff_fff0) } };
                        *epmd.creation.lock().unwrap() = c - 1;
                        ops.push(if bad_name { "S!".to_string() } else { format!("S{}", c) });
                        match node.start(0).await {
                            Ok(()) => {
                                outs.push("ok".into());
                                if !started {
                                    in_force = c;
                                }
                                ctx.count("node_start_ok");
                                if c == 1 {
                                    ctx.count("node_start_creation_1");
                                }
                            }
                            Err(_) => {
                                outs.push("refused".into());
                                ctx.count(if started { "node_start_again_refused" } else { "node_start_failed" });
                            }
                        }
                        started = true;
                    }
                }
            }
            if outs.iter().any(|o| o == "unseen") {
                continue; // the peer did not see a frame in time: nothing to compare (counted)
            }
            ctx.count(if connected { "node_histories_connected" } else { "node_histories" });
            ctx.tie("node", &format!("c16node {}", ops.join(",")), &outs.join(","));
            ctx.prop("gen", &format!("c16nodecre {} {}", ops.join(","), outs.join(",")), "ok");
        }
    });
}

pub fn run(ctx: &mut Ctx) {
    let t0 = std::time::Instant::now();
    let mut lap = |what: &str| {
        if std::env::var_os("VERIF_TIMING").is_some() {
            eprintln!("c16 {:>14} done at {:?}", what, t0.elapsed());
        }
    };
    seq_part(ctx);
    lap("seq");
    epoch_windows(ctx);
    lap("epoch_windows");
    ops_part(ctx);
    lap("ops");
    thread_part(ctx);
    lap("thread");
    ref_part(ctx);
    lap("ref");
    ref_start_part(ctx);
    lap("ref_start");
    node_part(ctx);
    lap("node");
    crate::c16_sched::run(ctx);
    lap("sched");
}
