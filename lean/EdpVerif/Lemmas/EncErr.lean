import EdpVerif.Impl.Encode
/-! Exactly when the encoder reports an error, and which one (C01). -/
namespace Edp

/-! Which size limit a term exceeds: `over e t` says that `t` contains a node that exceeds the limit named by `e`
(identifiers that carry preserved LOCAL_EXT bytes are written verbatim, so their fields are not inspected). -/

def atomOver (e : EncErr) (a : Bytes) : Bool := decide (e = .atomTooLarge) && decide (a.length > 65535)
def pidOver (e : EncErr) (p : PidF) : Bool := p.loc.isNone && atomOver e p.node

mutual
def over (e : EncErr) : Term → Bool
  | .atom a => atomOver e a
  | .bin b => decide (e = .binaryTooLarge) && decide (b.length > 4294967295)
  | .str b => decide (e = .binaryTooLarge) && decide (b.length > 4294967295)
  | .bits b _ => decide (e = .binaryTooLarge) && decide (b.length > 4294967295)
  | .list l => (decide (e = .listTooLarge) && decide (l.length > 4294967295)) || overL e l
  | .ilist l t => (decide (e = .listTooLarge) && decide (l.length > 4294967295)) || overL e l || over e t
  | .map kvs => (decide (e = .mapTooLarge) && decide (kvs.length > 4294967295)) || overKV e kvs
  | .tuple l => (decide (e = .tupleTooLarge) && decide (l.length > 4294967295)) || overL e l
  | .pid p => pidOver e p
  | .port n _ _ l => l.isNone && atomOver e n
  | .ref n _ ids l => l.isNone && ((decide (e = .refTooLarge) && decide (ids.length > 65535)) || atomOver e n)
  | .xfun m f _ => atomOver e m || atomOver e f
  | .ifun _ _ _ _ m _ _ p fr => atomOver e m || pidOver e p || overL e fr
  | _ => false
def overL (e : EncErr) : List Term → Bool
  | [] => false
  | t :: ts => over e t || overL e ts
def overKV (e : EncErr) : List (Term × Term) → Bool
  | [] => false
  | (k, v) :: r => over e k || over e v || overKV e r
end

theorem encAtom_err (cache : List Bytes) (a : Bytes) (e : EncErr) (h : encAtom cache a = .error e) : atomOver e a = true := by
  unfold encAtom at h
  split at h
  · simp at h
  · split at h
    · rename_i hl; simp at h; subst h; simpa [atomOver, u16max] using hl
    · split at h <;> simp at h

theorem encPid_err (cache : List Bytes) (p : PidF) (e : EncErr) (h : encPid cache p = .error e) : pidOver e p = true := by
  unfold encPid at h
  split at h
  · simp at h
  · rename_i hl
    cases ha : encAtom cache p.node with
    | ok ab => simp [ha] at h
    | error e' => simp [ha] at h; subst h; simp [pidOver, hl, encAtom_err cache _ _ ha]

mutual
theorem enc_err (cache : List Bytes) (t : Term) (e : EncErr) (h : enc cache t = .error e) : over e t = true := by
  match t with
  | .atom a => simp only [enc] at h; simpa [over] using encAtom_err cache a e h
  | .int i => simp [enc] at h
  | .float b => simp [enc] at h
  | .bin b => simp only [enc, encBinary] at h; split at h <;> simp at h; subst h; rename_i hl; simpa [over, u32max] using hl
  | .str b => simp only [enc, encBinary] at h; split at h <;> simp at h; subst h; rename_i hl; simpa [over, u32max] using hl
  | .bits b n => simp only [enc, encBits] at h; split at h <;> simp at h; subst h; rename_i hl; simpa [over, u32max] using hl
  | .big neg dg => simp [enc] at h
  | .nil => simp [enc] at h
  | .pid p => simp only [enc] at h; simpa [over] using encPid_err cache p e h
  | .port n i c l =>
    simp only [enc, encPort] at h
    split at h
    · simp at h
    · cases ha : encAtom cache n with
      | ok ab => simp [ha] at h
      | error e' => simp [ha] at h; subst h; simp [over, encAtom_err cache _ _ ha]
  | .ref n c ids l =>
    simp only [enc, encRef] at h
    split at h
    · simp at h
    · split at h
      · rename_i hl; simp at h; subst h; simp [over]; left; simpa [u16max] using hl
      · cases ha : encAtom cache n with
        | ok ab => simp [ha] at h
        | error e' => simp [ha] at h; subst h; simp [over, encAtom_err cache _ _ ha]
  | .xfun m fn a =>
    simp only [enc] at h
    cases hma : encAtom cache m with
    | error e' => simp [hma] at h; subst h; simp [over, encAtom_err cache _ _ hma]
    | ok mb =>
      cases hfa : encAtom cache fn with
      | error e' => simp [hma, hfa] at h; subst h; simp [over, encAtom_err cache _ _ hfa]
      | ok fb => simp [hma, hfa] at h
  | .tuple l =>
    simp only [enc] at h
    cases hl : encL cache l with
    | ok lb => simp only [hl] at h; (repeat' split at h) <;> simp at h; subst h; rename_i h1 h2; simp [over]; left; simpa [u32max] using h2
    | error e' =>
      have ih := encL_err cache l e' hl
      simp only [hl] at h; (repeat' split at h) <;> simp at h <;> subst h <;> simp [over, ih]
      rename_i h1 h2; left; simpa [u32max] using h2
  | .list l =>
    simp only [enc] at h
    cases hl : encL cache l with
    | ok lb => simp only [hl] at h; (repeat' split at h) <;> simp at h; subst h; rename_i h1 h2; simp [over]; left; simpa [u32max] using h2
    | error e' =>
      have ih := encL_err cache l e' hl
      simp only [hl] at h; (repeat' split at h) <;> simp at h <;> subst h <;> simp [over, ih]
      rename_i h1 h2; left; simpa [u32max] using h2
  | .ilist l tl =>
    simp only [enc] at h
    split at h
    · rename_i h2; simp at h; subst h; simp [over]; left; left; simpa [u32max] using h2
    · cases hl : encL cache l with
      | error e' => have ih := encL_err cache l e' hl; simp [hl] at h; subst h; simp [over, ih]
      | ok lb =>
        cases ht : enc cache tl with
        | error e' => have ih := enc_err cache tl e' ht; simp [hl, ht] at h; subst h; simp [over, ih]
        | ok tb => simp [hl, ht] at h
  | .map kvs =>
    simp only [enc] at h
    split at h
    · rename_i h2; simp at h; subst h; simp [over]; left; simpa [u32max] using h2
    · cases hl : encKV cache kvs with
      | error e' => have ih := encKV_err cache kvs e' hl; simp [hl] at h; subst h; simp [over, ih]
      | ok lb => simp [hl] at h
  | .ifun a u i nf m oi ou p fr =>
    simp only [enc] at h
    cases hma : encAtom cache m with
    | error e' => simp [hma] at h; subst h; simp [over, encAtom_err cache _ _ hma]
    | ok mb =>
      cases hpa : encPid cache p with
      | error e' => simp [hma, hpa] at h; subst h; simp [over, encPid_err cache _ _ hpa]
      | ok pb =>
        cases hfa : encL cache fr with
        | error e' => have ih := encL_err cache fr e' hfa; simp [hma, hpa, hfa] at h; subst h; simp [over, ih]
        | ok fb => simp [hma, hpa, hfa] at h
termination_by sizeOf t
decreasing_by all_goals (simp_wf; try omega)
theorem encL_err (cache : List Bytes) (l : List Term) (e : EncErr) (h : encL cache l = .error e) : overL e l = true := by
  match l with
  | [] => simp [encL] at h
  | t :: ts =>
    simp only [encL] at h
    cases h1 : enc cache t with
    | error e' => have ih := enc_err cache t e' h1; simp [h1] at h; subst h; simp [overL, ih]
    | ok a =>
      cases h2 : encL cache ts with
      | error e' => have ih := encL_err cache ts e' h2; simp [h1, h2] at h; subst h; simp [overL, ih]
      | ok b => simp [h1, h2] at h
termination_by sizeOf l
decreasing_by all_goals (simp_wf; try omega)
theorem encKV_err (cache : List Bytes) (kvs : List (Term × Term)) (e : EncErr) (h : encKV cache kvs = .error e) :
    overKV e kvs = true := by
  match kvs with
  | [] => simp [encKV] at h
  | (k, v) :: ts =>
    simp only [encKV] at h
    cases h1 : enc cache k with
    | error e' => have ih := enc_err cache k e' h1; simp [h1] at h; subst h; simp [overKV, ih]
    | ok a =>
      cases h2 : enc cache v with
      | error e' => have ih := enc_err cache v e' h2; simp [h1, h2] at h; subst h; simp [overKV, ih]
      | ok b =>
        cases h3 : encKV cache ts with
        | error e' => have ih := encKV_err cache ts e' h3; simp [h1, h2, h3] at h; subst h; simp [overKV, ih]
        | ok c => simp [h1, h2, h3] at h
termination_by sizeOf kvs
decreasing_by all_goals (simp_wf; try omega)
end


/-! ### conversely: a term that exceeds a limit is refused (without an atom cache) -/

theorem encAtom_over (a bs : Bytes) (e : EncErr) (ho : atomOver e a = true) : encAtom [] a ≠ .ok bs := by
  simp only [atomOver, Bool.and_eq_true, decide_eq_true_eq] at ho
  have : a.length > u16max := by simp [u16max]; omega
  simp [encAtom, indexOf?, this]

theorem encPid_over (p : PidF) (bs : Bytes) (e : EncErr) (ho : pidOver e p = true) : encPid [] p ≠ .ok bs := by
  simp only [pidOver, Bool.and_eq_true, Option.isNone_iff_eq_none] at ho
  intro h
  simp only [encPid, ho.1] at h
  cases ha : encAtom [] p.node with
  | error e' => simp [ha] at h
  | ok ab => exact encAtom_over _ _ _ ho.2 ha

mutual
theorem enc_over (t : Term) (e : EncErr) (bs : Bytes) (ho : over e t = true) : enc [] t ≠ .ok bs := by
  intro h
  match t with
  | .atom a => simp only [enc] at h; simp only [over] at ho; exact encAtom_over _ _ _ ho h
  | .int i => simp [over] at ho
  | .float b => simp [over] at ho
  | .bin b => simp only [over, Bool.and_eq_true, decide_eq_true_eq] at ho; have : b.length > u32max := by simp [u32max]; omega
              simp [enc, encBinary, this] at h
  | .str b => simp only [over, Bool.and_eq_true, decide_eq_true_eq] at ho; have : b.length > u32max := by simp [u32max]; omega
              simp [enc, encBinary, this] at h
  | .bits b n => simp only [over, Bool.and_eq_true, decide_eq_true_eq] at ho; have : b.length > u32max := by simp [u32max]; omega
                 simp [enc, encBits, this] at h
  | .big neg dg => simp [over] at ho
  | .nil => simp [over] at ho
  | .pid p => simp only [enc] at h; simp only [over] at ho; exact encPid_over _ _ _ ho h
  | .port n i c l =>
    simp only [over, Bool.and_eq_true, Option.isNone_iff_eq_none] at ho
    simp only [enc, encPort, ho.1] at h
    cases ha : encAtom [] n with
    | error e' => simp [ha] at h
    | ok ab => exact encAtom_over _ _ _ ho.2 ha
  | .ref n c ids l =>
    simp only [over, Bool.and_eq_true, Option.isNone_iff_eq_none, Bool.or_eq_true, decide_eq_true_eq] at ho
    simp only [enc, encRef, ho.1] at h
    split at h
    · simp at h
    · rename_i hl
      cases ha : encAtom [] n with
      | error e' => simp [ha] at h
      | ok ab =>
        rcases ho.2 with h1 | h1
        · simp [u16max] at hl; omega
        · exact encAtom_over _ _ _ h1 ha
  | .xfun m fn a =>
    simp only [over, Bool.or_eq_true] at ho
    simp only [enc] at h
    cases hma : encAtom [] m with
    | error e' => simp [hma] at h
    | ok mb =>
      cases hfa : encAtom [] fn with
      | error e' => simp [hma, hfa] at h
      | ok fb =>
        rcases ho with h1 | h1
        · exact encAtom_over _ _ _ h1 hma
        · exact encAtom_over _ _ _ h1 hfa
  | .tuple l =>
    simp only [over, Bool.or_eq_true, Bool.and_eq_true, decide_eq_true_eq] at ho
    simp only [enc] at h
    cases hl : encL [] l with
    | error e' => simp only [hl] at h; (repeat' split at h) <;> simp at h
    | ok lb =>
      rcases ho with h1 | h1
      · have h2 : ¬ l.length ≤ 255 := by omega
        have h3 : l.length > u32max := by simp [u32max]; omega
        simp [h2, h3] at h
      · exact encL_over l e lb h1 hl
  | .list l =>
    simp only [over, Bool.or_eq_true, Bool.and_eq_true, decide_eq_true_eq] at ho
    simp only [enc] at h
    cases hl : encL [] l with
    | error e' =>
      cases l with
      | nil => simp [encL] at hl
      | cons a l' => simp only [hl, List.isEmpty_cons, Bool.false_eq_true, ↓reduceIte] at h; (repeat' split at h) <;> simp at h
    | ok lb =>
      rcases ho with h1 | h1
      · have h2 : l.isEmpty = false := by cases l with | nil => simp at h1 | cons a l' => simp
        have h3 : l.length > u32max := by simp [u32max]; omega
        simp [h2, h3] at h
      · exact encL_over l e lb h1 hl
  | .ilist l tl =>
    simp only [over, Bool.or_eq_true, Bool.and_eq_true, decide_eq_true_eq] at ho
    simp only [enc] at h
    split at h
    · simp at h
    · rename_i hlen
      cases hl : encL [] l with
      | error e' => simp [hl] at h
      | ok lb =>
        cases ht : enc [] tl with
        | error e' => simp [hl, ht] at h
        | ok tb =>
          rcases ho with (h1 | h1) | h1
          · simp [u32max] at hlen; omega
          · exact encL_over l e lb h1 hl
          · exact enc_over tl e tb h1 ht
  | .map kvs =>
    simp only [over, Bool.or_eq_true, Bool.and_eq_true, decide_eq_true_eq] at ho
    simp only [enc] at h
    split at h
    · simp at h
    · rename_i hlen
      cases hl : encKV [] kvs with
      | error e' => simp [hl] at h
      | ok lb =>
        rcases ho with h1 | h1
        · simp [u32max] at hlen; omega
        · exact encKV_over kvs e lb h1 hl
  | .ifun a u i nf m oi ou p fr =>
    simp only [over, Bool.or_eq_true] at ho
    simp only [enc] at h
    cases hma : encAtom [] m with
    | error e' => simp [hma] at h
    | ok mb =>
      cases hpa : encPid [] p with
      | error e' => simp [hma, hpa] at h
      | ok pb =>
        cases hfa : encL [] fr with
        | error e' => simp [hma, hpa, hfa] at h
        | ok fb =>
          rcases ho with (h1 | h1) | h1
          · exact encAtom_over _ _ _ h1 hma
          · exact encPid_over _ _ _ h1 hpa
          · exact encL_over fr e fb h1 hfa
termination_by sizeOf t
decreasing_by all_goals (simp_wf; try omega)
theorem encL_over (l : List Term) (e : EncErr) (bs : Bytes) (ho : overL e l = true) : encL [] l ≠ .ok bs := by
  intro h
  match l with
  | [] => simp [overL] at ho
  | t :: ts =>
    simp only [overL, Bool.or_eq_true] at ho
    simp only [encL] at h
    cases h1 : enc [] t with
    | error e' => simp [h1] at h
    | ok a =>
      cases h2 : encL [] ts with
      | error e' => simp [h1, h2] at h
      | ok b =>
        rcases ho with h3 | h3
        · exact enc_over t e a h3 h1
        · exact encL_over ts e b h3 h2
termination_by sizeOf l
decreasing_by all_goals (simp_wf; try omega)
theorem encKV_over (kvs : List (Term × Term)) (e : EncErr) (bs : Bytes) (ho : overKV e kvs = true) : encKV [] kvs ≠ .ok bs := by
  intro h
  match kvs with
  | [] => simp [overKV] at ho
  | (k, v) :: ts =>
    simp only [overKV, Bool.or_eq_true] at ho
    simp only [encKV] at h
    cases h1 : enc [] k with
    | error e' => simp [h1] at h
    | ok a =>
      cases h2 : enc [] v with
      | error e' => simp [h1, h2] at h
      | ok b =>
        cases h3 : encKV [] ts with
        | error e' => simp [h1, h2, h3] at h
        | ok c =>
          rcases ho with (h4 | h4) | h4
          · exact enc_over k e a h4 h1
          · exact enc_over v e b h4 h2
          · exact encKV_over ts e c h4 h3
termination_by sizeOf kvs
decreasing_by all_goals (simp_wf; try omega)
end


mutual
theorem over_tooManyAtoms (t : Term) : over .tooManyAtoms t = false := by
  match t with
  | .atom a => simp [over, atomOver]
  | .int i => simp [over]
  | .float b => simp [over]
  | .bin b => simp [over]
  | .str b => simp [over]
  | .bits b n => simp [over]
  | .big neg dg => simp [over]
  | .nil => simp [over]
  | .pid p => simp [over, pidOver, atomOver]
  | .port n i c l => simp [over, atomOver]
  | .ref n c ids l => simp [over, atomOver]
  | .xfun m fn a => simp [over, atomOver]
  | .tuple l => simp [over, overL_tooManyAtoms l]
  | .list l => simp [over, overL_tooManyAtoms l]
  | .ilist l tl => simp [over, overL_tooManyAtoms l, over_tooManyAtoms tl]
  | .map kvs => simp [over, overKV_tooManyAtoms kvs]
  | .ifun a u i nf m oi ou p fr => simp [over, pidOver, atomOver, overL_tooManyAtoms fr]
termination_by sizeOf t
decreasing_by all_goals (simp_wf; try omega)
theorem overL_tooManyAtoms (l : List Term) : overL .tooManyAtoms l = false := by
  match l with
  | [] => simp [overL]
  | t :: ts => simp [overL, over_tooManyAtoms t, overL_tooManyAtoms ts]
termination_by sizeOf l
decreasing_by all_goals (simp_wf; try omega)
theorem overKV_tooManyAtoms (kvs : List (Term × Term)) : overKV .tooManyAtoms kvs = false := by
  match kvs with
  | [] => simp [overKV]
  | (k, v) :: ts => simp [overKV, over_tooManyAtoms k, over_tooManyAtoms v, overKV_tooManyAtoms ts]
termination_by sizeOf kvs
decreasing_by all_goals (simp_wf; try omega)
end

end Edp
