"""Miscellaneous small tables regenerated from /repo (auto-imported by tools/gen_tables.py).

Output: lean/EdpVerif/Generated/Misc.lean (namespace Edp.Gen).

C16 part: the process-number limit of the pid allocator and the *sequence of operations on shared state*
performed by `PidAllocator::allocate` and `Node::make_reference`, as written in the source. The Lean model's
small-step semantics is a transcription of exactly these sequences; `Props/C16.lean` ties the two
(`C16_model_steps_are_the_source_steps`), so dropping the lock or reordering an access breaks a proof obligation.
"""
import re


def _fn_body(src, header_re):
    """Text of the brace-balanced body following the first match of header_re (None if not found)."""
    m = re.search(header_re, src)
    if not m:
        return None
    i = src.find("{", m.end() - 1)
    if i < 0:
        return None
    depth = 0
    for j in range(i, len(src)):
        c = src[j]
        if c == "{":
            depth += 1
        elif c == "}":
            depth -= 1
            if depth == 0:
                return src[i + 1:j]
    return None


def _shared_ops(body):
    """`self.<field>.<method>(` occurrences in textual order, comments removed."""
    body = re.sub(r"//[^\n]*", "", body)
    body = re.sub(r"\s+", "", body)
    return [f"{f}.{m}" for f, m in re.findall(r"self\.([a-z_]+)\.([a-z_]+)\(", body)]


def gen_c16(read, num):
    broken = []
    lines = []
    src = read("crates/edp_client/src/pid_allocator.rs")
    maxp = 0
    alloc_ops = []
    if src is None:
        broken.append("pid_allocator.rs missing")
    else:
        m = re.search(r"const\s+MAX_PROCESSES_PER_NODE\s*:\s*u32\s*=\s*([0-9_]+)\s*;", src)
        if not m:
            broken.append("const MAX_PROCESSES_PER_NODE: u32 = <n>; not found in pid_allocator.rs")
        else:
            maxp = num(m.group(1))
        body = _fn_body(src, r"pub\s+fn\s+allocate\s*\(\s*&self\s*\)[^{]*\{")
        if body is None:
            broken.append("fn allocate(&self) body not found in pid_allocator.rs")
        else:
            alloc_ops = [o for o in _shared_ops(body) if not o.startswith("node_name.")]
            if not alloc_ops:
                broken.append("no shared-state operations found in allocate()")
            if not re.search(r"let\s+_guard\s*=\s*self\s*\.\s*wrap_lock\s*\.\s*lock\s*\(\s*\)", body):
                broken.append("allocate() no longer binds `let _guard = self.wrap_lock.lock()` (guard held to the end of the call)")
            if not re.search(r"if\s+id\s*>=\s*MAX_PROCESSES_PER_NODE\s*\{", body):
                broken.append("allocate(): wrap test `if id >= MAX_PROCESSES_PER_NODE` not found")
        if not re.search(r"next_id\s*:\s*AtomicU32\s*::\s*new\s*\(\s*1\s*\)", src):
            broken.append("PidAllocator::new no longer starts next_id at 1")
        if not re.search(r"next_serial\s*:\s*AtomicU64\s*::\s*new\s*\(\s*0\s*\)", src):
            broken.append("PidAllocator::new no longer starts next_serial at 0")
    node = read("crates/edp_node/src/node.rs")
    ref_ops = []
    if node is None:
        broken.append("node.rs missing")
    else:
        body = _fn_body(node, r"pub\s+fn\s+make_reference\s*\(\s*&self\s*\)[^{]*\{")
        if body is None:
            broken.append("fn make_reference(&self) body not found in node.rs")
        else:
            ref_ops = [o for o in _shared_ops(body) if not o.startswith("name.")]
            if not ref_ops:
                broken.append("no shared-state operations found in make_reference()")
        if not re.search(r"reference_counter\s*:\s*Arc\s*::\s*new\s*\(\s*AtomicU32\s*::\s*new\s*\(\s*0\s*\)\s*\)", node):
            broken.append("Node no longer starts reference_counter at AtomicU32 0")

    def strs(xs):
        return "[" + ", ".join('"' + x + '"' for x in xs) + "]"

    def accesses(text, field):
        """every `<field>.<method>(` in the file (comments removed) with the function it occurs in, in textual order"""
        text = re.sub(r"//[^\n]*", "", text)
        fns = [(m.start(), m.group(1)) for m in re.finditer(r"\bfn\s+([a-z_0-9]+)\s*[<(]", text)]
        out = []
        for m in re.finditer(r"\b" + field + r"\s*\.\s*([a-z_]+)\s*\(", text):
            fn = "?"
            for pos, name in fns:
                if pos < m.start():
                    fn = name
            out.append(fn + ":" + m.group(1))
        return out

    ref_acc = accesses(node, "reference_counter") if node is not None else []
    alloc_acc = []
    if src is not None:
        for f in ("next_id", "next_serial"):
            alloc_acc += [f + "@" + a for a in accesses(src, f)]
    lines.append("/-- every access to `reference_counter` in crates/edp_node/src/node.rs as `function:method`, in textual order -/")
    lines.append(f"def REFERENCE_COUNTER_ACCESSES : List String := {strs(ref_acc)}")
    lines.append("")
    lines.append("/-- every access to `next_id` / `next_serial` in crates/edp_client/src/pid_allocator.rs as `field@function:method` -/")
    lines.append(f"def ALLOCATOR_COUNTER_ACCESSES : List String := {strs(alloc_acc)}")
    lines.append("")

    lines.append("/-- `MAX_PROCESSES_PER_NODE` of crates/edp_client/src/pid_allocator.rs -/")
    lines.append(f"def MAX_PROCESSES_PER_NODE : Nat := {maxp}")
    lines.append("")
    lines.append("/-- operations on `self.*` shared state in `PidAllocator::allocate`, in textual order (wrap branch first) -/")
    lines.append(f"def ALLOCATE_SHARED_OPS : List String := {strs(alloc_ops)}")
    lines.append("")
    lines.append("/-- operations on `self.*` shared state in `Node::make_reference`, in textual order -/")
    lines.append(f"def MAKE_REFERENCE_SHARED_OPS : List String := {strs(ref_ops)}")
    lines.append("")
    return lines, broken


def _flag_expr_names(expr):
    """names in `Self::A.bits() | Self::B.bits() | ...` (order kept)"""
    return re.findall(r"Self\s*::\s*([A-Z][A-Z0-9_]*)\s*\.\s*bits\s*\(\s*\)", expr)


def gen_c04(read, num):
    """C04 part: every capability-flag constant of flags.rs (name -> value), the flag-set constants
    (MANDATORY_OTP26 / DEFAULT / DEFAULT_HIDDEN as lists of member names, evaluated here as well), and the
    handshake tag / version constants of handshake.rs. `Impl/Handshake.lean` uses these values instead of literals;
    `Props/C04.lean` compares them with the protocol's table in `Spec/Handshake.lean`."""
    broken = []
    lines = []
    flags = []      # (name, value)
    sets = []       # (name, [member names])
    src = read("crates/edp_client/src/flags.rs")
    if src is None:
        broken.append("flags.rs missing")
    else:
        m = re.search(r"bitflags!\s*\{", src)
        body = _fn_body(src, r"bitflags!\s*\{") if m else None
        if body is None:
            broken.append("bitflags! { ... } block not found in flags.rs")
        else:
            if not re.search(r"pub\s+struct\s+DistributionFlags\s*:\s*u64\s*\{", body):
                broken.append("`pub struct DistributionFlags: u64` not found inside bitflags!")
            nocomment = re.sub(r"//[^\n]*", "", body)
            decls = re.findall(r"\bconst\s+([A-Z][A-Z0-9_]*)\s*=\s*([^;]+);", nocomment)
            for name, val in decls:
                v = val.strip()
                if not re.fullmatch(r"0[xX][0-9a-fA-F_]+|[0-9][0-9_]*", v):
                    broken.append(f"flag {name}: value `{v}` is not a plain integer literal")
                    continue
                flags.append((name, int(v.replace("_", ""), 0)))
            if len(decls) != len(re.findall(r"\bconst\b", nocomment)):
                broken.append("a `const` inside bitflags! did not match `const NAME = <literal>;`")
            if not flags:
                broken.append("no flag constants found in bitflags!")
        known = dict(flags)
        sets_src = {name: expr for name, expr in
                    re.findall(r"pub\s+const\s+([A-Z][A-Z0-9_]*)\s*:\s*Self\s*=\s*Self\s*::\s*from_bits_truncate\s*\(([^;]*)\)\s*;", src)}
        for want in ("MANDATORY_OTP26", "DEFAULT", "DEFAULT_HIDDEN"):
            if want not in sets_src:
                broken.append(f"pub const {want}: Self = Self::from_bits_truncate(...) not found in flags.rs")
        for name, expr in sets_src.items():
            members = _flag_expr_names(expr)
            parts = [t.strip() for t in re.sub(r"\s+", "", expr).rstrip(",").split("|")]
            if len(parts) != len(members) or not members:
                broken.append(f"flag set {name}: a term is not of the form Self::NAME.bits()")
            for mname in members:
                if mname not in known and mname not in sets_src:
                    broken.append(f"flag set {name}: unknown member {mname}")
            sets.append((name, members))
        for fn, cst in (("default_otp26", "DEFAULT"), ("default_hidden", "DEFAULT_HIDDEN")):
            if not re.search(r"pub\s+const\s+fn\s+" + fn + r"\s*\(\s*\)\s*->\s*Self\s*\{\s*Self\s*::\s*" + cst + r"\s*\}", src):
                broken.append(f"fn {fn}() no longer returns Self::{cst}")
        if not re.search(r"impl\s+Default\s+for\s+DistributionFlags\s*\{\s*fn\s+default\s*\(\s*\)\s*->\s*Self\s*\{\s*Self\s*::\s*default_otp26\s*\(\s*\)", src):
            broken.append("impl Default for DistributionFlags no longer returns default_otp26()")
    tags = []
    hs = read("crates/edp_client/src/handshake.rs")
    if hs is None:
        broken.append("handshake.rs missing")
    else:
        found = dict(re.findall(r"const\s+(HANDSHAKE_TAG_[A-Z_]+)\s*:\s*u8\s*=\s*b'(.)'\s*;", hs))
        for want in ("HANDSHAKE_TAG_N", "HANDSHAKE_TAG_N_OLD", "HANDSHAKE_TAG_S", "HANDSHAKE_TAG_A"):
            if want not in found:
                broken.append(f"const {want}: u8 = b'<c>'; not found in handshake.rs")
        tags = [(k, ord(v)) for k, v in sorted(found.items())]
        for want in ("PROTOCOL_VERSION", "PROTOCOL_VERSION_5"):
            m = re.search(r"pub\s+const\s+" + want + r"\s*:\s*u16\s*=\s*([0-9_]+)\s*;", hs)
            if not m:
                broken.append(f"pub const {want}: u16 = <n>; not found in handshake.rs")
            else:
                tags.append((want, num(m.group(1))))
        # tags written as byte literals in the encoders (the reply tag has no named constant)
        m = re.search(r"impl\s+ChallengeReply\s*\{", hs)
        rbody = _fn_body(hs, r"impl\s+ChallengeReply\s*\{") if m else None
        mr = re.search(r"pub\s+fn\s+encode\s*\(\s*&self\s*\)[^{]*\{[^}]*?buf\.put_u8\(\s*b'(.)'\s*\)", rbody or "", re.S)
        if not mr:
            broken.append("ChallengeReply::encode: `buf.put_u8(b'<c>')` not found")
        else:
            tags.append(("HANDSHAKE_TAG_R_LITERAL", ord(mr.group(1))))
    sm = read("crates/edp_client/src/state_machine.rs")
    if sm is None:
        broken.append("state_machine.rs missing")
    else:
        cbody = _fn_body(sm, r"pub\s+fn\s+prepare_complement\s*\(\s*&mut\s+self\s*\)[^{]*\{")
        mc = re.search(r"buf\.put_u8\(\s*b'(.)'\s*\)", cbody or "")
        if not mc:
            broken.append("prepare_complement: `buf.put_u8(b'<c>')` not found")
        else:
            tags.append(("HANDSHAKE_TAG_C_LITERAL", ord(mc.group(1))))

    known = dict(flags)
    setvals = {}

    def setval(name, seen=()):
        if name in known:
            return known[name]
        if name in setvals:
            return setvals[name]
        if name in seen:
            return 0
        v = 0
        for sn, members in sets:
            if sn == name:
                for mname in members:
                    v |= setval(mname, seen + (name,))
        setvals[name] = v
        return v

    lines.append("/-- every capability-flag constant of crates/edp_client/src/flags.rs (`bitflags!` block), in source order -/")
    lines.append("def DIST_FLAGS : List (String × Nat) := [" + ", ".join(f'("{n}", {v})' for n, v in flags) + "]")
    lines.append("")
    for n, v in flags:
        lines.append(f"def FLAG_{n} : Nat := {v}")
    lines.append("")
    lines.append("/-- the flag-set constants of flags.rs as the member names their definitions list -/")
    lines.append("def DIST_FLAG_SETS : List (String × List String) := [" +
                 ", ".join(f'("{n}", [' + ", ".join(f'"{m}"' for m in ms) + "])" for n, ms in sets) + "]")
    lines.append("")
    for n, _ in sets:
        lines.append(f"/-- `DistributionFlags::{n}` evaluated (bitwise or of its members) -/")
        lines.append(f"def FLAGSET_{n} : Nat := {setval(n)}")
    for want in ("MANDATORY_OTP26", "DEFAULT", "DEFAULT_HIDDEN"):
        if want not in [n for n, _ in sets]:
            lines.append(f"def FLAGSET_{want} : Nat := 0")
    lines.append("")
    lines.append("/-- handshake tag / version constants of handshake.rs (and the two tags written as byte literals) -/")
    lines.append("def HANDSHAKE_CONSTS : List (String × Nat) := [" + ", ".join(f'("{n}", {v})' for n, v in tags) + "]")
    have = dict(tags)
    for want in ("HANDSHAKE_TAG_N", "HANDSHAKE_TAG_N_OLD", "HANDSHAKE_TAG_S", "HANDSHAKE_TAG_A",
                 "HANDSHAKE_TAG_R_LITERAL", "HANDSHAKE_TAG_C_LITERAL", "PROTOCOL_VERSION", "PROTOCOL_VERSION_5"):
        lines.append(f"def {want} : Nat := {have.get(want, 0)}")
    lines.append("")
    return lines, broken


def gen_c09(read, num):
    """C09 part: the constants of fragmentation.rs and the calls `Connection::receive_message` makes on its assembler."""
    broken = []
    lines = []
    src = read("crates/edp_client/src/fragmentation.rs")
    vals = {"MAX_FRAGMENTS_VEC": 0, "MAX_FRAGMENT_COUNT": 0, "DEFAULT_FRAGMENT_TIMEOUT_MS": 0, "DIST_FRAG_HEADER": 0,
            "DIST_FRAG_CONT": 0}
    if src is None:
        broken.append("fragmentation.rs missing")
    else:
        for name, ty in (("MAX_FRAGMENTS_VEC", "u64"), ("MAX_FRAGMENT_COUNT", "u64"), ("DIST_FRAG_HEADER", "u8"),
                         ("DIST_FRAG_CONT", "u8")):
            m = re.search(r"(?:pub\s+)?const\s+" + name + r"\s*:\s*" + ty + r"\s*=\s*([0-9_]+)\s*;", src)
            if not m:
                broken.append(f"const {name}: {ty} = <n>; not found in fragmentation.rs")
            else:
                vals[name] = num(m.group(1))
        m = re.search(r"pub\s+const\s+DEFAULT_FRAGMENT_TIMEOUT\s*:\s*Duration\s*=\s*Duration\s*::\s*from_(secs|millis)\s*\(\s*([0-9_]+)\s*\)\s*;", src)
        if not m:
            broken.append("pub const DEFAULT_FRAGMENT_TIMEOUT: Duration = Duration::from_secs|from_millis(<n>); not found in fragmentation.rs")
        else:
            vals["DEFAULT_FRAGMENT_TIMEOUT_MS"] = num(m.group(2)) * (1000 if m.group(1) == "secs" else 1)
        # the places where the limits are applied, as the model has them
        if not re.search(r"if\s+count\s*>\s*MAX_FRAGMENT_COUNT\s*\{", src):
            broken.append("FragmentCount::new: test `if count > MAX_FRAGMENT_COUNT` not found")
        if not re.search(r"if\s+count\s*==\s*0\s*\{", src):
            broken.append("FragmentCount::new: test `if count == 0` not found")
        if not re.search(r"fn\s+exceeds_vec_limit\s*\(\s*self\s*\)\s*->\s*bool\s*\{\s*self\.0\s*>\s*MAX_FRAGMENTS_VEC\s*\}", src):
            broken.append("FragmentCount::exceeds_vec_limit is no longer `self.0 > MAX_FRAGMENTS_VEC`")
        if not re.search(r"self\s*\.\s*last_update\s*\.\s*elapsed\s*\(\s*\)\s*>\s*timeout", src):
            broken.append("FragmentedMessage::is_expired is no longer `self.last_update.elapsed() > timeout`")
        if not re.search(r"pub\s+fn\s+new\s*\(\s*\)\s*->\s*Self\s*\{\s*Self\s*\{\s*pending\s*:\s*HashMap::new\(\)\s*,\s*fragment_timeout\s*:\s*DEFAULT_FRAGMENT_TIMEOUT\s*,?\s*\}", src):
            broken.append("FragmentAssembler::new no longer uses DEFAULT_FRAGMENT_TIMEOUT")
    conn = read("crates/edp_client/src/connection.rs")
    recv_ops = []
    before_tick = False
    owners = 0
    if conn is None:
        broken.append("connection.rs missing")
    else:
        owners = len(re.findall(r"FragmentAssembler\s*::\s*(?:new|with_timeout|default)\s*\(", conn))
        for name in ("DIST_FRAG_HEADER", "DIST_FRAG_CONT"):
            m = re.search(r"const\s+" + name + r"\s*:\s*u8\s*=\s*([0-9_]+)\s*;", conn)
            if not m:
                broken.append(f"const {name}: u8 = <n>; not found in connection.rs")
            else:
                vals["CONN_" + name] = num(m.group(1))
        body = _fn_body(conn, r"pub\s+async\s+fn\s+receive_message\s*\(\s*&mut\s+self\s*\)[^{]*\{")
        if body is None:
            broken.append("fn receive_message(&mut self) body not found in connection.rs")
        else:
            text = re.sub(r"//[^\n]*", "", body)
            text = re.sub(r"\s+", "", text)
            recv_ops = re.findall(r"self\.fragment_assembler\.([a-z_]+)\(", text)
            loop_at = text.find("loop{")
            read_at = text.find("letdata=self.read_message().await?;")
            clean_at = text.find("self.fragment_assembler.cleanup_expired();")
            tick_at = text.find("ifdata.is_empty(){")
            # inside the loop, directly after the frame has been read, before the tick's `continue` (so: once per frame)
            before_tick = 0 <= loop_at < read_at and read_at + len("letdata=self.read_message().await?;") == clean_at and clean_at < tick_at
            if read_at < 0 or tick_at < 0 or loop_at < 0:
                broken.append("receive_message: `loop { let data = self.read_message().await?; … if data.is_empty() {` not found")
        others = re.findall(r"fragment_assembler\s*\.\s*([a-z_]+)\s*\(", re.sub(r"//[^\n]*", "", conn))
        if sorted(set(others)) != sorted(set(recv_ops)):
            broken.append("connection.rs uses its fragment assembler outside receive_message")

    def strs(xs):
        return "[" + ", ".join('"' + x + '"' for x in xs) + "]"

    lines.append("/-- `MAX_FRAGMENTS_VEC` of crates/edp_client/src/fragmentation.rs -/")
    lines.append(f"@[simp] def MAX_FRAGMENTS_VEC : Nat := {vals['MAX_FRAGMENTS_VEC']}")
    lines.append("/-- `MAX_FRAGMENT_COUNT` of fragmentation.rs -/")
    lines.append(f"@[simp] def MAX_FRAGMENT_COUNT : Nat := {vals['MAX_FRAGMENT_COUNT']}")
    lines.append("/-- `DEFAULT_FRAGMENT_TIMEOUT` of fragmentation.rs, in milliseconds -/")
    lines.append(f"def DEFAULT_FRAGMENT_TIMEOUT_MS : Nat := {vals['DEFAULT_FRAGMENT_TIMEOUT_MS']}")
    lines.append("/-- `DIST_FRAG_HEADER` of fragmentation.rs (the tag of the first fragment's frame) -/")
    lines.append(f"def FRAG_DIST_FRAG_HEADER : Nat := {vals['DIST_FRAG_HEADER']}")
    lines.append("/-- `DIST_FRAG_CONT` of fragmentation.rs (the tag of a continuation frame) -/")
    lines.append(f"def FRAG_DIST_FRAG_CONT : Nat := {vals['DIST_FRAG_CONT']}")
    lines.append("/-- `DIST_FRAG_HEADER` / `DIST_FRAG_CONT` of connection.rs (what `receive_message` dispatches on) -/")
    lines.append(f"def CONN_DIST_FRAG_HEADER : Nat := {vals.get('CONN_DIST_FRAG_HEADER', 0)}")
    lines.append(f"def CONN_DIST_FRAG_CONT : Nat := {vals.get('CONN_DIST_FRAG_CONT', 0)}")
    lines.append("")
    lines.append("/-- calls on `self.fragment_assembler` in `Connection::receive_message`, in textual order -/")
    lines.append(f"def RECEIVE_ASSEMBLER_OPS : List String := {strs(recv_ops)}")
    lines.append("/-- `cleanup_expired()` is the statement that follows `let data = self.read_message().await?;` inside the loop,")
    lines.append("before the tick's `continue`: it runs once per received frame -/")
    lines.append(f"def RECEIVE_CLEANUP_PER_FRAME : Bool := {'true' if before_tick else 'false'}")
    lines.append("/-- number of places in connection.rs that construct a `FragmentAssembler` -/")
    lines.append(f"def CONNECTION_ASSEMBLERS : Nat := {owners}")
    lines.append("")
    return lines, broken


def gen_c13(read, num):
    """C13 part: which zero-copy parsers of decoder.rs take the error context, which `PathSegment`s each of them pushes,
    and every assignment to `ctx.byte_offset` — the shape the context model (Impl/DecodeCtx.lean) transcribes."""
    broken = []
    lines = []
    dec = read("crates/erltf/src/decoder.rs")
    tags_src = read("crates/erltf/src/tags.rs")
    ctx_tags, plain_tags, pushes, assigns = [], [], [], []
    if dec is None or tags_src is None:
        broken.append("decoder.rs or tags.rs missing")
    else:
        tagv = {n: num(v) for n, v in re.findall(r"pub\s+const\s+([A-Z0-9_]+)\s*:\s*u8\s*=\s*([0-9_]+)\s*;", tags_src)}
        body = _fn_body(dec, r"fn\s+parse_term_from_tag_borrowed\s*<")
        if body is None:
            broken.append("fn parse_term_from_tag_borrowed body not found in decoder.rs")
        else:
            arms = re.findall(r"([A-Z][A-Z0-9_]+)\s*=>\s*(?:([a-z_0-9]+)\s*\(([^)]*)\)|Ok\(\(input,\s*BorrowedTerm::Nil\)\))", body)
            if not arms:
                broken.append("no arms found in parse_term_from_tag_borrowed")
            for name, fn, args in arms:
                if name not in tagv:
                    broken.append(f"tag constant {name} of parse_term_from_tag_borrowed not found in tags.rs")
                    continue
                if fn and re.search(r"\bctx\b", args):
                    ctx_tags.append(tagv[name])
                else:
                    plain_tags.append(tagv[name])
        text = re.sub(r"//[^\n]*", "", dec)
        for fn in re.findall(r"fn\s+(parse_[a-z_0-9]+_borrowed)\s*<", text):
            b = _fn_body(text, r"fn\s+" + fn + r"\s*<")
            if b is None:
                continue
            segs = re.findall(r"ctx\.push\(\s*PathSegment::([A-Za-z]+)", b)
            if segs:
                if len(re.findall(r"ctx\.pop\(\)", b)) != len(segs):
                    broken.append(f"{fn}: ctx.push / ctx.pop do not pair up")
                pushes.append((fn, segs))
        for fn in ("parse_versioned_term_borrowed", "parse_term_borrowed", "decode_borrowed"):
            b = _fn_body(text, r"fn\s+" + fn + r"\s*[<(]")
            if b is None:
                broken.append(f"fn {fn} not found in decoder.rs")
                continue
            for rhs in re.findall(r"ctx\.byte_offset\s*=\s*([^;]+);", b):
                assigns.append(fn + ":" + re.sub(r"\s+", "", rhs))
        total = len(re.findall(r"\.byte_offset\s*=[^=]", text))
        if total != len(assigns):
            broken.append(f"decoder.rs assigns byte_offset in {total} places, {len(assigns)} of them in the three known functions")
        # the depth counter: incremented and decremented around the dispatch, nowhere else
        pb = _fn_body(text, r"fn\s+parse_term_borrowed\s*<") or ""
        flat = re.sub(r"\s+", "", pb)
        if "ctx.depth+=1;letresult=parse_term_from_tag_borrowed(input,tag,original_len,ctx);ctx.depth-=1;result" not in flat:
            broken.append("parse_term_borrowed: `ctx.depth += 1; let result = …; ctx.depth -= 1; result` not found")
        if len(re.findall(r"ctx\.depth\s*[-+]=", text)) != 2:
            broken.append("ctx.depth is changed outside parse_term_borrowed")
        if "ifctx.depth>MAX_NESTING_DEPTH{" not in flat:
            broken.append("parse_term_borrowed: test `if ctx.depth > MAX_NESTING_DEPTH` not found")

    def strs(xs):
        return "[" + ", ".join('"' + x + '"' for x in xs) + "]"

    lines.append("/-- tags whose arm in `parse_term_from_tag_borrowed` passes `ctx` on -/")
    lines.append(f"def C13_CTX_TAGS : List Nat := {ctx_tags}")
    lines.append("/-- tags whose arm does not -/")
    lines.append(f"def C13_PLAIN_TAGS : List Nat := {plain_tags}")
    lines.append("/-- `ctx.push(PathSegment::…)` per zero-copy parser, in textual order (each with its `ctx.pop()`) -/")
    lines.append("def C13_PUSHES : List (String × List String) := [" + ", ".join('("' + f + '", ' + strs(sg) + ")" for f, sg in pushes) + "]")
    lines.append("/-- every assignment to `ctx.byte_offset` in decoder.rs: function and right-hand side -/")
    lines.append(f"def C13_OFFSET_ASSIGNMENTS : List String := {strs(assigns)}")
    lines.append("")
    return lines, broken


def _impl_body(src, header_re):
    """Brace-balanced body of the first `impl … {` whose header matches header_re."""
    return _fn_body(src, header_re)


def _fns(body, prefix):
    """{name: body} of every `fn <prefix><name>` directly in an impl body."""
    out = {}
    for m in re.finditer(r"\bfn\s+" + prefix + r"([a-z0-9_]*)\s*[<(]", body):
        b = _fn_body(body[m.start():], r"\bfn\s+" + prefix + re.escape(m.group(1)) + r"\s*[<(]")
        if b is not None and m.group(1) not in out:
            out[m.group(1)] = b
    return out


def _strip(text):
    return re.sub(r"//[^\n]*", "", text)


def _uniq(xs):
    out = []
    for x in xs:
        if x not in out:
            out.append(x)
    return out


def _built(body):
    """`OwnedTerm::X(` in construction position (match-arm patterns removed), in textual order, unique."""
    t = re.sub(r"OwnedTerm::\w+(?:\([^()]*\))?\s*(?:if[^=]*)?=>", "", _strip(body))
    return _uniq(re.findall(r"OwnedTerm::(\w+)\(", t))


def _matched(body):
    """`OwnedTerm::X` in match-arm pattern position; arms under `#[cfg(feature = …)]` (not compiled by default) removed."""
    t = re.sub(r"#\[cfg\(feature\s*=\s*\"[^\"]*\"\)\]\s*OwnedTerm::\w+(?:\([^()]*\))?\s*(?:if[^=]*?)?=>[^\n]*\n", "", _strip(body))
    return _uniq(re.findall(r"OwnedTerm::(\w+)(?:\([^()]*\))?\s*(?:if[^=>]*(?:==[^=>]*)?)?=>", t))


def gen_c15(read, num):
    """C15 part: the type-mapping tables of erltf_serde — which term constructor every `serialize_*` builds, which
    constructors every `deserialize_*` matches on, the atom names of bool / unit / None, the digit limit of
    `integer_term_as`, the Elixir struct key and module prefix of the derive macro."""
    broken = []
    lines = []
    ser = read("crates/erltf_serde/src/ser.rs")
    de = read("crates/erltf_serde/src/de.rs")
    drv = read("crates/erltf_serde_derive/src/lib.rs")
    ser_top = []     # (method, [constructors in `Ok(OwnedTerm::X(`])
    ser_parts = []   # (compound trait, [constructors built anywhere in its impl])
    atoms = {"TRUE": "", "FALSE": "", "UNIT": "", "NONE": "", "DE_TRUE": "", "DE_FALSE": "", "DE_UNIT": "", "DE_NONE": ""}
    u64_split = False
    key_ctor = ""
    scalars = ["bool", "i8", "i16", "i32", "i64", "u8", "u16", "u32", "u64", "f32", "f64", "char", "str", "bytes", "none",
               "unit", "unit_struct", "unit_variant", "newtype_variant"]
    compounds = ["SerializeSeq", "SerializeTuple", "SerializeTupleStruct", "SerializeTupleVariant", "SerializeMap",
                 "SerializeStruct", "SerializeStructVariant"]
    transparent = []
    wide_overridden = []
    if ser is None:
        broken.append("ser.rs missing")
    else:
        body = _impl_body(ser, r"impl\s+SerdeSerializer\s+for\s+&mut\s+Serializer\s*\{")
        if body is None:
            broken.append("impl SerdeSerializer for &mut Serializer not found in ser.rs")
        else:
            fns = _fns(body, "serialize_")
            for m in scalars:
                if m not in fns:
                    broken.append(f"fn serialize_{m} not found in ser.rs")
                    continue
                b = fns[m]
                if m == "none":
                    mm = re.search(r"#\[cfg\(not\(feature\s*=\s*\"elixir-interop\"\)\)\]\s*\{(.*?)\}", b, re.S)
                    if not mm:
                        broken.append("serialize_none: branch for the default features not found")
                        continue
                    b = mm.group(1)
                    a = re.search(r"Atom::new\(\"([^\"]*)\"\)", b)
                    atoms["NONE"] = a.group(1) if a else ""
                    if not a:
                        broken.append("serialize_none: atom name not found")
                tops = _uniq(re.findall(r"Ok\(\s*OwnedTerm::(\w+)\(", _strip(b)))
                if not tops:
                    broken.append(f"serialize_{m}: no `Ok(OwnedTerm::X(` found")
                ser_top.append((m, tops))
            for m in ("some", "newtype_struct"):
                if m in fns and re.search(r"value\s*\.\s*serialize\s*\(\s*self\s*\)", fns[m]):
                    transparent.append(m)
                else:
                    broken.append(f"serialize_{m} no longer forwards to the inner value")
            for m in ("i128", "u128"):
                if m in fns:
                    wide_overridden.append(m)
            mm = re.search(r"if\s+v\s*\{\s*\"([^\"]*)\"\s*\}\s*else\s*\{\s*\"([^\"]*)\"\s*\}", fns.get("bool", ""))
            if mm:
                atoms["TRUE"], atoms["FALSE"] = mm.group(1), mm.group(2)
            else:
                broken.append("serialize_bool: `if v { \"true\" } else { \"false\" }` shape not found")
            mm = re.search(r"Atom::new\(\"([^\"]*)\"\)", fns.get("unit", ""))
            if mm:
                atoms["UNIT"] = mm.group(1)
            else:
                broken.append("serialize_unit: atom name not found")
            u64_split = bool(re.search(r"if\s+v\s*<=\s*i64::MAX\s+as\s+u64\s*\{\s*Ok\(OwnedTerm::Integer\(v as i64\)\)\s*\}\s*else\s*\{",
                                       fns.get("u64", "")))
            if not u64_split:
                broken.append("serialize_u64: `if v <= i64::MAX as u64 { Ok(OwnedTerm::Integer(v as i64)) } else {` not found")
            if not re.search(r"let\s+le_bytes\s*=\s*v\.to_le_bytes\(\);\s*let\s+digits\s*=\s*le_bytes\.to_vec\(\);\s*Ok\(OwnedTerm::BigInt\(BigInt::new\(false,\s*digits\)\)\)",
                             fns.get("u64", "")):
                broken.append("serialize_u64: the big integer is no longer `BigInt::new(false, v.to_le_bytes().to_vec())`")
        for tr in compounds:
            ty = re.search(r"type\s+" + tr + r"\s*=\s*(\w+)\s*;", ser)
            if not ty:
                broken.append(f"type {tr} = …; not found in ser.rs")
                continue
            ib = _impl_body(ser, r"impl\s+ser::" + tr + r"\s+for\s+" + ty.group(1) + r"\s*\{")
            if ib is None:
                broken.append(f"impl ser::{tr} for {ty.group(1)} not found in ser.rs")
                continue
            ser_parts.append((tr, sorted(_built(ib))))
            endb = _fn_body(ib, r"\bfn\s+end\s*\(")
            tops = _uniq(re.findall(r"Ok\(\s*OwnedTerm::(\w+)\(", _strip(endb or "")))
            if not tops:
                broken.append(f"{tr}::end: no `Ok(OwnedTerm::X(` found")
            ser_top.append((tr, tops))
            if tr in ("SerializeStruct", "SerializeStructVariant"):
                k = re.search(r"let\s+key_term\s*=\s*OwnedTerm::(\w+)\(key\.as_bytes\(\)\.to_vec\(\)\);", ib)
                if not k:
                    broken.append(f"{tr}::serialize_field: `let key_term = OwnedTerm::X(key.as_bytes().to_vec());` not found")
                elif key_ctor and key_ctor != k.group(1):
                    broken.append("struct and struct-variant field keys use different constructors")
                else:
                    key_ctor = k.group(1)
    de_arms = []   # (method, [constructors matched])
    big_digits = 0
    de_methods = ["bool", "i8", "i16", "i32", "i64", "u8", "u16", "u32", "u64", "f32", "f64", "char", "str", "string", "bytes",
                  "byte_buf", "unit", "unit_struct", "seq", "tuple", "tuple_struct", "map", "struct", "enum", "identifier"]
    if de is None:
        broken.append("de.rs missing")
    else:
        body = _impl_body(de, r"impl<'de>\s+SerdeDeserializer<'de>\s+for\s+&mut\s+Deserializer<'de>\s*\{")
        ita = _fn_body(de, r"\bfn\s+integer_term_as\s*<")
        exp = _fn_body(de, r"\bfn\s+expect_atom\s*\(")
        if body is None or ita is None or exp is None:
            broken.append("impl SerdeDeserializer for &mut Deserializer / fn integer_term_as / fn expect_atom not found in de.rs")
        else:
            fns = _fns(body, "deserialize_")
            ita_arms = _matched(ita)
            exp_arms = _matched(exp)
            mm = re.search(r"if\s+significant\s*>\s*([0-9_]+)\s*\{", ita)
            if mm:
                big_digits = num(mm.group(1))
            else:
                broken.append("integer_term_as: `if significant > <n> {` not found")
            if not re.search(r"rposition\(\|&d\|\s*d\s*!=\s*0\)\s*\.map_or\(0,\s*\|pos\|\s*pos\s*\+\s*1\)", re.sub(r"\s+", " ", ita)):
                broken.append("integer_term_as: significant digits are no longer `rposition(|&d| d != 0).map_or(0, |pos| pos + 1)`")
            if not re.search(r"T::try_from\(value\)", ita):
                broken.append("integer_term_as: result is no longer `T::try_from(value)`")

            def arms_of(m, seen=()):
                b = fns.get(m)
                if b is None:
                    broken.append(f"fn deserialize_{m} not found in de.rs")
                    return []
                t = _strip(b)
                d = re.fullmatch(r"\s*self\.deserialize_(\w+)\(visitor\)\s*", t)
                if d and d.group(1) not in seen:
                    return arms_of(d.group(1), seen + (m,))
                if "integer_term_as(" in t:
                    if not re.search(r"visitor\.visit_" + m + r"\(integer_term_as\(self\.term,", t):
                        broken.append(f"deserialize_{m}: no longer `visitor.visit_{m}(integer_term_as(self.term, …)?)`")
                    return ita_arms
                if "self.expect_atom(" in t:
                    return exp_arms
                return _matched(t)

            for m in de_methods:
                de_arms.append((m, sorted(arms_of(m))))
            b = fns.get("bool", "")
            if re.search(r"\"true\"\s*=>\s*visitor\.visit_bool\(true\)", b) and re.search(r"\"false\"\s*=>\s*visitor\.visit_bool\(false\)", b):
                atoms["DE_TRUE"], atoms["DE_FALSE"] = "true", "false"
            else:
                broken.append("deserialize_bool: arms `\"true\" => visit_bool(true)`, `\"false\" => visit_bool(false)` not found")
            mm = re.search(r"self\.expect_atom\(\"([^\"]*)\"\)", fns.get("unit", ""))
            if mm:
                atoms["DE_UNIT"] = mm.group(1)
            else:
                broken.append("deserialize_unit: `self.expect_atom(\"…\")` not found")
            mm = re.search(r"^\s*OwnedTerm::Atom\(atom\)\s+if\s+atom\.as_str\(\)\s*==\s*\"([^\"]*)\"\s*=>\s*visitor\.visit_none\(\),\s*\n\s*#\[cfg",
                           _strip(fns.get("option", "")), re.M)
            if mm and re.search(r"_\s*=>\s*visitor\.visit_some\(self\)", fns.get("option", "")):
                atoms["DE_NONE"] = mm.group(1)
            else:
                broken.append("deserialize_option: `OwnedTerm::Atom(atom) if atom.as_str() == \"…\" => visit_none()` then `_ => visit_some(self)` not found")
            if "newtype_struct" not in fns or not re.search(r"visitor\.visit_newtype_struct\(self\)", fns["newtype_struct"]):
                broken.append("deserialize_newtype_struct no longer forwards to the inner value")
            for m in ("i128", "u128"):
                if m in fns:
                    wide_overridden.append("de_" + m)
    struct_key = ""
    prefix = ""
    if drv is None:
        broken.append("erltf_serde_derive/src/lib.rs missing")
    else:
        mm = re.search(r"format!\(\"([^\"{}]*)\{\}\",\s*module_name\)", drv)
        if mm:
            prefix = mm.group(1)
        else:
            broken.append("derive: `format!(\"Elixir.{}\", module_name)` not found")
        ks = _uniq(re.findall(r"AtomKey\(\"([^\"]*)\"\)", drv))
        ds = _uniq(re.findall(r"^\s*\"(__[a-z_]*__)\"\s*=>\s*\{", drv, re.M))
        if len(ks) == 1 and ds == ks:
            struct_key = ks[0]
        else:
            broken.append("derive: the struct key written (`AtomKey(\"__struct__\")`) and the one matched on reading differ or were not found")
        if not re.search(r"#field\s*=\s*Some\(map\.next_value\(\)\?\);", drv):
            broken.append("derive: field assignment `#field = Some(map.next_value()?);` not found")
        if not re.search(r"ok_or_else\(\|\|\s*serde::de::Error::missing_field\(#name_str\)\)\?", drv):
            broken.append("derive: `missing_field` for an absent field not found")

    def strs(xs):
        return "[" + ", ".join('"' + x + '"' for x in xs) + "]"

    def table(rows):
        return "[" + ", ".join('("' + a + '", ' + strs(b) + ")" for a, b in rows) + "]"

    def bytes_of(s_):
        return "[" + ", ".join(str(b) for b in s_.encode("utf-8")) + "]"

    lines.append("/-- ser.rs: the constructors in `Ok(OwnedTerm::X(` of every scalar `serialize_*` and of the `end` of every compound serializer -/")
    lines.append(f"def C15_SER_TOP : List (String × List String) := {table(ser_top)}")
    lines.append("/-- ser.rs: every constructor built anywhere in the impl of a compound serializer (sorted) -/")
    lines.append(f"def C15_SER_PARTS : List (String × List String) := {table(ser_parts)}")
    lines.append("/-- ser.rs: `serialize_*` methods that forward to the inner value -/")
    lines.append(f"def C15_SER_TRANSPARENT : List String := {strs(transparent)}")
    lines.append("/-- ser.rs / de.rs: 128-bit methods overridden (none: serde's defaults report `i128 is not supported`) -/")
    lines.append(f"def C15_WIDE_OVERRIDDEN : List String := {strs(wide_overridden)}")
    lines.append("/-- ser.rs: constructor of a struct field's key -/")
    lines.append(f"def C15_STRUCT_FIELD_KEY_CTOR : String := \"{key_ctor}\"")
    lines.append("/-- ser.rs: `serialize_u64` writes an `Integer` up to `i64::MAX` and an 8-digit positive `BigInt` above -/")
    lines.append(f"def C15_U64_SPLIT_AT_I64_MAX : Bool := {'true' if u64_split else 'false'}")
    lines.append("/-- de.rs: constructors every `deserialize_*` matches on (through `integer_term_as`, `expect_atom` and forwarding; sorted) -/")
    lines.append(f"def C15_DE_ARMS : List (String × List String) := {table(de_arms)}")
    lines.append("/-- de.rs `integer_term_as`: a big integer with more significant digits than this is out of range -/")
    lines.append(f"@[simp] def C15_BIG_MAX_DIGITS : Nat := {big_digits}")
    for k in ("TRUE", "FALSE", "UNIT", "NONE", "DE_TRUE", "DE_FALSE", "DE_UNIT", "DE_NONE"):
        lines.append(f"/-- atom name \"{atoms[k]}\" ({'de.rs' if k.startswith('DE_') else 'ser.rs'}) -/")
        lines.append(f"@[simp] def C15_ATOM_{k} : List UInt8 := {bytes_of(atoms[k])}")
    lines.append("/-- erltf_serde_derive: the key under which `derive(ElixirStruct)` writes and expects the module -/")
    lines.append(f"@[simp] def C15_EX_STRUCT_KEY : List UInt8 := {bytes_of(struct_key)}")
    lines.append("/-- erltf_serde_derive: prefix of the module atom -/")
    lines.append(f"@[simp] def C15_EX_MODULE_PREFIX : List UInt8 := {bytes_of(prefix)}")
    lines.append("")
    return lines, broken


def _strip_ws(text):
    text = re.sub(r"//[^\n]*", "", text)
    return re.sub(r"\s+", "", text)


def _bytes_lit(sv):
    return "[" + ", ".join(str(b) for b in sv.encode("utf-8")) + "]"


def gen_c18(read, num):
    """C18 (behaviours) part: the message tags, arities and dispatch order of `GenServerProcess::handle_message` and
    `GenEventManager::handle_message`, the layout of a reply, whether a failed reply send is propagated, and the reasons
    handed to `terminate`, as written in gen_server.rs / gen_event.rs."""
    broken = []
    lines = []
    gs = read("crates/edp_node/src/gen_server.rs")
    gs_tags = {"call": "", "cast": ""}
    gs_chain = []
    gs_min = 0
    gs_from = 0
    gs_ref_first = False
    gs_prop = -1
    gs_term = ""
    if gs is None:
        broken.append("gen_server.rs missing")
    else:
        t = _strip_ws(gs)
        for f in gs_tags:
            m = re.search(f + r'_tag:Atom::new\("([^"]*)"\)', t)
            if not m:
                broken.append(f'gen_server.rs: `{f}_tag: Atom::new("…")` not found')
            else:
                gs_tags[f] = m.group(1)
        body = _fn_body(gs, r"async\s+fn\s+handle_message\s*\(\s*&mut\s+self\s*,\s*msg\s*:\s*Message\s*\)[^{]*\{")
        if body is None:
            broken.append("gen_server.rs: fn handle_message body not found")
        else:
            b = _strip_ws(body)
            gs_chain = [(f, num(n)) for f, n in re.findall(r"tag==&self\.([a-z_]+)_tag&&elements\.len\(\)==(\d+)", b)]
            m = re.search(r"ifletOwnedTerm::Tuple\(elements\)=&body&&elements\.len\(\)>=(\d+)&&letOwnedTerm::Atom\(tag\)=&elements\[0\]", b)
            if not m:
                broken.append("gen_server.rs handle_message: guard `Tuple(elements) && elements.len() >= n && Atom(tag) = elements[0]` not found")
            else:
                gs_min = num(m.group(1))
            m = re.search(r"ifletOwnedTerm::Tuple\(from_tuple\)=&elements\[1\]&&from_tuple\.len\(\)==(\d+)&&letOwnedTerm::Pid\(from_pid\)=&from_tuple\[0\]&&letOwnedTerm::Reference\(reference\)=&from_tuple\[1\]", b)
            if not m:
                broken.append("gen_server.rs handle_message: the `{Pid, Reference}` test of the call's `from` not found")
            else:
                gs_from = num(m.group(1))
            if "letrequest=elements[2].clone();" not in b or "self.handle_gen_cast(elements[1].clone())" not in b:
                broken.append("gen_server.rs handle_message: request positions (elements[2] for a call, elements[1] for a cast) changed")
            if not b.rstrip().endswith("self.server.handle_info(body).await}Message::Control{..}=>Ok(()),Message::Exit{reason,..}=>{self.server.terminate(reason).await;Ok(())}_=>Ok(()),}"):
                broken.append("gen_server.rs handle_message: the fall-through to handle_info / the Control, Exit and `_` arms changed")
        call = _fn_body(gs, r"async\s+fn\s+handle_gen_call\s*\(")
        if call is None:
            broken.append("gen_server.rs: fn handle_gen_call body not found")
        else:
            c = _strip_ws(call)
            gs_ref_first = "OwnedTerm::Tuple(vec![OwnedTerm::Reference(reference),reply])" in c
            if not gs_ref_first:
                broken.append("gen_server.rs handle_gen_call: reply is no longer `Tuple(vec![Reference(reference), reply])`")
            if "self.server.handle_call(request,from_pid.clone()).await?" not in c:
                broken.append("gen_server.rs handle_gen_call: `handle_call(request, from_pid.clone()).await?` not found")
            if "ifletSome(handle)=self.registry.get(&from_pid).await{" not in c:
                broken.append("gen_server.rs handle_gen_call: the reply no longer goes through `registry.get(&from_pid)`")
            sends = re.findall(r"\.send\(Message::Regular\{from:None,body:reply_msg,?\}\)\.await(\??)", c)
            if len(sends) != 1:
                broken.append("gen_server.rs handle_gen_call: expected exactly one reply send")
            else:
                gs_prop = 1 if sends[0] == "?" else 0
        m = re.search(r'asyncfnterminate\(&mutself\)\{self\.server\.terminate\(OwnedTerm::Atom\(Atom::new\("([a-z]+)"\)\)\)\.await;\}', _strip_ws(gs))
        if not m:
            broken.append("gen_server.rs: Process::terminate no longer hands an atom to the server's terminate")
        else:
            gs_term = m.group(1)
    ge = read("crates/edp_node/src/gen_event.rs")
    ge_tags = {"notify": "", "sync_notify": "", "call": "", "which_handlers": ""}
    ge_chain = []
    ge_prop = -1
    ge_reasons = []
    ge_atoms = []
    if ge is None:
        broken.append("gen_event.rs missing")
    else:
        t = _strip_ws(ge)
        for f in ge_tags:
            m = re.search(r"\b" + f + r'_tag:Atom::new\("([^"]*)"\)', re.sub(r"//[^\n]*", "", ge).replace(" ", ""))
            if not m:
                broken.append(f'gen_event.rs: `{f}_tag: Atom::new("…")` not found')
            else:
                ge_tags[f] = m.group(1)
        body = _fn_body(ge, r"async\s+fn\s+handle_message\s*\(\s*&mut\s+self\s*,\s*msg\s*:\s*Message\s*\)[^{]*\{")
        if body is None:
            broken.append("gen_event.rs: fn handle_message body not found")
        else:
            b = _strip_ws(body)
            ge_chain = [(f, num(n)) for f, n in re.findall(r"tag==&self\.([a-z_]+)_tag&&elements\.len\(\)==(\d+)", b)]
            ge_prop = len(re.findall(r"\.send\(Message::Regular\{from:None,body:[^}]*\}\)\.await\?", b))
            nsend = len(re.findall(r"\.send\(Message::Regular\{", b))
            if nsend != 3:
                broken.append(f"gen_event.rs handle_message: expected three reply sends, found {nsend}")
            ge_atoms = re.findall(r'OwnedTerm::Atom\(Atom::new\("([a-z]+)"\)\)', b)
            if "OwnedTerm::Tuple(vec![OwnedTerm::Reference(reference.clone()),reply,])" not in b or \
               "OwnedTerm::Tuple(vec![OwnedTerm::Reference(reference.clone()),OwnedTerm::List(handlers),])" not in b:
                broken.append("gen_event.rs handle_message: replies are no longer `Tuple(vec![Reference(reference), …])`")
            if "lethandler_id=elements[2].clone();letrequest=elements[3].clone();" not in b:
                broken.append("gen_event.rs handle_message: handler id / request positions of a call changed")
        ge_reasons = re.findall(r'\.terminate\(OwnedTerm::Atom\(Atom::new\("([a-z]+)"\)\)\)', t)

    def pairs(xs):
        return "[" + ", ".join(f'("{f}", {n})' for f, n in xs) + "]"

    def strs(xs):
        return "[" + ", ".join('"' + x + '"' for x in xs) + "]"

    lines.append("/-- `call_tag` / `cast_tag` of `GenServerProcess::new` (gen_server.rs), as UTF-8 bytes -/")
    lines.append(f"def GS_CALL_TAG : List UInt8 := {_bytes_lit(gs_tags['call'])}")
    lines.append(f"def GS_CAST_TAG : List UInt8 := {_bytes_lit(gs_tags['cast'])}")
    lines.append("/-- the `tag == &self.<f>_tag && elements.len() == n` tests of `GenServerProcess::handle_message`, in textual order -/")
    lines.append(f"def GS_DISPATCH : List (String × Nat) := {pairs(gs_chain)}")
    lines.append("/-- the `elements.len() >= n` of the outer guard, and the `from_tuple.len() == n` of a call's `from` -/")
    lines.append(f"def GS_MIN_ARITY : Nat := {gs_min}")
    lines.append(f"def GS_FROM_ARITY : Nat := {gs_from}")
    lines.append("/-- the reply is `Tuple(vec![Reference(reference), reply])` -/")
    lines.append(f"def GS_REPLY_REF_FIRST : Bool := {'true' if gs_ref_first else 'false'}")
    lines.append("/-- number of reply sends in `handle_gen_call` whose error is propagated with `?` -/")
    lines.append(f"def GS_REPLY_ERRORS_PROPAGATED : Nat := {max(gs_prop, 0) if gs_prop >= 0 else 99}")
    lines.append("/-- the reason `Process::terminate` of a `GenServerProcess` hands to the server's `terminate` -/")
    lines.append(f"def GS_TERMINATE_REASON : List UInt8 := {_bytes_lit(gs_term)}")
    lines.append("")
    lines.append("/-- the tags of `GenEventManager::new` (gen_event.rs), as UTF-8 bytes -/")
    lines.append(f"def GE_NOTIFY_TAG : List UInt8 := {_bytes_lit(ge_tags['notify'])}")
    lines.append(f"def GE_SYNC_NOTIFY_TAG : List UInt8 := {_bytes_lit(ge_tags['sync_notify'])}")
    lines.append(f"def GE_CALL_TAG : List UInt8 := {_bytes_lit(ge_tags['call'])}")
    lines.append(f"def GE_WHICH_TAG : List UInt8 := {_bytes_lit(ge_tags['which_handlers'])}")
    lines.append("/-- the `tag == &self.<f>_tag && elements.len() == n` tests of `GenEventManager::handle_message`, in textual order -/")
    lines.append(f"def GE_DISPATCH : List (String × Nat) := {pairs(ge_chain)}")
    lines.append("/-- number of reply sends in `GenEventManager::handle_message` whose error is propagated with `?` -/")
    lines.append(f"def GE_REPLY_ERRORS_PROPAGATED : Nat := {ge_prop if ge_prop >= 0 else 99}")
    if len(ge_atoms) != 2:
        broken.append("gen_event.rs handle_message: expected two atoms (acknowledgement of sync_notify, reply to a failed call)")
        ge_atoms = (ge_atoms + ["", ""])[:2]
    if len(ge_reasons) != 7:
        broken.append("gen_event.rs: expected seven `terminate(Atom(..))` sites (delete_handler; notify: swap, removal; call_handler: Remove, swap, Err; Process::terminate)")
        ge_reasons = (ge_reasons + [""] * 7)[:7]
    lines.append("/-- the atoms `GenEventManager::handle_message` builds, in textual order: the acknowledgement of a sync_notify, the")
    lines.append("reply to a call whose handler is missing or failed -/")
    lines.append(f"def GE_ACK_ATOM : List UInt8 := {_bytes_lit(ge_atoms[0])}")
    lines.append(f"def GE_CALL_ERROR_ATOM : List UInt8 := {_bytes_lit(ge_atoms[1])}")
    lines.append("/-- the reasons handed to a handler's `terminate` in gen_event.rs, in textual order -/")
    for name, r in zip(("DELETE", "EVENT_SWAP", "EVENT_REMOVE", "CALL_REMOVE", "CALL_SWAP", "CALL_ERR", "SHUTDOWN"), ge_reasons):
        lines.append(f"def GE_REASON_{name} : List UInt8 := {_bytes_lit(r)}")
    lines.append("")
    return lines, broken


def gen_c19(read, num):
    """C19 part: the arms of `Node::route_message` (which `ControlMessage` variants are routed, by which fields, into which
    `Message`), the errors `concerns_one_frame_only` lets the receiver loop survive, and the idle limit, from node.rs."""
    broken = []
    lines = []
    src = read("crates/edp_node/src/node.rs")
    arms = []
    default_ignored = False
    skipped = []
    tick_ms = 0
    if src is None:
        broken.append("node.rs missing")
    else:
        body = _fn_body(src, r"async\s+fn\s+route_message\s*\(")
        if body is None:
            broken.append("node.rs: fn route_message body not found")
        else:
            b = _strip_ws(body)
            if not b.startswith("matchcontrol_msg{"):
                broken.append("node.rs route_message: does not start with `match control_msg {`")
            heads = list(re.finditer(r"((?:\|?ControlMessage::[A-Za-z0-9]+\{[a-z_,.]*\})+)=>\{", b))
            for i, m in enumerate(heads):
                end = heads[i + 1].start() if i + 1 < len(heads) else len(b)
                block = b[m.end():end]
                variants = re.findall(r"ControlMessage::([A-Za-z0-9]+)\{", m.group(1))
                fields = sorted(set(f for f in re.findall(r"[a-z_]+", re.sub(r"ControlMessage::[A-Za-z0-9]+", "", m.group(1))) if f))
                msgs = sorted(set(re.findall(r"Message::([A-Za-z]+)\{", block)))
                lookup = []
                if "registry.whereis(&name)" in block:
                    lookup.append("whereis")
                if re.search(r"registry\.get\(&(?:pid|to)\)", block):
                    lookup.append("get")
                if "pending_rpcs.remove(" in block:
                    lookup.append("rpc")
                if len(msgs) != 1:
                    broken.append(f"node.rs route_message: arm {variants} builds {msgs}, expected exactly one Message variant")
                arms.append((variants, fields, msgs[0] if msgs else "", lookup))
            default_ignored = b.rstrip().endswith("_=>{}}Ok(())")
            if not arms:
                broken.append("node.rs route_message: no `ControlMessage::X { .. } => {` arm found")
        m = re.search(r"fnconcerns_one_frame_only\(e:&edp_client::Error\)->bool\{matches!\(e,((?:\|?edp_client::Error::[A-Za-z]+\(_\))+)\)\}", _strip_ws(src))
        if not m:
            broken.append("node.rs: concerns_one_frame_only is no longer a `matches!` over `edp_client::Error::X(_)` variants")
        else:
            skipped = re.findall(r"Error::([A-Za-z]+)\(_\)", m.group(1))
        t = _strip_ws(src)
        if "Err(e)=>{ifSelf::concerns_one_frame_only(&e){" not in t or "continue;}" not in t or "break;}}}connections.remove(&remote_node_clone);" not in t:
            broken.append("node.rs spawn_receiver_task: `if concerns_one_frame_only(&e) { …; continue; } …; break;` followed by `connections.remove` not found")
        m = re.search(r"const\s+DEFAULT_NET_TICK_TIME\s*:\s*Duration\s*=\s*Duration\s*::\s*from_(secs|millis)\s*\(\s*([0-9_]+)\s*\)\s*;", src)
        if not m:
            broken.append("node.rs: const DEFAULT_NET_TICK_TIME: Duration = Duration::from_secs|from_millis(<n>); not found")
        else:
            tick_ms = num(m.group(2)) * (1000 if m.group(1) == "secs" else 1)

    def strs(xs):
        return "[" + ", ".join('"' + x + '"' for x in xs) + "]"

    lines.append("/-- the arms of `Node::route_message` (node.rs) in source order: the `ControlMessage` variants of the pattern, the")
    lines.append("fields the pattern binds, the `Message` variant the arm sends, the lookups it makes -/")
    lines.append("def ROUTE_ARMS : List (List String × List String × String × List String) := [")
    lines.append(",\n".join(f"  ({strs(v)}, {strs(f)}, \"{m}\", {strs(l)})" for v, f, m, l in arms))
    lines.append("]")
    lines.append("/-- the match of `route_message` ends in `_ => {}` -/")
    lines.append(f"def ROUTE_DEFAULT_IGNORED : Bool := {'true' if default_ignored else 'false'}")
    lines.append("/-- the `edp_client::Error` variants after which the receiver loop `continue`s (`concerns_one_frame_only`) -/")
    lines.append(f"def RECEIVER_SKIPPED_ERRORS : List String := {strs(skipped)}")
    lines.append("/-- `DEFAULT_NET_TICK_TIME` of node.rs in milliseconds (the idle limit of a node's receiver) -/")
    lines.append(f"def NODE_NET_TICK_TIME_MS : Nat := {tick_ms}")
    lines.append("")
    return lines, broken


STATE_STRUCTS = [
    ("crates/edp_client/src/connection.rs", "Connection"),
    ("crates/edp_client/src/transport.rs", "FramedTransport"),
    ("crates/edp_client/src/framing.rs", "MessageFramer"),
    ("crates/edp_client/src/framing.rs", "MessageDeframer"),
    ("crates/edp_client/src/state_machine.rs", "HandshakeStateMachine"),
    ("crates/edp_client/src/fragmentation.rs", "FragmentedMessage"),
    ("crates/edp_client/src/fragmentation.rs", "FragmentAssembler"),
    ("crates/edp_client/src/pid_allocator.rs", "PidAllocator"),
    ("crates/erltf/src/decoder.rs", "AtomCache"),
    ("crates/edp_node/src/node.rs", "Node"),
    ("crates/edp_node/src/process.rs", "ProcessHandle"),
    ("crates/edp_node/src/process.rs", "ExitSet"),
    ("crates/edp_node/src/registry.rs", "ProcessRegistry"),
    ("crates/edp_node/src/mailbox.rs", "Mailbox"),
    ("crates/edp_node/src/gen_server.rs", "GenServerProcess"),
    ("crates/edp_node/src/gen_event.rs", "GenEventManager"),
]

STATIC_FILES = [
    "crates/erltf/src/encoder.rs", "crates/erltf/src/decoder.rs", "crates/erltf/src/borrowed.rs",
    "crates/edp_client/src/connection.rs", "crates/edp_client/src/framing.rs", "crates/edp_client/src/transport.rs",
    "crates/edp_client/src/fragmentation.rs", "crates/edp_client/src/control.rs", "crates/edp_client/src/handshake.rs",
    "crates/edp_client/src/state_machine.rs", "crates/edp_client/src/digest.rs", "crates/edp_client/src/pid_allocator.rs",
    "crates/edp_node/src/node.rs", "crates/edp_node/src/process.rs", "crates/edp_node/src/registry.rs",
    "crates/edp_node/src/mailbox.rs", "crates/edp_node/src/gen_server.rs", "crates/edp_node/src/gen_event.rs",
    "crates/erltf_serde/src/ser.rs",
]



def gen_state(read, num):
    """The state the code keeps: the fields (name: type) of every struct that a model carries as state, and every
    `static` / `thread_local!` / `OnceLock` / `LazyLock` / `lazy_static!` item in the modelled source files.  The models'
    state components are compared with these lists by `decide` theorems (Props/C04, C06, C09, C16, C18, C19, ...): a new
    field, a changed type or a new piece of process-wide state is state the model does not know about."""
    broken, lines = [], []

    def strs(xs):
        return "[" + ", ".join('"' + x.replace("\\", "\\\\").replace('"', '\\"') + '"' for x in xs) + "]"

    def strip(text):
        text = re.sub(r"//[^\n]*", "", text)
        return re.sub(r"/\*.*?\*/", "", text, flags=re.S)

    for path, name in STATE_STRUCTS:
        src = read(path)
        fields = []
        if src is None:
            broken.append(f"{path} missing")
        else:
            m = re.search(r"\bstruct\s+" + name + r"\b[^{;]*\{", strip(src))
            if not m:
                broken.append(f"struct {name} not found in {path}")
            else:
                text = strip(src)
                i, depth, j = m.end(), 1, m.end()
                while j < len(text) and depth:
                    depth += {"{": 1, "}": -1}.get(text[j], 0)
                    j += 1
                body = re.sub(r"#\[[^\]]*\]", "", text[i:j - 1])
                # split on top-level commas
                parts, cur, d = [], "", 0
                for ch in body:
                    if ch in "<([{":
                        d += 1
                    elif ch in ">)]}":
                        d -= 1
                    if ch == "," and d == 0:
                        parts.append(cur)
                        cur = ""
                    else:
                        cur += ch
                parts.append(cur)
                for part in parts:
                    part = re.sub(r"\s+", "", re.sub(r"\bpub(\([a-z]+\))?\s+", "", part.strip()))
                    if part:
                        fields.append(part)
        lines.append(f"/-- fields of `struct {name}` ({path}) as `name:type` -/")
        lines.append(f"def STRUCT_{name} : List String := {strs(fields)}")
        lines.append("")
    statics = []
    for path in STATIC_FILES:
        src = read(path)
        if src is None:
            broken.append(f"{path} missing")
            continue
        text = strip(src)
        short = path.split("/src/")[0].split("/")[-1] + "/" + path.split("/")[-1]
        for m in re.finditer(r"\b(thread_local!|lazy_static!|static\s+(?:mut\s+)?[A-Z_0-9]+|OnceLock|OnceCell|LazyLock|LazyCell)\b", text):
            w = re.sub(r"\s+", " ", m.group(1))
            if text[max(0, m.start() - 4):m.start()] == "use " or re.search(r"use [^;]*$", text[max(0, m.start() - 120):m.start()]):
                continue
            statics.append(short + ":" + w)
    lines.append("/-- every process-wide item (`static`, `thread_local!`, once-cells) in the modelled source files, as `crate/file:item` -/")
    lines.append(f"def PROCESS_WIDE_STATE : List String := {strs(statics)}")
    lines.append("")
    return lines, broken



def _struct_fields(src, name):
    """{field: type} of `pub struct <name> { pub f: T, ... }` (None if not found)."""
    m = re.search(r"pub\s+struct\s+" + name + r"\s*\{(.*?)\n\}", src, re.S)
    if not m:
        return None
    body = re.sub(r"//[^\n]*", "", m.group(1))
    return dict(re.findall(r"(?:pub\s+)?([a-z_]+)\s*:\s*([A-Za-z0-9_<>]+)\s*,", body))


def gen_c20(read, num):
    """C20 (Elixir wrappers) part: for every struct wrapper of range.rs / map_set.rs / date_time.rs the module atom, the keys
    its `From<T> for OwnedTerm` inserts (in order) and the integer keys its `from_term` reads with the Rust type of the field
    each goes to; for exceptions.rs the keys of `exception_base` and of every `to_term`; the limits of the checked
    constructors (`try_new`), the leap-year rule, the day table, the precision clamp, and the `Elixir.` prefix."""
    broken = []
    lines = []
    wrappers = [("range.rs", "ElixirRange", "RANGE"), ("map_set.rs", "ElixirMapSet", "MAPSET"), ("date_time.rs", "ElixirDate", "DATE"),
                ("date_time.rs", "ElixirTime", "TIME"), ("date_time.rs", "ElixirNaiveDateTime", "NAIVE"),
                ("date_time.rs", "ElixirDateTime", "DATETIME")]
    int_ranges = {"i64": (-(1 << 63), (1 << 63) - 1), "i32": (-(1 << 31), (1 << 31) - 1), "u8": (0, 255), "u32": (0, (1 << 32) - 1)}
    srcs = {}
    for f in ("range.rs", "map_set.rs", "date_time.rs", "exceptions.rs", "builders.rs"):
        srcs[f] = read("crates/edp_elixir_terms/src/" + f)
        if srcs[f] is None:
            broken.append(f"{f} missing")
    for f, ty, tag in wrappers:
        src = srcs.get(f)
        module, keys, reads = "", [], []
        if src is not None:
            body = _fn_body(src, r"impl\s+From<" + ty + r">\s+for\s+OwnedTerm\s*\{")
            if body is None:
                broken.append(f"{f}: impl From<{ty}> for OwnedTerm not found")
            else:
                b = _strip_ws(body)
                ins = re.findall(r"[a-z_]*map\.insert\(OwnedTerm::Atom\(Atom::new\(\"([^\"]*)\"\)\),", b)
                keys = ins
                if b.count("map.insert(") != len(ins):
                    broken.append(f"{f}: From<{ty}>: an insert whose key is not a literal atom")
                mm = re.search(r"Atom::new\(\"__struct__\"\)\),OwnedTerm::Atom\(Atom::new\(\"([^\"]*)\"\)\)", b)
                if mm:
                    module = mm.group(1)
                else:
                    broken.append(f"{f}: From<{ty}>: __struct__ value not found")
            impl = _fn_body(src, r"impl\s+" + ty + r"\s*\{")
            ft = _fn_body(impl or "", r"pub\s+fn\s+from_term\s*\(")
            if ft is None:
                broken.append(f"{f}: {ty}::from_term not found")
            else:
                b = _strip_ws(ft)
                mm = re.search(r"elixir_struct_module\(\)!=Some\(\"([^\"]*)\"\)\{returnNone;\}", b)
                if not mm or mm.group(1) != module:
                    broken.append(f"{f}: {ty}::from_term does not reject a foreign __struct__ with `!= Some(\"{module}\")`")
                fields = _struct_fields(src, ty)
                if fields is None:
                    broken.append(f"{f}: pub struct {ty} not found")
                    fields = {}
                for var, key in re.findall(r"let([a-z_]+)=integer_field\(map,\"([^\"]*)\"\)\?;", b):
                    t = fields.get(var)
                    if t not in int_ranges:
                        broken.append(f"{f}: {ty}::from_term reads `{key}` into `{var}` whose type is not a known integer type")
                        continue
                    reads.append((key, t))
                if "integer_field(" in b and b.count("integer_field(") != len(reads):
                    broken.append(f"{f}: {ty}::from_term: an integer_field call of another shape")
                if tag in ("TIME", "NAIVE", "DATETIME"):
                    if not re.search(r"ifletSome\(us\)=map\.get\(&OwnedTerm::Atom\(Atom::new\(\"microsecond\"\)\)\)\{let\(val,prec\)=us\.as_2_tuple\(\)\?;\(integer\(val\)\?,integer\(prec\)\?\)\}else\{\(0,0\)\}", b):
                        broken.append(f"{f}: {ty}::from_term: the microsecond reader changed shape")
                    if fields.get("microsecond_value") != "u32" or fields.get("microsecond_precision") != "u8":
                        broken.append(f"{f}: {ty}: microsecond field types changed")
        lines.append(f"def C20_{tag}_MODULE : List UInt8 := {_bytes_lit(module)}")
        lines.append(f"def C20_{tag}_KEYS : List (List UInt8) := [" + ", ".join(_bytes_lit(k) for k in keys) + "]")
        lines.append(f"def C20_{tag}_INT_FIELDS : List (List UInt8 × Int × Int) := [" +
                     ", ".join(f"({_bytes_lit(k)}, {int_ranges[t][0]}, {int_ranges[t][1]})" for k, t in reads) + "]")
    # exceptions
    ex = srcs.get("exceptions.rs")
    base_keys, exc = [], []
    prefix = ""
    if ex is not None:
        body = _fn_body(ex, r"fn\s+exception_base\s*\(")
        if body is None:
            broken.append("exceptions.rs: fn exception_base not found")
        else:
            base_keys = re.findall(r"map\.insert\(OwnedTerm::Atom\(Atom::new\(\"([^\"]*)\"\)\),", _strip_ws(body))
        for m in re.finditer(r"impl\s+ElixirExceptionExt\s+for\s+([A-Za-z]+)\s*\{", ex):
            name = m.group(1)
            body = _fn_body(ex[m.start():], r"impl\s+ElixirExceptionExt\s+for\s+" + name + r"\s*\{")
            b = _strip_ws(body or "")
            mm = re.search(r"fnmodule_name\(\)->&'staticstr\{\"([^\"]*)\"\}", b)
            if not mm:
                broken.append(f"exceptions.rs: {name}::module_name not found")
                continue
            ks = []
            for k in re.findall(r"map\.insert\(OwnedTerm::Atom\(Atom::new\(\"([^\"]*)\"\)\),", b):
                if k not in ks:
                    ks.append(k)
            if "exception_base(Self::module_name())" not in b:
                broken.append(f"exceptions.rs: {name}::to_term no longer starts from exception_base(Self::module_name())")
            exc.append((name, mm.group(1), ks))
        if not exc:
            broken.append("exceptions.rs: no impl ElixirExceptionExt found")
        mm = re.search(r"strip_prefix\(\"([^\"]*)\"\)", _fn_body(ex, r"fn\s+without_elixir_prefix\s*\(") or "")
        if mm:
            prefix = mm.group(1)
        else:
            broken.append("exceptions.rs: without_elixir_prefix: strip_prefix(\"…\") not found")
        if ex.count('format!("Elixir.{') < 2:
            broken.append("exceptions.rs: to_term no longer writes module atoms with format!(\"Elixir.{…}\")")
    lines.append("def C20_EXC_BASE_KEYS : List (List UInt8) := [" + ", ".join(_bytes_lit(k) for k in base_keys) + "]")
    lines.append("def C20_EXCEPTIONS : List (List UInt8 × List (List UInt8)) := [" +
                 ", ".join(f"({_bytes_lit(mod)}, [" + ", ".join(_bytes_lit(k) for k in ks) + "])" for _, mod, ks in exc) + "]")
    lines.append(f"def C20_ELIXIR_PREFIX : List UInt8 := {_bytes_lit(prefix)}")
    # checked constructors
    dt = srcs.get("date_time.rs")
    lim = {"MONTH_LO": 0, "MONTH_HI": 0, "HOUR": 0, "MINUTE": 0, "SECOND": 0, "MICRO": 0, "PRECISION": 0, "CLAMP": 0}
    days = []
    leap = []
    if dt is not None:
        impl = _fn_body(dt, r"impl\s+ElixirDate\s*\{") or ""
        tn = _strip_ws(_fn_body(impl, r"pub\s+fn\s+try_new\s*\(") or "")
        mm = re.search(r"if!\((\d+)\.\.=(\d+)\)\.contains\(&month\)\{returnNone;\}", tn)
        if mm:
            lim["MONTH_LO"], lim["MONTH_HI"] = num(mm.group(1)), num(mm.group(2))
        else:
            broken.append("date_time.rs: ElixirDate::try_new: month range test not found")
        mm = re.search(r"letmax_day=matchmonth\{(.*?)_=>returnNone,\};", tn)
        if not mm:
            broken.append("date_time.rs: ElixirDate::try_new: `match month` not found")
        else:
            arms = mm.group(1)
            for pat, val in re.findall(r"([0-9|]+)=>(\d+|\{ifSelf::is_leap_year\(year\)\{\d+\}else\{\d+\}\}),?", arms):
                ms = [num(x) for x in pat.split("|")]
                if val.startswith("{"):
                    a, b2 = re.findall(r"\{(\d+)\}", val)
                    for mth in ms:
                        days.append((mth, num(b2), num(a)))
                else:
                    for mth in ms:
                        days.append((mth, num(val), num(val)))
            days.sort()
        if "ifday<1||day>max_day{returnNone;}" not in tn:
            broken.append("date_time.rs: ElixirDate::try_new: day test `day < 1 || day > max_day` not found")
        ly = _strip_ws(_fn_body(impl, r"pub\s+fn\s+is_leap_year\s*\(") or "")
        mm = re.fullmatch(r"\(year%(\d+)==0&&year%(\d+)!=0\)\|\|\(year%(\d+)==0\)", ly)
        if mm:
            leap = [num(mm.group(i)) for i in (1, 2, 3)]
        else:
            broken.append("date_time.rs: is_leap_year changed shape")
        timpl = _fn_body(dt, r"impl\s+ElixirTime\s*\{") or ""
        tt = _strip_ws(_fn_body(timpl, r"pub\s+fn\s+try_new\s*\(") or "")
        mm = re.search(r"ifhour>(\d+)\|\|minute>(\d+)\|\|second>(\d+)\{returnNone;\}ifmicrosecond>([0-9_]+)\{returnNone;\}ifprecision>(\d+)\{returnNone;\}", tt)
        if mm:
            lim["HOUR"], lim["MINUTE"], lim["SECOND"], lim["MICRO"], lim["PRECISION"] = (num(mm.group(i)) for i in range(1, 6))
        else:
            broken.append("date_time.rs: ElixirTime::try_new tests changed shape")
        clamps = re.findall(r"microsecond_precision:precision\.min\((\d+)\)", _strip_ws(dt))
        if len(clamps) == 4 and len(set(clamps)) == 1:
            lim["CLAMP"] = num(clamps[0])
        else:
            broken.append("date_time.rs: the four unchecked constructors no longer clamp the precision with `.min(n)`")
        for ty in ("ElixirNaiveDateTime", "ElixirDateTime"):
            im = _fn_body(dt, r"impl\s+" + ty + r"\s*\{") or ""
            fn = "try_new" if ty == "ElixirNaiveDateTime" else "try_utc"
            b = _strip_ws(_fn_body(im, r"pub\s+fn\s+" + fn + r"\s*\(") or "")
            if not b.startswith("ElixirDate::try_new(year,month,day)?;ElixirTime::try_new(hour,minute,second,microsecond,precision)?;"):
                broken.append(f"date_time.rs: {ty}::{fn} no longer validates through ElixirDate::try_new and ElixirTime::try_new")
    for k, v in lim.items():
        lines.append(f"def C20_{k} : Int := {v}")
    lines.append("/-- (month, days in a common year, days in a leap year) -/")
    lines.append("def C20_DAYS : List (Int × Int × Int) := [" + ", ".join(f"({a}, {b}, {c})" for a, b, c in days) + "]")
    lines.append("def C20_LEAP_RULE : List Int := [" + ", ".join(str(x) for x in leap) + "]")
    return lines, broken


def _const_product(src, name, ty="usize"):
    """value of `const NAME: ty = a * b * c;` (a product of integer literals), None when the pattern does not match"""
    m = re.search(r"(?:pub\s+)?const\s+" + name + r"\s*:\s*" + ty + r"\s*=\s*([0-9_]+(?:\s*\*\s*[0-9_]+)*)\s*;", src)
    if not m:
        return None
    v = 1
    for f in m.group(1).split("*"):
        v *= int(f.strip().replace("_", ""))
    return v


def _mode_arms(body):
    """`FrameMode::X => <text up to the arm's end>` for the two modes of a `match self.mode`/`match self` (whitespace removed)"""
    text = re.sub(r"//[^\n]*", "", body)
    text = re.sub(r"\s+", "", text)
    arms = {}
    for mode in ("Handshake", "Distribution"):
        i = text.find("FrameMode::" + mode + "=>")
        if i < 0:
            return None
        j = i + len("FrameMode::" + mode + "=>")
        if j < len(text) and text[j] == "{":
            depth = 0
            for k in range(j, len(text)):
                if text[k] == "{":
                    depth += 1
                elif text[k] == "}":
                    depth -= 1
                    if depth == 0:
                        arms[mode] = text[j:k + 1]
                        break
        else:
            k = text.find(",", j)
            arms[mode] = text[j:k if k >= 0 else len(text)]
    return arms if len(arms) == 2 else None


def _steps(text, marks):
    """names of the marks (name, literal) found in text, ordered by first position; a missing one is reported"""
    found = []
    missing = []
    for name, lit in marks:
        i = text.find(lit)
        if i < 0:
            missing.append(name)
        else:
            found.append((i, name))
    return [n for _, n in sorted(found)], missing


def gen_c05(read, num):
    """C05 part: the constants of framing.rs / connection.rs / transport.rs the framing model depends on (the two caps, the
    width of the length prefix as each of the five places that use it has it, the pass-through marker), the order of the steps
    of `read_framed`, `write_framed` and `receive_message_from_read_half`, and where the timeouts are placed."""
    broken = []
    lines = []
    W = {"u16": 2, "u32": 4}
    vals = {"FRAMING_MAX": 0, "CONN_MAX": 0, "PASS": 0}
    psize = {"Handshake": 0, "Distribution": 0}
    fw = {"Handshake": 0, "Distribution": 0}     # frame_message
    ww = {"Handshake": 0, "Distribution": 0}     # write_framed
    rw = {"Handshake": 0, "Distribution": 0}     # read_framed
    read_steps, write_steps, rh_steps = [], [], []
    rh_width = 0
    rh_timeouts = 0
    rh_tick_continue = False
    tr_read = tr_write = tr_raw = False
    timeout_recoverable = False
    send_raw_cap = False
    fr = read("crates/edp_client/src/framing.rs")
    if fr is None:
        broken.append("framing.rs missing")
    else:
        v = _const_product(fr, "MAX_MESSAGE_SIZE")
        if v is None:
            broken.append("const MAX_MESSAGE_SIZE: usize = <product>; not found in framing.rs")
        else:
            vals["FRAMING_MAX"] = v
        body = _fn_body(fr, r"pub\s+fn\s+length_prefix_size\s*\(\s*&self\s*\)\s*->\s*usize\s*\{")
        arms = _mode_arms(body) if body else None
        if not arms or not all(re.fullmatch(r"[0-9_]+", a) for a in arms.values()):
            broken.append("FrameMode::length_prefix_size: `FrameMode::Handshake => <n>, FrameMode::Distribution => <n>` not found")
        else:
            psize = {k: num(a) for k, a in arms.items()}
        body = _fn_body(fr, r"pub\s+fn\s+frame_message\s*\(\s*&self\s*,\s*data\s*:\s*&\[u8\]\s*\)\s*->\s*Vec<u8>\s*\{")
        arms = _mode_arms(body) if body else None
        if not arms:
            broken.append("frame_message: match over the two frame modes not found")
        else:
            for k, a in arms.items():
                m = re.search(r"letlen=data\.len\(\)as(u16|u32);.*b\.put_(u16|u32)\(len\);", a)
                if not m or m.group(1) != m.group(2):
                    broken.append(f"frame_message/{k}: `let len = data.len() as uN; … b.put_uN(len);` not found")
                else:
                    fw[k] = W[m.group(1)]
            t = re.sub(r"\s+", "", re.sub(r"//[^\n]*", "", body))
            if "buf.put_slice(data);buf.to_vec()" not in t:
                broken.append("frame_message no longer ends with `buf.put_slice(data); buf.to_vec()`")
        body = _fn_body(fr, r"pub\s+async\s+fn\s+write_framed\s*<[^>]*>\s*\(")
        # _fn_body starts at the first `{` after the header match: the generic parameter list has none
        arms = _mode_arms(body) if body else None
        if not arms:
            broken.append("write_framed: match over the two frame modes not found")
        else:
            for k, a in arms.items():
                m = re.search(r"letlen=data\.len\(\)as(u16|u32);writer\.write_(u16|u32)\(len\)\.await\?;", a)
                if not m or m.group(1) != m.group(2):
                    broken.append(f"write_framed/{k}: `let len = data.len() as uN; writer.write_uN(len).await?;` not found")
                else:
                    ww[k] = W[m.group(1)]
            t = re.sub(r"\s+", "", re.sub(r"//[^\n]*", "", body))
            write_steps, missing = _steps(t, (("len", "matchself.mode{"), ("data", "writer.write_all(data).await?;"),
                                              ("flush", "writer.flush().await?;")))
            if missing:
                broken.append("write_framed: step(s) not found: " + ", ".join(missing))
            if len(re.findall(r"writer\.", t)) != 4:
                broken.append("write_framed touches the writer in other places than write_u16/write_u32/write_all/flush")
        body = _fn_body(fr, r"pub\s+async\s+fn\s+read_framed\s*<[^>]*>\s*\(")
        arms = _mode_arms(body) if body else None
        if not arms:
            broken.append("read_framed: match over the two frame modes not found")
        else:
            a = arms["Handshake"]
            if "letlen=reader.read_u16().await?;" in a and "lenasusize" in a:
                rw["Handshake"] = 2
            else:
                m = re.search(r"letmutlen_bytes=\[0u8;([0-9]+)\];reader\.read_exact\(&mutlen_bytes\)\.await\?;letlen=(u16|u32)::from_be_bytes\(len_bytes\);", a)
                if m and num(m.group(1)) == W[m.group(2)]:
                    rw["Handshake"] = W[m.group(2)]
                else:
                    broken.append("read_framed/Handshake: length read not recognised")
            a = arms["Distribution"]
            m = re.search(r"letmutlen_bytes=\[0u8;([0-9]+)\];reader\.read_exact\(&mutlen_bytes\)\.await\?;letlen=(u16|u32)::from_be_bytes\(len_bytes\);", a)
            if m and num(m.group(1)) == W[m.group(2)] and "lenasusize" in a:
                rw["Distribution"] = W[m.group(2)]
            elif "letlen=reader.read_u32().await?;" in a:
                rw["Distribution"] = 4
            else:
                broken.append("read_framed/Distribution: length read not recognised")
            t = re.sub(r"\s+", "", re.sub(r"//[^\n]*", "", body))
            read_steps, missing = _steps(t, (("len", "letlen=matchself.mode{"), ("tick", "iflen==0{"),
                                             ("cap", "iflen>MAX_MESSAGE_SIZE{"), ("alloc", "letmutbuf=vec![0u8;len];"),
                                             ("body", "reader.read_exact(&mutbuf).await?;")))
            if missing:
                broken.append("read_framed: step(s) not found: " + ", ".join(missing))
            if not re.search(r"iflen==0\{(?:trace!\([^;]*\);)?returnOk\(Vec::new\(\)\);\}", t):
                broken.append("read_framed: the zero-length branch is no longer `return Ok(Vec::new())`")
            if not re.search(r"iflen>MAX_MESSAGE_SIZE\{returnErr\(", t):
                broken.append("read_framed: the over-cap branch is no longer `return Err(…)`")
            if not t.endswith("Ok(buf)"):
                broken.append("read_framed no longer ends with `Ok(buf)`")
    conn = read("crates/edp_client/src/connection.rs")
    if conn is None:
        broken.append("connection.rs missing")
    else:
        v = _const_product(conn, "MAX_MESSAGE_SIZE")
        if v is None:
            broken.append("const MAX_MESSAGE_SIZE: usize = <product>; not found in connection.rs")
        else:
            vals["CONN_MAX"] = v
        m = re.search(r"const\s+PASS_THROUGH\s*:\s*u8\s*=\s*([0-9_]+)\s*;", conn)
        if not m:
            broken.append("const PASS_THROUGH: u8 = <n>; not found in connection.rs")
        else:
            vals["PASS"] = num(m.group(1))
        body = _fn_body(conn, r"pub\s+async\s+fn\s+receive_message_from_read_half\s*\(")
        if body is None:
            broken.append("receive_message_from_read_half not found in connection.rs")
        else:
            t = re.sub(r"\s+", "", re.sub(r"//[^\n]*", "", body))
            m = re.search(r"letmutlen_bytes=\[0u8;([0-9]+)\];tokio::time::timeout\(timeout,read_half\.read_exact\(&mutlen_bytes\)\)\.await\.map_err\(\|_\|Error::Timeout\(timeout\)\)\?\?;letlen=(u16|u32)::from_be_bytes\(len_bytes\);", t)
            if m and num(m.group(1)) == W[m.group(2)]:
                rh_width = W[m.group(2)]
            else:
                broken.append("receive_message_from_read_half: `[0u8; N]` + timeout(read_exact) + `uN::from_be_bytes` not found")
            rh_steps, missing = _steps(t, (("len", "letlen={"), ("tick", "iflen==0{"), ("cap", "iflen>MAX_MESSAGE_SIZE{"),
                                           ("alloc", "letmutbuf=vec![0u8;len];"),
                                           ("body", "tokio::time::timeout(timeout,read_half.read_exact(&mutbuf))"),
                                           ("marker", "ifpass_through_marker!=PASS_THROUGH{"),
                                           ("decode", "decoder::decode_with_trailing(control_and_payload)?")))
            if missing:
                broken.append("receive_message_from_read_half: step(s) not found: " + ", ".join(missing))
            rh_timeouts = len(re.findall(r"tokio::time::timeout\(timeout,read_half\.read_exact\(", t))
            if len(re.findall(r"read_half\.", t)) != rh_timeouts:
                broken.append("receive_message_from_read_half reads from the socket outside `timeout(timeout, read_half.read_exact(..))`")
            rh_tick_continue = bool(re.search(r"iflen==0\{(?:trace!\([^;]*\);)?continue;\}", t)) and t.startswith("loop{")
            if "letpass_through_marker=buf[0];" not in t or "letcontrol_and_payload=&buf[1..];" not in t:
                broken.append("receive_message_from_read_half: marker = buf[0], rest = &buf[1..] not found")
        body = _fn_body(conn, r"pub\s+async\s+fn\s+send_raw\s*\(")
        if body is not None:
            t = re.sub(r"\s+", "", body)
            send_raw_cap = "ifdata.len()>MAX_MESSAGE_SIZE{returnErr(Error::MessageTooLarge{" in t
    tr = read("crates/edp_client/src/transport.rs")
    if tr is None:
        broken.append("transport.rs missing")
    else:
        t = re.sub(r"\s+", "", re.sub(r"//[^\n]*", "", tr))
        tr_read = "tokio::time::timeout(self.timeout,self.deframer.read_framed(stream)).await.map_err(|_|Error::Timeout(self.timeout))?.map_err(Error::Io)" in t
        tr_write = "tokio::time::timeout(self.timeout,self.framer.write_framed(stream,data)).await.map_err(|_|Error::Timeout(self.timeout))?.map_err(Error::Io)" in t
        tr_raw = "tokio::time::timeout(self.timeout,async{stream.write_all(data).await?;stream.flush().await}).await.map_err(|_|Error::Timeout(self.timeout))?.map_err(Error::Io)" in t
        if not (tr_read and tr_write and tr_raw):
            broken.append("transport.rs: read/write/write_raw are no longer `timeout(self.timeout, <framed op>)` mapped to Error::Timeout / Error::Io")
        if "framer:MessageFramer::new(FrameMode::Handshake),deframer:MessageDeframer::new(FrameMode::Handshake)," not in t:
            broken.append("FramedTransport::new no longer starts both halves in handshake mode")
        if "pubfnset_frame_mode(&mutself,mode:FrameMode){self.framer.set_mode(mode);self.deframer.set_mode(mode);}" not in t:
            broken.append("FramedTransport::set_frame_mode no longer sets framer and deframer to the same mode")
    er = read("crates/edp_client/src/errors.rs")
    if er is None:
        broken.append("errors.rs missing")
    else:
        body = _fn_body(er, r"pub\s+fn\s+is_recoverable\s*\(\s*&self\s*\)\s*->\s*bool\s*\{")
        if body is None:
            broken.append("Error::is_recoverable not found")
        else:
            t = re.sub(r"\s+", "", body)
            timeout_recoverable = t.startswith("matches!(self,") and "Error::Timeout(_)" in t

    def strs(xs):
        return "[" + ", ".join('"' + x + '"' for x in xs) + "]"

    def b(x):
        return "true" if x else "false"

    lines.append("/-- `MAX_MESSAGE_SIZE` of crates/edp_client/src/framing.rs (cap of `MessageDeframer::read_framed`) -/")
    lines.append(f"def FRAMING_MAX_MESSAGE_SIZE : Nat := {vals['FRAMING_MAX']}")
    lines.append("/-- `MAX_MESSAGE_SIZE` of crates/edp_client/src/connection.rs (cap of `receive_message_from_read_half` and `send_raw`) -/")
    lines.append(f"def CONN_MAX_MESSAGE_SIZE : Nat := {vals['CONN_MAX']}")
    lines.append("/-- `PASS_THROUGH` of connection.rs -/")
    lines.append(f"def CONN_PASS_THROUGH : Nat := {vals['PASS']}")
    lines.append("/-- width in bytes of the length prefix per frame mode (handshake, distribution) as each place of framing.rs has it:")
    lines.append("`FrameMode::length_prefix_size`, `frame_message` (`as uN` + `put_uN`), `write_framed` (`as uN` + `write_uN`),")
    lines.append("`read_framed` (`read_u16` / `[0u8; N]` + `uN::from_be_bytes`) -/")
    lines.append(f"def FRAME_PREFIX_SIZE : Nat × Nat := ({psize['Handshake']}, {psize['Distribution']})")
    lines.append(f"def FRAME_MESSAGE_WIDTH : Nat × Nat := ({fw['Handshake']}, {fw['Distribution']})")
    lines.append(f"def WRITE_FRAMED_WIDTH : Nat × Nat := ({ww['Handshake']}, {ww['Distribution']})")
    lines.append(f"def READ_FRAMED_WIDTH : Nat × Nat := ({rw['Handshake']}, {rw['Distribution']})")
    lines.append("/-- width of the length prefix read by `Connection::receive_message_from_read_half` -/")
    lines.append(f"def RH_PREFIX_WIDTH : Nat := {rh_width}")
    lines.append("/-- the steps of `read_framed`, `write_framed`, `receive_message_from_read_half` in textual order -/")
    lines.append(f"def READ_FRAMED_STEPS : List String := {strs(read_steps)}")
    lines.append(f"def WRITE_FRAMED_STEPS : List String := {strs(write_steps)}")
    lines.append(f"def RH_STEPS : List String := {strs(rh_steps)}")
    lines.append("/-- number of `timeout(timeout, read_half.read_exact(..))` in the second copy (every socket read is one of them) -/")
    lines.append(f"def RH_TIMEOUT_READS : Nat := {rh_timeouts}")
    lines.append("/-- the second copy is a `loop` whose zero-length branch is `continue` -/")
    lines.append(f"def RH_TICK_CONTINUES : Bool := {b(rh_tick_continue)}")
    lines.append("/-- `FramedTransport::read` / `write` / `write_raw` are `timeout(self.timeout, <the framed operation>)` -/")
    lines.append(f"def TRANSPORT_OPS_UNDER_TIMEOUT : Bool := {b(tr_read and tr_write and tr_raw)}")
    lines.append("/-- `Error::is_recoverable` lists `Error::Timeout(_)` -/")
    lines.append(f"def TIMEOUT_IS_RECOVERABLE : Bool := {b(timeout_recoverable)}")
    lines.append("/-- `Connection::send_raw` refuses `data.len() > MAX_MESSAGE_SIZE` before writing -/")
    lines.append(f"def SEND_RAW_CHECKS_CAP : Bool := {b(send_raw_cap)}")
    lines.append("")
    return lines, broken


def gen_c08(read, num):
    """C08 part: the constructor functions of `impl ControlMessage` (`pub fn name(params..) -> Self { ControlMessage::V { inits } }`),
    i.e. every `pub fn` of that impl that returns `Self`: name, parameter names in order, the variant built, and which
    parameter initialises which field."""
    broken = []
    lines = []
    ctors = []
    src = read("crates/edp_client/src/control.rs")
    if src is None:
        broken.append("control.rs missing")
    else:
        body = _fn_body(src, r"\nimpl\s+ControlMessage\s*\{")
        if body is None:
            broken.append("impl ControlMessage { .. } not found in control.rs")
        else:
            text = re.sub(r"//[^\n]*", "", body)
            for m in re.finditer(r"pub\s+fn\s+([a-z_0-9]+)\s*\(([^)]*)\)\s*->\s*Self\s*\{", text):
                name = m.group(1)
                params = []
                ok = True
                for part in [x.strip() for x in m.group(2).split(",") if x.strip()]:
                    pm = re.fullmatch(r"([a-z_0-9]+)\s*:\s*OwnedTerm", part)
                    if not pm:
                        ok = False
                        break
                    params.append(pm.group(1))
                if not ok:
                    if "self" in m.group(2):
                        continue    # a method (into_term), not a constructor
                    broken.append(f"constructor {name}: a parameter is not `<name>: OwnedTerm`")
                    continue
                fb = _fn_body(text[m.start():], r"pub\s+fn\s+" + name + r"\s*\([^)]*\)\s*->\s*Self\s*\{")
                t = re.sub(r"\s+", "", fb or "")
                bm = re.fullmatch(r"ControlMessage::([A-Za-z0-9]+)\{([^{}]*)\}", t)
                if not bm:
                    broken.append(f"constructor {name}: body is not `ControlMessage::V {{ field inits }}`")
                    continue
                inits = []
                for it in [x for x in bm.group(2).split(",") if x]:
                    im = re.fullmatch(r"([a-z_0-9]+)(?::([a-z_0-9]+))?", it)
                    if not im:
                        broken.append(f"constructor {name}: initialiser `{it}` is not `field` or `field: param`")
                        inits = None
                        break
                    inits.append((im.group(1), im.group(2) or im.group(1)))
                if inits is None:
                    continue
                ctors.append((name, params, bm.group(1), inits))
            if not ctors:
                broken.append("no constructor (`pub fn .. -> Self`) found in impl ControlMessage")

    def strs(xs):
        return "[" + ", ".join('"' + x + '"' for x in xs) + "]"

    lines.append("/-- the constructors of `impl ControlMessage` in control.rs: (name, parameters, variant, (field, parameter) initialisers) -/")
    lines.append("def CONTROL_CONSTRUCTORS : List (String × List String × String × List (String × String)) := [")
    rows = []
    for name, params, variant, inits in ctors:
        ins = "[" + ", ".join(f'("{f}", "{q}")' for f, q in inits) + "]"
        rows.append(f'  ("{name}", {strs(params)}, "{variant}", {ins})')
    lines.append(",\n".join(rows) + "]")
    lines.append("")
    return lines, broken


def gen_c10(read, num):
    """C10 (and C13's conversion clause) part: the three identifier structs of types.rs — their fields, what they derive, which
    fields `eq` / `hash` / `cmp` look at, what `with_local_ext_bytes` stores — the arms of `BorrowedTerm::to_owned`,
    `From<&OwnedTerm>` and `is_borrowed` in borrowed.rs, how the three identifier encoders replay the preserved bytes, and what
    `parse_local_ext` keeps.  Impl/Convert.lean transcribes exactly this."""
    broken = []
    lines = []
    types = read("crates/erltf/src/types.rs")
    bor = read("crates/erltf/src/borrowed.rs")
    enc = read("crates/erltf/src/encoder.rs")
    dec = read("crates/erltf/src/decoder.rs")
    structs = {}
    variants, to_arms, from_arms, isb_arms, id_copy, enc_replay, local_keep = [], [], [], [], [], [], []
    if types is None or bor is None or enc is None or dec is None:
        broken.append("types.rs, borrowed.rs, encoder.rs or decoder.rs missing")
    else:
        types_t, bor_t, enc_t, dec_t = _strip(types), _strip(bor), _strip(enc), _strip(dec)
        for name in ("ExternalPid", "ExternalPort", "ExternalReference"):
            m = re.search(r"#\[derive\(([^)]*)\)\]\s*pub\s+struct\s+" + name + r"\s*\{([^}]*)\}", types_t)
            if not m:
                broken.append(f"struct {name} with its derive list not found in types.rs")
                continue
            derives = [d.strip() for d in m.group(1).split(",") if d.strip()]
            fields = re.findall(r"pub\s+([a-z_0-9]+)\s*:", m.group(2))
            manual_clone = bool(re.search(r"impl\s+Clone\s+for\s+" + name + r"\b", types_t))
            eqb = _fn_body(types_t, r"impl\s+PartialEq\s+for\s+" + name + r"\s*\{") or ""
            eq_fields = re.findall(r"self\.([a-z_0-9]+)\s*==\s*other\.\1", eqb)
            hb = _fn_body(types_t, r"impl\s+Hash\s+for\s+" + name + r"\s*\{") or ""
            hash_fields = re.findall(r"self\.([a-z_0-9]+)\.hash\(state\)", hb)
            ob = _fn_body(types_t, r"impl\s+Ord\s+for\s+" + name + r"\s*\{") or ""
            mo = re.search(r"\(([^()]*)\)\s*\.cmp\(", ob)
            ord_fields = re.findall(r"self\.([a-z_0-9]+)", mo.group(1)) if mo else []
            if not eqb or not hb or not mo:
                broken.append(f"{name}: hand-written PartialEq / Hash / Ord (tuple comparison) not found")
            ib = _fn_body(types_t, r"impl\s+" + name + r"\s*\{") or ""
            wb = _fn_body(ib, r"fn\s+with_local_ext_bytes\s*\(") or ""
            keeps = bool(re.search(r"local_ext_bytes\s*:\s*Some\(\s*local_ext_bytes\.into\(\)\s*\)", wb))
            nb = _fn_body(ib, r"fn\s+new\s*\(") or ""
            new_none = bool(re.search(r"local_ext_bytes\s*:\s*None", nb))
            structs[name] = (fields, derives, manual_clone, eq_fields, hash_fields, ord_fields, keeps, new_none)
        em = re.search(r"pub\s+enum\s+BorrowedTerm\s*<'a>\s*\{", bor_t)
        eb = _fn_body(bor_t, r"pub\s+enum\s+BorrowedTerm\s*<'a>\s*\{") if em else None
        if eb is None:
            broken.append("enum BorrowedTerm not found in borrowed.rs")
        else:
            flat = re.sub(r"\{[^{}]*\}", "", eb)
            variants = re.findall(r"\b([A-Z][A-Za-z]+)\s*(?:\([^)]*\))?\s*,", flat + ",")
        tb = _fn_body(bor_t, r"pub\s+fn\s+to_owned\s*\(\s*&self\s*\)\s*->\s*OwnedTerm")
        if tb is None:
            broken.append("fn to_owned of BorrowedTerm not found")
        else:
            to_arms = re.findall(r"BorrowedTerm::([A-Z][A-Za-z]+)\s*(?:\([^)]*\)|\{[^}]*\})?\s*=>\s*(?:\{\s*)?OwnedTerm::([A-Z][A-Za-z]+)", tb)
            for v in ("Pid", "Port", "Reference"):
                if re.search(r"BorrowedTerm::" + v + r"\(\s*([a-z])\s*\)\s*=>\s*OwnedTerm::" + v + r"\(\s*\1\.clone\(\)\s*\)", tb):
                    id_copy.append("to_owned:" + v + ":clone")
        fb = _fn_body(bor_t, r"impl\s*<'a>\s*From\s*<\s*&'a\s+OwnedTerm\s*>\s*for\s+BorrowedTerm\s*<'a>\s*\{")
        if fb is None:
            broken.append("impl From<&OwnedTerm> for BorrowedTerm not found")
        else:
            from_arms = re.findall(r"OwnedTerm::([A-Z][A-Za-z]+)\s*(?:\([^)]*\)|\{[^}]*\})?\s*=>\s*(?:\{\s*)?BorrowedTerm::([A-Z][A-Za-z]+)", fb)
            for v in ("Pid", "Port", "Reference"):
                if re.search(r"OwnedTerm::" + v + r"\(\s*([a-z])\s*\)\s*=>\s*BorrowedTerm::" + v + r"\(\s*\1\.clone\(\)\s*\)", fb):
                    id_copy.append("from:" + v + ":clone")
        ibb = _fn_body(bor_t, r"pub\s+fn\s+is_borrowed\s*\(\s*&self\s*\)\s*->\s*bool")
        if ibb is None:
            broken.append("fn is_borrowed not found")
        else:
            isb_arms = re.findall(r"BorrowedTerm::([A-Z][A-Za-z]+)\s*(?:\([^)]*\)|\{[^}]*\})?\s*=>", ibb)
            if not re.search(r"_\s*=>\s*false", ibb):
                broken.append("is_borrowed: `_ => false` not found")
        for fn, field_owner in (("encode_pid_impl", "pid"), ("encode_port_impl", "port"), ("encode_reference_impl", "ref_")):
            b = _fn_body(enc_t, r"fn\s+" + fn + r"\s*\(")
            if b is None:
                broken.append(f"fn {fn} not found in encoder.rs")
                continue
            flat = re.sub(r"\s+", "", b)
            m = re.match(r"ifletSome\((?:ref)?([a-z_]+)\)=&?" + field_owner + r"\.local_ext_bytes\{buf\.put_u8\(LOCAL_EXT\);buf\.put_slice\(\1\);\}else\{", flat)
            if m:
                enc_replay.append(fn)
        lb = _fn_body(dec_t, r"fn\s+parse_local_ext\s*<")
        if lb is None:
            broken.append("fn parse_local_ext not found in decoder.rs")
        else:
            flat = re.sub(r"\s+", "", lb)
            for need in ("letstart=input;", "be_u64(input)?", "letnested_len=input.len()-remaining.len();", "letlocal_ext_bytes_len=8+nested_len;",
                         "letlocal_ext_bytes=start[..local_ext_bytes_len].to_vec();"):
                if need not in flat:
                    broken.append(f"parse_local_ext: `{need}` not found")
            local_keep = re.findall(r"OwnedTerm::([A-Z][a-z]+)\([a-z]+\)=>\{?OwnedTerm::\1\(External\1::with_local_ext_bytes\(", flat)
            if not re.search(r"_=>term,", flat):
                broken.append("parse_local_ext: `_ => term` not found")

    def strs(xs):
        return "[" + ", ".join('"' + x + '"' for x in xs) + "]"

    def pairs(xs):
        return "[" + ", ".join('("' + a + '", "' + b + '")' for a, b in xs) + "]"

    for name, short in (("ExternalPid", "PID"), ("ExternalPort", "PORT"), ("ExternalReference", "REF")):
        f, d, mc, eqf, hf, of, keeps, new_none = structs.get(name, ([], [], True, [], [], [], False, False))
        lines.append(f"/-- types.rs `{name}`: fields, derive list, hand-written `impl Clone`?, fields compared by `eq`, fed to `hash`, compared by `cmp`,")
        lines.append("`with_local_ext_bytes` stores its argument in `local_ext_bytes`?, `new` leaves it `None`? -/")
        lines.append(f"def C10_{short}_FIELDS : List String := {strs(f)}")
        lines.append(f"def C10_{short}_DERIVES : List String := {strs(d)}")
        lines.append(f"def C10_{short}_MANUAL_CLONE : Bool := {'true' if mc else 'false'}")
        lines.append(f"def C10_{short}_EQ_FIELDS : List String := {strs(eqf)}")
        lines.append(f"def C10_{short}_HASH_FIELDS : List String := {strs(hf)}")
        lines.append(f"def C10_{short}_ORD_FIELDS : List String := {strs(of)}")
        lines.append(f"def C10_{short}_KEEPS_LOCAL : Bool := {'true' if keeps else 'false'}")
        lines.append(f"def C10_{short}_NEW_PLAIN : Bool := {'true' if new_none else 'false'}")
    lines.append("/-- the variants of `enum BorrowedTerm`, in declaration order -/")
    lines.append(f"def C10_BORROWED_VARIANTS : List String := {strs(variants)}")
    lines.append("/-- `BorrowedTerm::to_owned`: (matched variant, constructed `OwnedTerm` variant) per arm, in textual order -/")
    lines.append(f"def C10_TO_OWNED_ARMS : List (String × String) := {pairs(to_arms)}")
    lines.append("/-- `From<&OwnedTerm> for BorrowedTerm`: (matched variant, constructed variant) per arm -/")
    lines.append(f"def C10_FROM_OWNED_ARMS : List (String × String) := {pairs(from_arms)}")
    lines.append("/-- the identifier arms of both conversions that are `X(p) => X(p.clone())` -/")
    lines.append(f"def C10_IDENT_COPIES : List String := {strs(id_copy)}")
    lines.append("/-- variants `is_borrowed` has an arm for (everything else: `_ => false`) -/")
    lines.append(f"def C10_IS_BORROWED_ARMS : List String := {strs(isb_arms)}")
    lines.append("/-- identifier encoders that begin with `if let Some(b) = x.local_ext_bytes { put_u8(LOCAL_EXT); put_slice(b) } else {` -/")
    lines.append(f"def C10_ENC_REPLAY : List String := {strs(enc_replay)}")
    lines.append("/-- the kinds `parse_local_ext` rebuilds with `with_local_ext_bytes(.., start[..8 + nested_len])` (everything else: `_ => term`) -/")
    lines.append(f"def C10_LOCAL_KEEP : List String := {strs(local_keep)}")
    lines.append("")
    return lines, broken


def _enum_variants(src, name):
    """Variant names of `pub enum <name>` in declaration order (None if the enum is not found)."""
    m = re.search(r"pub\s+enum\s+" + name + r"\b[^{]*\{", src)
    if not m:
        return None
    body = _fn_body(src, r"pub\s+enum\s+" + name + r"\b[^{]*\{")
    if body is None:
        return None
    body = re.sub(r"//[^\n]*", "", body)
    body = re.sub(r"#\[[^\]]*\]", "", body)
    out, depth, cur = [], 0, ""
    for c in body:
        if c in "{(<":
            depth += 1
        elif c in "})>":
            depth -= 1
        if c == "," and depth == 0:
            out.append(cur)
            cur = ""
        else:
            cur += c
    out.append(cur)
    names = []
    for v in out:
        mm = re.match(r"\s*([A-Z][A-Za-z0-9]*)", v)
        if mm:
            names.append(mm.group(1))
    return names


def _derives(src, kind, name):
    m = re.search(r"#\[derive\(([^)]*)\)\]\s*(?:#\[[^\]]*\]\s*)*pub\s+" + kind + r"\s+" + name + r"\b", src)
    if not m:
        return None
    return [d.strip() for d in m.group(1).split(",") if d.strip()]


def _split_arms(body, strip=True):
    """Top-level `pattern => expression` arms of a match body (comments removed)."""
    body = re.sub(r"//[^\n]*", "", body)
    arms, depth, i, n = [], 0, 0, len(body)
    start = 0
    pat = None
    while i < n:
        c = body[i]
        if c in "({[":
            depth += 1
        elif c in ")}]":
            depth -= 1
        elif depth == 0 and body.startswith("=>", i) and pat is None:
            pat = body[start:i]
            i += 2
            # the expression: a brace block or up to the next top-level comma
            j = i
            while j < n and body[j].isspace():
                j += 1
            d2, k = 0, j
            while k < n:
                ch = body[k]
                if ch in "({[":
                    d2 += 1
                elif ch in ")}]":
                    d2 -= 1
                    if d2 == 0 and ch == "}" and body[j] == "{":
                        k += 1
                        break
                elif ch == "," and d2 == 0:
                    break
                k += 1
            arms.append((re.sub(r"\s+", "", pat), re.sub(r"\s+", "", body[j:k]) if strip else body[j:k]))
            pat = None
            i = k
            while i < n and (body[i] == "," or body[i].isspace()):
                i += 1
            start = i
            continue
        i += 1
    return arms


def _canon_rhs(rhs):
    """Type-independent text of an `Ord` arm: the helper it calls / the fields it compares."""
    r = rhs
    while r.startswith("{") and r.endswith("}"):
        d, ok = 0, True
        for k, ch in enumerate(r):
            if ch == "{":
                d += 1
            elif ch == "}":
                d -= 1
                if d == 0 and k != len(r) - 1:
                    ok = False
                    break
        if not ok:
            break
        r = r[1:-1]
    r = r.replace("compare_owned_term_lists", "compare_term_lists")
    r = r.replace(".as_slice()", "").replace(".as_ref()", "").replace(".as_bytes()", "")
    r = r.replace("a.name.cmp(&b.name)", "a.cmp(b)")
    r = r.replace("borrowed_type_order", "term_type_order")
    return r


def _ord_tables(src, ty, order_fn, broken, label):
    """(ranks, fast-path arms, arms, catch-all) of `impl Ord for <ty>`."""
    ranks, fast, arms, catch = [], [], [], ""
    body = _fn_body(src, r"const\s+fn\s+" + order_fn + r"\s*\(")
    if body is None:
        broken.append(f"{label}: const fn {order_fn} not found")
    else:
        mb = _fn_body(body, r"match\s+t\s*\{")
        for pat, rhs in _split_arms(mb or ""):
            if not re.fullmatch(r"[0-9]+", rhs):
                broken.append(f"{label}: {order_fn} arm `{pat} => {rhs}` is not a number")
                continue
            for v in re.findall(ty + r"::([A-Za-z0-9]+)", pat):
                ranks.append((v, int(rhs)))
    ob = _fn_body(src, r"impl(?:<'a>)?\s+Ord\s+for\s+" + ty + r"\b[^{]*\{")
    if ob is None:
        broken.append(f"{label}: impl Ord for {ty} not found")
        return ranks, fast, arms, catch
    cb = _fn_body(ob, r"fn\s+cmp\s*\(")
    if cb is None:
        broken.append(f"{label}: fn cmp not found")
        return ranks, fast, arms, catch
    flat = re.sub(r"\s+", "", re.sub(r"//[^\n]*", "", cb))
    if "let(this,other)=(self.without_empty_cells(),other.without_empty_cells());" not in flat:
        broken.append(f"{label}: cmp no longer starts by skipping improper lists without elements on both sides")
    if re.search(r"\bself\b", flat.replace("self.without_empty_cells()", "")):
        broken.append(f"{label}: cmp uses `self` after the empty-cell skip")
    fp = _fn_body(cb, r"if\s+discriminant\(this\)\s*==\s*discriminant\(other\)\s*\{")
    if fp is not None:
        fm = _fn_body(fp, r"match\s*\(this,\s*other\)\s*\{")
        for pat, rhs in _split_arms(fm or ""):
            vs = re.findall(ty + r"::([A-Za-z0-9]+)", pat)
            if len(vs) == 2 and rhs.startswith("return"):
                fast.append((vs[0], vs[1], _canon_rhs(rhs[len("return"):])))
            elif pat != "_":
                broken.append(f"{label}: fast-path arm `{pat}` not understood")
    main = re.search(r"match\s+" + order_fn + r"\(this\)\s*\.cmp\(&" + order_fn + r"\(other\)\)\s*\{", cb)
    if not main:
        broken.append(f"{label}: `match {order_fn}(this).cmp(&{order_fn}(other))` not found")
        return ranks, fast, arms, catch
    mb = _fn_body(cb[main.start():], r"match\s+" + order_fn + r"\(this\)[^{]*\{")
    outer = _split_arms(mb or "")
    if [p for p, _ in outer] != ["Ordering::Equal", "other"] or outer[1][1] != "other":
        broken.append(f"{label}: outer match is not `Ordering::Equal => …, other => other`")
        return ranks, fast, arms, catch
    eqb = _fn_body(mb, r"Ordering::Equal\s*=>\s*match\s*\(this,\s*other\)\s*\{")
    for pat, rhs in _split_arms(eqb or ""):
        vs = re.findall(ty + r"::([A-Za-z0-9]+)", pat)
        if pat == "_":
            catch = _canon_rhs(rhs)
        elif len(vs) == 2:
            arms.append((vs[0], vs[1], _canon_rhs(rhs)))
        else:
            broken.append(f"{label}: arm `{pat}` not understood")
    if not arms or not catch:
        broken.append(f"{label}: no arms / no catch-all arm found in the same-rank match")
    return ranks, fast, arms, catch


def _norm_fn_text(src, header_re, ty, order_fn):
    b = _fn_body(src, header_re)
    if b is None:
        return None
    b = re.sub(r"//[^\n]*", "", b)
    b = re.sub(r"\s+", "", b)
    b = b.replace(ty + "::", "T::").replace(order_fn, "type_order")
    b = b.replace("<'a>", "").replace("<'t,'a>", "<'t>").replace("BorrowedTerm", "T").replace("OwnedTerm", "T")
    return b


def gen_c11(read, num):
    """C11/C12 part: everything table-like of the term order, equality and hashing — variant lists (the `discriminant`
    that `Hash` writes), derives, both type-rank tables, both `Ord` arm tables (variant pair -> helper / compared fields),
    the hashed fields per variant, the compared / hashed / ordered fields of the identifier structs, and whether the
    two copies of the cons-cell walk are the same text."""
    broken = []
    lines = []
    term = read("crates/erltf/src/term.rs")
    bor = read("crates/erltf/src/borrowed.rs")
    types = read("crates/erltf/src/types.rs")
    ov, bv, od, bd = [], [], [], []
    oranks, ofast, oarms, ocatch = [], [], [], ""
    branks, bfast, barms, bcatch = [], [], [], ""
    hashf, ideq, idhash, idcmp, sfields, sderives = [], [], [], [], [], []
    list_order = [0, 0]
    same_text = []
    if term is None or bor is None or types is None:
        broken.append("term.rs, borrowed.rs or types.rs missing")
    else:
        ov = _enum_variants(term, "OwnedTerm") or []
        bv = _enum_variants(bor, "BorrowedTerm") or []
        if not ov or not bv:
            broken.append("enum OwnedTerm / BorrowedTerm not found")
        od = _derives(term, "enum", "OwnedTerm") or []
        bd = _derives(bor, "enum", "BorrowedTerm") or []
        if not od or not bd:
            broken.append("#[derive(…)] of OwnedTerm / BorrowedTerm not found")
        for ty, src in (("OwnedTerm", term), ("BorrowedTerm", bor)):
            if re.search(r"impl(?:<'a>)?\s+PartialEq\s+for\s+" + ty + r"\b", src):
                broken.append(f"{ty} has a hand-written PartialEq (the model has the derived one)")
        oranks, ofast, oarms, ocatch = _ord_tables(term, "OwnedTerm", "term_type_order", broken, "term.rs")
        branks, bfast, barms, bcatch = _ord_tables(bor, "BorrowedTerm", "borrowed_type_order", broken, "borrowed.rs")
        for k, src in enumerate((term, bor)):
            m = re.search(r"const\s+LIST_TYPE_ORDER\s*:\s*u8\s*=\s*([0-9]+)\s*;", src)
            if m:
                list_order[k] = num(m.group(1))
            else:
                broken.append("const LIST_TYPE_ORDER not found in " + ("term.rs", "borrowed.rs")[k])
        # the duplicated helpers: same text up to the type names?
        for fn, hdr in (("ListCells::next", r"fn\s+next\s*\(\s*&mut\s+self\s*\)\s*->\s*Option<&'t"),
                        ("ListCells::new", r"fn\s+new\s*\(\s*term\s*:\s*&'t"),
                        ("compare_list_terms", r"fn\s+compare_list_terms\s*(?:<'a>)?\s*\("),
                        ("without_empty_cells", r"fn\s+without_empty_cells\s*\("),
                        ("bitstring_parts", r"fn\s+bitstring_parts\s*\(")):
            a = _norm_fn_text(term, hdr, "OwnedTerm", "term_type_order")
            b = _norm_fn_text(bor, hdr, "BorrowedTerm", "borrowed_type_order")
            if a is None or b is None:
                broken.append(f"fn {fn} not found in term.rs / borrowed.rs")
                continue
            a = a.replace(".as_slice()", "").replace(".as_ref()", "")
            b = b.replace(".as_slice()", "").replace(".as_ref()", "")
            same_text.append((fn, a == b))
        a = _fn_body(term, r"fn\s+compare_term_lists\s*\(")
        b = _fn_body(bor, r"fn\s+compare_owned_term_lists\s*\(")
        if a is None or b is None:
            broken.append("compare_term_lists / compare_owned_term_lists not found")
        else:
            same_text.append(("compare_term_lists", re.sub(r"\s+", "", a) == re.sub(r"\s+", "", b)))
        # the numeric helpers exist once: borrowed.rs must import them, not define its own
        for fn in ("compare_int_bigint", "compare_bigint_int", "compare_bigint", "compare_int_float", "compare_float_int",
                   "compare_bigint_float", "compare_float_bigint"):
            if re.search(r"fn\s+" + fn + r"\s*\(", bor):
                broken.append(f"borrowed.rs defines its own {fn} (the model has one copy)")
            if not re.search(r"\b" + fn + r"\b", bor):
                broken.append(f"borrowed.rs no longer uses {fn}")
        # Hash: the fields each variant writes, in order
        hb = _fn_body(term, r"impl\s+Hash\s+for\s+OwnedTerm\s*\{")
        hf = _fn_body(hb or "", r"fn\s+hash\s*<")
        if hf is None:
            broken.append("impl Hash for OwnedTerm not found")
        else:
            flat = re.sub(r"\s+", "", re.sub(r"//[^\n]*", "", hf))
            if not flat.startswith("discriminant(self).hash(state);matchself{"):
                broken.append("Hash for OwnedTerm no longer starts with discriminant(self).hash(state)")
            mb = _fn_body(hf, r"match\s+self\s*\{")
            for pat, rhs in _split_arms(mb or "", strip=False):
                v = re.findall(r"OwnedTerm::([A-Za-z0-9]+)", pat)
                if len(v) != 1:
                    broken.append(f"Hash arm `{pat}` not understood")
                    continue
                text = re.sub(r"\bfor\s+[^{]*?\s+in\s+[^{]*\{", "each:", rhs)
                fs = []
                for st in text.split(";"):
                    st = re.sub(r"\s+", "", st).strip("{}")
                    st = re.sub(r"^\}+", "", st)
                    if st in ("", "()"):
                        continue
                    mm = re.fullmatch(r"(.*)\.hash\(state\)", st)
                    if not mm:
                        broken.append(f"Hash arm of {v[0]}: statement `{st}` is not `<expr>.hash(state)`")
                        continue
                    fs.append(mm.group(1).lstrip("{"))
                hashf.append((v[0], fs))
        # identifier structs: fields compared by ==, hashed, ordered
        for st in ("ExternalPid", "ExternalPort", "ExternalReference"):
            eb = _fn_body(types, r"impl\s+PartialEq\s+for\s+" + st + r"\s*\{")
            hb2 = _fn_body(types, r"impl\s+Hash\s+for\s+" + st + r"\s*\{")
            cb2 = _fn_body(types, r"impl\s+Ord\s+for\s+" + st + r"\s*\{")
            if eb is None or hb2 is None or cb2 is None:
                broken.append(f"PartialEq / Hash / Ord impl of {st} not found")
                continue
            ideq.append((st, re.findall(r"self\.([a-z_]+)\s*==\s*other\.\1", eb)))
            idhash.append((st, re.findall(r"self\.([a-z_]+)\.hash\(state\)", hb2)))
            cm = re.search(r"\(([^()]*)\)\s*\.cmp\(\s*&\(([^()]*)\)\s*\)", re.sub(r"\s+", "", cb2))
            if not cm:
                broken.append(f"Ord for {st} is no longer a tuple comparison")
                idcmp.append((st, []))
            else:
                l = re.findall(r"self\.([a-z_]+)", cm.group(1))
                r = re.findall(r"other\.([a-z_]+)", cm.group(2))
                if l != r:
                    broken.append(f"Ord for {st} compares different fields on the two sides")
                idcmp.append((st, l))
        for st in ("Atom", "BigInt", "ExternalFun", "InternalFun", "ExternalPid", "ExternalPort", "ExternalReference"):
            f = _struct_field_names(types, st)
            d = _derives(types, "struct", st)
            if f is None or d is None:
                broken.append(f"struct {st} / its derive not found in types.rs")
                continue
            sfields.append((st, f))
            sderives.append((st, d))

    def strs(xs):
        return "[" + ", ".join('"' + x + '"' for x in xs) + "]"

    def pairs(xs):
        return "[" + ", ".join(f'("{a}", {b})' for a, b in xs) + "]"

    def triples(xs):
        return "[" + ",\n  ".join(f'("{a}", "{b}", "{c}")' for a, b, c in xs) + "]"

    def fields(xs):
        return "[" + ", ".join(f'("{a}", {strs(b)})' for a, b in xs) + "]"

    lines.append("/-- variants of `OwnedTerm` / `BorrowedTerm` in declaration order (`discriminant` = index) -/")
    lines.append(f"def C11_OWNED_VARIANTS : List String := {strs(ov)}")
    lines.append(f"def C11_BORROWED_VARIANTS : List String := {strs(bv)}")
    lines.append(f"def C11_OWNED_DERIVES : List String := {strs(od)}")
    lines.append(f"def C11_BORROWED_DERIVES : List String := {strs(bd)}")
    lines.append("/-- `term_type_order` / `borrowed_type_order`: variant, rank -/")
    lines.append(f"def C11_OWNED_RANKS : List (String × Nat) := {pairs(oranks)}")
    lines.append(f"def C11_BORROWED_RANKS : List (String × Nat) := {pairs(branks)}")
    lines.append(f"def C11_LIST_TYPE_ORDER_OWNED : Nat := {list_order[0]}")
    lines.append(f"def C11_LIST_TYPE_ORDER_BORROWED : Nat := {list_order[1]}")
    lines.append("/-- arms of the same-rank match of `Ord::cmp`: left variant, right variant, what the arm evaluates (type names removed) -/")
    lines.append(f"def C11_OWNED_ARMS : List (String × String × String) := {triples(oarms)}")
    lines.append(f"def C11_BORROWED_ARMS : List (String × String × String) := {triples(barms)}")
    lines.append(f'def C11_OWNED_CATCHALL : String := "{ocatch}"')
    lines.append(f'def C11_BORROWED_CATCHALL : String := "{bcatch}"')
    lines.append("/-- the `discriminant` fast path of `OwnedTerm::cmp` (the zero-copy type has none) -/")
    lines.append(f"def C11_OWNED_FAST_ARMS : List (String × String × String) := {triples(ofast)}")
    lines.append(f"def C11_BORROWED_FAST_ARMS : List (String × String × String) := {triples(bfast)}")
    lines.append("/-- helpers that exist once per term type: is the text the same up to the type names? -/")
    lines.append("def C11_DUPLICATED_HELPERS_SAME : List (String × Bool) := [" + ", ".join(f'("{a}", {"true" if b else "false"})' for a, b in same_text) + "]")
    lines.append("/-- `impl Hash for OwnedTerm`: what each variant hashes after the discriminant, in order -/")
    lines.append(f"def C11_HASH_FIELDS : List (String × List String) := {fields(hashf)}")
    lines.append("/-- identifier structs: fields compared by `==`, hashed, ordered -/")
    lines.append(f"def C11_ID_EQ_FIELDS : List (String × List String) := {fields(ideq)}")
    lines.append(f"def C11_ID_HASH_FIELDS : List (String × List String) := {fields(idhash)}")
    lines.append(f"def C11_ID_CMP_FIELDS : List (String × List String) := {fields(idcmp)}")
    lines.append(f"def C11_STRUCT_FIELDS : List (String × List String) := {fields(sfields)}")
    lines.append(f"def C11_STRUCT_DERIVES : List (String × List String) := {fields(sderives)}")
    lines.append("")
    return lines, broken


def _struct_field_names(src, name):
    body = _fn_body(src, r"pub\s+struct\s+" + name + r"\b[^{;]*\{")
    if body is None:
        return None
    body = re.sub(r"//[^\n]*", "", body)
    return re.findall(r"pub\s+([a-z_0-9]+)\s*:", body)


def gen_c07(read, num):
    """C07 part: from connection.rs the framing constants, the table of the six send-side operations (state gate, the
    `ControlMessage` variant built, payload or not), the branches of `send_control_message` as sequences of guard / write /
    yield-point / flush steps (every write must sit between `FrameWrite::begin` and `frame.complete()`), how the
    distribution-header buffer is put together, the mode decision and what `FrameWrite::drop` does; from encoder.rs the
    limits of `encode_with_dist_header_multi`; from node.rs the remote branch of each node-level operation (what is drawn
    from the node's counters, the table lookup, the one lock, the one `Connection` call)."""
    broken = []
    lines = []
    consts = {}
    ops = []
    branches = []
    hdr_buf = []
    hdr_enc = []
    len_exprs = []
    mode_flag = ""
    drop_steps = []
    src = read("crates/edp_client/src/connection.rs")
    if src is None:
        broken.append("connection.rs missing")
    else:
        for name in ("VERSION_TAG", "DIST_HEADER", "PASS_THROUGH"):
            m = re.search(r"const\s+" + name + r"\s*:\s*u8\s*=\s*([0-9_]+)\s*;", src)
            if not m:
                broken.append(f"connection.rs: const {name}: u8 = <n>; not found")
            else:
                consts[name] = num(m.group(1))
        for fn in C07_CONN_OPS:
            body = _fn_body(src, r"pub\s+async\s+fn\s+" + fn + r"\s*\(")
            if body is None:
                broken.append(f"connection.rs: pub async fn {fn} not found")
                continue
            b = _strip_ws(body)
            gated = b.startswith("if!self.is_connected(){returnErr(Error::InvalidState{state:self.state(),});}")
            mv = re.search(r"letcontrol=ControlMessage::([A-Za-z0-9]+)\{", b)
            mc = re.search(r"self\.send_control_message\(control,(Some\(message\)|None)\)\.await\}?$", b)
            if not mv or not mc:
                broken.append(f"connection.rs {fn}: `let control = ControlMessage::X {{..}}; self.send_control_message(control, Some(message)|None).await` not found")
                continue
            if len(re.findall(r"send_control_message\(", b)) != 1 or re.search(r"write_|\.write\(|send_raw", b):
                broken.append(f"connection.rs {fn}: more than the one call of send_control_message")
            ops.append((fn, mv.group(1), mc.group(1) != "None", gated))
        body = _fn_body(src, r"async\s+fn\s+send_control_message\s*\(")
        if body is None:
            broken.append("connection.rs: fn send_control_message not found")
        else:
            b = _strip_ws(body)
            m = re.search(r"letuse_pass_through=self\.negotiated_flags\(\)\.as_ref\(\)\.map\(\|f\|!f\.has\(DistributionFlags::([A-Z_0-9]+)\)\)\.unwrap_or\(true\);", b)
            if not m:
                broken.append("connection.rs send_control_message: `use_pass_through = negotiated_flags().map(|f| !f.has(FLAG)).unwrap_or(true)` not found")
            else:
                mode_flag = m.group(1)
            tok = re.compile(
                r"(?P<begin>FrameWrite::begin\(self\))|(?P<stream>frame\.stream\(\)\?)|(?P<complete>frame\.complete\(\))"
                r"|stream\.(?P<w>write_u32|write_u8|write_all)\(&?(?P<arg>[a-zA-Z_]+)\)"
                r"|(?P<flush>stream\.flush\(\))|yield_point\(\"(?P<y>[a-z_:]+)\"\)"
                r"|(?P<other>\.write_[a-z0-9_]+\(|\.write\()")
            cur = None
            for m in tok.finditer(b):
                if m.group("begin"):
                    if cur is not None:
                        broken.append("connection.rs send_control_message: FrameWrite::begin before the previous frame.complete()")
                    cur = ["begin"]
                    continue
                if m.group("other"):
                    broken.append("connection.rs send_control_message: a write the translator does not know: " + m.group("other"))
                    continue
                step = ("stream" if m.group("stream") else "complete" if m.group("complete") else "flush" if m.group("flush")
                        else ("yield:" + m.group("y")) if m.group("y") else m.group("w") + ":" + m.group("arg"))
                if cur is None:
                    broken.append(f"connection.rs send_control_message: `{step}` outside FrameWrite::begin .. frame.complete()")
                    continue
                cur.append(step)
                if step == "complete":
                    branches.append(cur)
                    cur = None
            if cur is not None:
                broken.append("connection.rs send_control_message: a FrameWrite::begin without frame.complete()")
            if not branches:
                broken.append("connection.rs send_control_message: no guarded write sequence found")
            hdr_enc = [f"{f}:{a.replace('&', '').replace('[', '').replace(']', '')}" for f, a in
                       re.findall(r"letencoded=erltf::(encode_with_dist_header(?:_multi)?)\(([^;]*?)\)\?;", b)]
            hdr_buf = re.findall(r"letencoded=erltf::encode_with_dist_header(?:_multi)?\([^;]*?\)\?;((?:buf\.put_[a-z0-9]+\([^;]*\);)+)", b)
            hdr_buf = [re.findall(r"buf\.(put_[a-z0-9]+)\(&?([^;]*)\);", x) for x in hdr_buf]
            hdr_buf = [[f"{f}:{a}" for f, a in x] for x in hdr_buf]
            len_exprs = re.findall(r"lettotal_len=([^;]+);letframe_len=Self::frame_length\(total_len\)\?;", b)
            if len(hdr_enc) != 2 or len(hdr_buf) != 2 or len(len_exprs) != 2:
                broken.append("connection.rs send_control_message: expected two pass-through length computations and two header-mode encoder calls each followed by buf.put_*")
        m = re.search(r"implDropforFrameWrite<'_>\{fndrop\(&mutself\)\{if!self\.complete\{((?:self\.connection\.[a-z_]+\.[a-z_]+\(\);)+)\}\}\}", _strip_ws(src))
        if not m:
            broken.append("connection.rs: `impl Drop for FrameWrite` closing the connection unless complete not found")
        else:
            drop_steps = re.findall(r"self\.connection\.([a-z_]+\.[a-z_]+)\(\);", m.group(1))
        m = re.search(r"fnframe_length\(len:usize\)->Result<u32>\{u32::try_from\(len\)\.map_err\(\|_\|Error::MessageTooLarge\{", _strip_ws(src))
        if not m:
            broken.append("connection.rs: frame_length = u32::try_from(len) or MessageTooLarge not found")
    enc = read("crates/erltf/src/encoder.rs")
    max_atoms = 0
    atom_len_limit = ""
    if enc is None:
        broken.append("encoder.rs missing")
    else:
        body = _fn_body(enc, r"pub\s+fn\s+encode_with_dist_header_multi\s*\(")
        if body is None:
            broken.append("encoder.rs: fn encode_with_dist_header_multi not found")
        else:
            b = _strip_ws(body)
            m = re.search(r"ifatom_set\.len\(\)>([0-9_]+)\{returnErr\(EncodeError::TooManyAtoms", b)
            if not m:
                broken.append("encoder.rs encode_with_dist_header_multi: `if atom_set.len() > N { return Err(TooManyAtoms` not found")
            else:
                max_atoms = num(m.group(1))
            m = re.search(r"find\(\|a\|a\.name\.len\(\)>(u16::MAX)asusize\)\{returnErr\(EncodeError::AtomTooLarge", b)
            if not m:
                broken.append("encoder.rs encode_with_dist_header_multi: atom length limit u16::MAX not found")
            else:
                atom_len_limit = m.group(1)
    node = read("crates/edp_node/src/node.rs")
    node_ops = []
    if node is None:
        broken.append("node.rs missing")
    else:
        tok = re.compile(
            r"(?P<lookup>self\.connection_handle\(node_name\))|(?P<pid>self\.pid_allocator\.allocate\(\))"
            r"|(?P<uid>self\.reference_counter\.fetch_add\(1,Ordering::SeqCst\)asu64\+1)|(?P<ctr>self\.reference_counter\.[a-z_]+\()"
            r"|(?P<ref>self\.make_reference\(\))|(?P<lock>conn\.lock\(\)\.await)|conn_guard\.(?P<call>[a-z_]+)\("
            r"|(?P<nc>Err\(Error::NodeNotConnected\()|_handle\.(?P<book>add_link|remove_link|add_monitor|remove_monitor)\(")
        for fn in C07_NODE_FNS:
            body = _fn_body(node, r"(?:pub\s+)?async\s+fn\s+" + fn + r"\s*(?:<[^>]*>)?\s*\(\s*&self")
            if body is None:
                broken.append(f"node.rs: async fn {fn}(&self, ..) not found")
                continue
            steps = []
            for m in tok.finditer(_strip_ws(body)):
                steps.append("lookup" if m.group("lookup") else "draw:pid" if m.group("pid") else "draw:unlink_id+1" if m.group("uid")
                             else "counter:other" if m.group("ctr") else "draw:ref" if m.group("ref") else "lock" if m.group("lock")
                             else ("call:" + m.group("call")) if m.group("call") else "not_connected" if m.group("nc")
                             else "book:" + m.group("book"))
            node_ops.append((fn, steps))
        if "connections.insert(remote_node.clone(),Arc::new(Mutex::new(conn)));" not in _strip_ws(node) or \
                _strip_ws(node).find("conn.connect().await?;") > _strip_ws(node).find("connections.insert(remote_node.clone(),Arc::new(Mutex::new(conn)));") or \
                "conn.connect().await?;" not in _strip_ws(node):
            broken.append("node.rs connect: the connection is no longer inserted into the table after `conn.connect().await?`")

    def strs(xs):
        return "[" + ", ".join('"' + x + '"' for x in xs) + "]"

    lines.append("/-- framing constants of connection.rs -/")
    for name in ("VERSION_TAG", "DIST_HEADER", "PASS_THROUGH"):
        lines.append(f"def C07_{name} : Nat := {consts.get(name, 0)}")
    lines.append("/-- the six send-side operations of `Connection` (connection.rs): name, `ControlMessage` variant built, whether a")
    lines.append("payload is handed to `send_control_message`, whether the body starts with the `is_connected()` gate -/")
    lines.append("def C07_CONN_OPS : List (String × String × Bool × Bool) := [" + ", ".join(
        f'("{f}", "{v}", {"true" if p else "false"}, {"true" if g else "false"})' for f, v, p, g in ops) + "]")
    lines.append("/-- the flag whose absence from the negotiated flags selects pass-through framing in `send_control_message` -/")
    lines.append(f'def C07_HEADER_MODE_FLAG : String := "{mode_flag}"')
    lines.append("/-- the guarded write sequences of `send_control_message` in source order (pass-through with payload, pass-through")
    lines.append("control only, distribution header): guard, writes with their argument, H3 yield points, flush, completion -/")
    lines.append("def C07_SEND_BRANCHES : List (List String) := [" + ", ".join(strs(x) for x in branches) + "]")
    lines.append("/-- `total_len` of the two pass-through branches -/")
    lines.append(f"def C07_FRAME_LEN_EXPRS : List String := {strs(len_exprs)}")
    lines.append("/-- header mode: the encoder call of each branch and how the single buffer is put together -/")
    lines.append(f"def C07_HEADER_ENCODERS : List String := {strs(hdr_enc)}")
    lines.append("def C07_HEADER_BUFFER : List (List String) := [" + ", ".join(strs(x) for x in hdr_buf) + "]")
    lines.append("/-- what `FrameWrite::drop` does to the connection when the frame was not completed -/")
    lines.append(f"def C07_INCOMPLETE_FRAME_ACTIONS : List String := {strs(drop_steps)}")
    lines.append("/-- limits of `encode_with_dist_header_multi` (encoder.rs): atoms per header, atom length -/")
    lines.append(f"def C07_HEADER_MAX_ATOMS : Nat := {max_atoms}")
    lines.append(f'def C07_HEADER_ATOM_LEN_LIMIT : String := "{atom_len_limit}"')
    lines.append("/-- node.rs: the steps of each node-level operation that concern the connection, in source order (bookkeeping on")
    lines.append("local process handles, what is drawn from the node's counters, table lookup, lock, the `Connection` call) -/")
    lines.append("def C07_NODE_OPS : List (String × List String) := [" + ", ".join(f'("{f}", {strs(st)})' for f, st in node_ops) + "]")
    lines.append("")
    return lines, broken


def _match_arms(body, scrutinee):
    """arms of the first `match <scrutinee> {` in body as (pattern text, arm text); None if not found"""
    m = re.search(r"match\s+" + scrutinee + r"\s*\{", body)
    if not m:
        return None
    i = m.end()
    arms = []
    n = len(body)
    while i < n:
        while i < n and body[i] in " \t\r\n,":
            i += 1
        if i >= n or body[i] == "}":
            break
        j = body.find("=>", i)
        if j < 0:
            return None
        pat = body[i:j]
        k = j + 2
        while k < n and body[k] in " \t\r\n":
            k += 1
        if k < n and body[k] == "{":
            depth = 0
            e = k
            while e < n:
                if body[e] == "{":
                    depth += 1
                elif body[e] == "}":
                    depth -= 1
                    if depth == 0:
                        break
                e += 1
            arms.append((pat, body[k + 1:e]))
            i = e + 1
        else:
            depth = 0
            e = k
            while e < n:
                c = body[e]
                if c in "({[":
                    depth += 1
                elif c in ")}]":
                    if depth == 0:
                        break
                    depth -= 1
                elif c == "," and depth == 0:
                    break
                e += 1
            arms.append((pat, body[k:e]))
            i = e
    return arms


def gen_c14(read, num):
    """C14: the atom traversal of the header encoder (per-variant arms of `collect_atoms`, the atoms each `encode_*_impl`
    writes through `encode_atom_impl`) and the literal constants of the header writer and reader."""
    broken = []
    lines = []

    def strs(xs):
        return "[" + ", ".join('"' + x + '"' for x in xs) + "]"

    def table(rows):
        return "[" + ", ".join('("' + a + '", ' + strs(b) + ")" for a, b in rows) + "]"

    enc = read("crates/erltf/src/encoder.rs")
    dec = read("crates/erltf/src/decoder.rs")
    arms_out = []
    sites_out = []
    consts = {}
    forms = {}
    if enc is None:
        broken.append("encoder.rs missing")
    else:
        enc_nc = re.sub(r"//[^\n]*", "", enc)
        body = _fn_body(enc_nc, r"fn\s+collect_atoms\s*<[^>]*>\s*\(")
        arms = _match_arms(body, "term") if body is not None else None
        if not arms:
            broken.append("collect_atoms: `match term { … }` not found in encoder.rs")
        else:
            for pat, text in arms:
                variants = re.findall(r"OwnedTerm::([A-Za-z]+)", pat)
                name = "|".join(variants) if variants else re.sub(r"\s+", "", pat)
                acts = []
                for m in re.finditer(r"atoms\s*\.\s*insert\s*\(\s*&?\s*([A-Za-z_\.]+)\s*\)|collect_atoms\s*\(\s*&?\s*([A-Za-z_\.]+)\s*,\s*atoms\s*\)", text):
                    acts.append("insert:" + m.group(1) if m.group(1) else "rec:" + m.group(2))
                arms_out.append((name, acts))
        # which atoms each encode function writes through encode_atom_impl (and the pid it delegates)
        for m in re.finditer(r"\bfn\s+(encode_[a-z_]*impl)\s*(?:<[^>]*>)?\s*\(", enc_nc):
            fb = _fn_body(enc_nc[m.start():], r"fn\s+" + m.group(1) + r"\s*(?:<[^>]*>)?\s*\(")
            if fb is None:
                broken.append("body of " + m.group(1) + " not found")
                continue
            if m.group(1) == "encode_atom_impl":
                continue
            acts = []
            for c in re.finditer(r"encode_atom_impl\s*\(\s*[^,]+,\s*([^,]+?)\s*,\s*cache\s*\)|encode_pid_impl\s*\(\s*[^,]+,\s*([^,]+?)\s*,\s*cache\s*\)", fb):
                if c.group(1):
                    acts.append("atom:" + re.sub(r"\s+", "", c.group(1)))
                elif m.group(1) != "encode_term_impl":
                    acts.append("pid:" + re.sub(r"\s+", "", c.group(2)))
            if acts:
                sites_out.append((m.group(1), acts))
        mb = _fn_body(enc_nc, r"pub\s+fn\s+encode_with_dist_header_multi\s*\(")
        if mb is None:
            broken.append("encode_with_dist_header_multi not found in encoder.rs")
        else:
            def grab(key, rx, conv=lambda g: num(g[0])):
                m_ = re.search(rx, mb)
                if not m_:
                    broken.append("encode_with_dist_header_multi: pattern for " + key + " not found")
                else:
                    consts[key] = conv(m_.groups())
            grab("C14_ENC_MAX_ATOMS", r"if\s+atom_set\.len\(\)\s*>\s*([0-9_]+)\s*\{\s*return\s+Err\s*\(\s*EncodeError::TooManyAtoms")
            grab("C14_ENC_LONG_THRESHOLD", r"let\s+long_atoms\s*=\s*atoms\.iter\(\)\.any\(\s*\|a\|\s*a\.name\.len\(\)\s*>\s*([0-9_]+)\s*\)")
            grab("C14_ENC_NEW_ENTRY_FLAG", r"let\s+new_entry_flag\s*=\s*0x([0-9a-fA-F]+)u8\s*;", lambda g: int(g[0], 16))
            grab("C14_ENC_LONG_BIT_EVEN", r"let\s+long_atoms_bit\s*=\s*if\s+atoms\.len\(\)\s*%\s*2\s*==\s*0\s*\{\s*0x([0-9a-fA-F]+)\s*\}", lambda g: int(g[0], 16))
            grab("C14_ENC_LONG_BIT_ODD", r"let\s+long_atoms_bit\s*=\s*if[^{]*\{[^}]*\}\s*else\s*\{\s*0x([0-9a-fA-F]+)\s*\}", lambda g: int(g[0], 16))
            grab("C14_ENC_NIBBLE_SHIFT_ODD", r"let\s+nibble_shift\s*=\s*if\s+index\s*%\s*2\s*==\s*0\s*\{\s*0\s*\}\s*else\s*\{\s*([0-9]+)\s*\}")
            m_ = re.search(r"let\s+flags_len\s*=\s*([^;]+);", mb)
            if not m_:
                broken.append("encode_with_dist_header_multi: flags_len not found")
            else:
                forms["C14_ENC_FLAGS_LEN"] = re.sub(r"\s+", "", m_.group(1))
            if not re.search(r"a\.name\.len\(\)\s*>\s*u16::MAX\s+as\s+usize", mb):
                broken.append("encode_with_dist_header_multi: the u16::MAX atom-length check is gone")
            if not re.search(r"buf\.put_u8\(\s*index\s+as\s+u8\s*\)", mb):
                broken.append("encode_with_dist_header_multi: internal index is no longer the position (`put_u8(index as u8)`)")
            if not re.search(r"atom_index_map\.insert\(\s*\*atom\s*,\s*index\s+as\s+u8\s*\)", mb):
                broken.append("encode_with_dist_header_multi: ATOM_CACHE_REF index is no longer the position")
    if dec is None:
        broken.append("decoder.rs missing")
    else:
        dec_nc = re.sub(r"//[^\n]*", "", dec)
        db = _fn_body(dec_nc, r"fn\s+parse_dist_header_with_cache\s*<[^>]*>\s*\(")
        if db is None:
            broken.append("parse_dist_header_with_cache not found in decoder.rs")
        else:
            def grabd(key, rx, conv=lambda g: int(g[0], 16)):
                m_ = re.search(rx, db)
                if not m_:
                    broken.append("parse_dist_header_with_cache: pattern for " + key + " not found")
                else:
                    consts[key] = conv(m_.groups())
            grabd("C14_DEC_LONG_BIT_EVEN", r"let\s+long_atoms_bit\s*=\s*if\s+num_atom_cache_refs\s*%\s*2\s*==\s*0\s*\{\s*0x([0-9a-fA-F]+)\s*\}")
            grabd("C14_DEC_LONG_BIT_ODD", r"let\s+long_atoms_bit\s*=\s*if[^{]*\{[^}]*\}\s*else\s*\{\s*0x([0-9a-fA-F]+)\s*\}")
            grabd("C14_DEC_NIBBLE_MASK", r"flags\[flag_byte_index\]\s*&\s*0x([0-9a-fA-F]+)")
            grabd("C14_DEC_NIBBLE_SHIFT", r"\(flags\[flag_byte_index\]\s*>>\s*([0-9]+)\)", lambda g: int(g[0]))
            grabd("C14_DEC_NEW_ENTRY_MASK", r"let\s+is_new_entry\s*=\s*\(flag_nibble\s*&\s*0x([0-9a-fA-F]+)\)\s*!=\s*0")
            grabd("C14_DEC_SEGMENT_MASK", r"let\s+segment_index\s*=\s*flag_nibble\s*&\s*0x([0-9a-fA-F]+)")
            m_ = re.search(r"let\s+flags_len\s*=\s*([^;]+);", db)
            if not m_:
                broken.append("parse_dist_header_with_cache: flags_len not found")
            else:
                forms["C14_DEC_FLAGS_LEN"] = re.sub(r"\s+", "", m_.group(1))
            if not re.search(r"cache\s*\.\s*slots\s*\.\s*insert\(\s*\(segment_index,\s*internal_segment_index\)", db):
                broken.append("parse_dist_header_with_cache: the cache is no longer keyed by (segment_index, internal_segment_index)")
            if not re.search(r"cache\.insert\(\s*i\s*,", db):
                broken.append("parse_dist_header_with_cache: the position table is no longer keyed by the reference's position")

    lines.append("/-- C14: arms of `collect_atoms` (encoder.rs): variants ↦ what is inserted / traversed, in source order -/")
    lines.append(f"def COLLECT_ATOMS_ARMS : List (String × List String) := {table(arms_out)}")
    lines.append("")
    lines.append("/-- C14: the atoms each `encode_*_impl` writes through `encode_atom_impl` (`atom:`) and the pid it delegates (`pid:`) -/")
    lines.append(f"def ENCODE_ATOM_SITES : List (String × List String) := {table(sites_out)}")
    lines.append("")
    for key in ("C14_ENC_MAX_ATOMS", "C14_ENC_LONG_THRESHOLD", "C14_ENC_NEW_ENTRY_FLAG", "C14_ENC_LONG_BIT_EVEN",
                "C14_ENC_LONG_BIT_ODD", "C14_ENC_NIBBLE_SHIFT_ODD", "C14_DEC_LONG_BIT_EVEN", "C14_DEC_LONG_BIT_ODD",
                "C14_DEC_NIBBLE_MASK", "C14_DEC_NIBBLE_SHIFT", "C14_DEC_NEW_ENTRY_MASK", "C14_DEC_SEGMENT_MASK"):
        lines.append(f"def {key} : Nat := {consts.get(key, 0)}")
    for key in ("C14_ENC_FLAGS_LEN", "C14_DEC_FLAGS_LEN"):
        lines.append(f'def {key} : String := "{forms.get(key, "")}"')
    lines.append("")
    return lines, broken


def _crate_files(read, crate):
    """source files of a crate: lib.rs and the modules it declares"""
    lib = read(f"crates/{crate}/src/lib.rs")
    if lib is None:
        return None
    lib = re.sub(r"//[^\n]*", "", lib)
    mods = re.findall(r"^\s*(?:pub\s+)?mod\s+([a-z_0-9]+)\s*;", lib, re.M)
    return ["lib.rs"] + [m + ".rs" for m in mods]


def gen_c16b(read, num):
    """C16: every place in edp_client / edp_node that constructs an ExternalPid / ExternalReference, every call of the
    allocator and of make_reference, every store to a creation."""
    broken = []
    lines = []

    def strs(xs):
        return "[" + ", ".join('"' + x + '"' for x in xs) + "]"

    ctor, alloc_calls, ref_calls, cre_stores = [], [], [], []
    alloc_new, alloc_writes, raw_uses = [], [], []
    for crate in ("edp_client", "edp_node"):
        files = _crate_files(read, crate)
        if files is None:
            broken.append(f"crates/{crate}/src/lib.rs missing")
            continue
        for f in files:
            text = read(f"crates/{crate}/src/{f}")
            if text is None:
                continue   # a module directory or a cfg'd-out file
            text = re.sub(r"//[^\n]*", "", text)
            # cut the unit-test module at the end of a file, if any
            t = re.search(r"#\[cfg\(test\)\]\s*mod\s+\w+\s*\{", text)
            if t:
                text = text[:t.start()]
            fns = [(m.start(), m.group(1)) for m in re.finditer(r"\bfn\s+([a-z_0-9]+)\s*[<(]", text)]

            def fn_at(pos):
                name = "?"
                for p_, n_ in fns:
                    if p_ < pos:
                        name = n_
                return name
            for m in re.finditer(r"\b(ExternalPid|ExternalReference)\s*(::\s*[a-z_]+\s*\(|\{)", text):
                # a struct pattern/literal `ExternalPid {` or an associated function call
                if m.group(2) == "{" and re.search(r"(->|\bfor|\bimpl|\bstruct)\s*$", text[:m.start()]):
                    continue   # a return type, an impl header or the definition, not a literal/pattern
                what = m.group(1) + ("::" + re.sub(r"[\s:(]", "", m.group(2)) if m.group(2) != "{" else "{}")
                ctor.append(f"{crate}/{f}:{fn_at(m.start())}:{what}")
            for m in re.finditer(r"\.\s*allocate\s*\(\s*\)", text):
                alloc_calls.append(f"{crate}/{f}:{fn_at(m.start())}")
            for m in re.finditer(r"\.\s*make_reference\s*\(\s*\)", text):
                ref_calls.append(f"{crate}/{f}:{fn_at(m.start())}")
            for m in re.finditer(r"\bcreation\s*\.\s*(store|swap|fetch_add|fetch_update|compare_exchange)\s*\(|\.\s*(set_creation)\s*\(", text):
                cre_stores.append(f"{crate}/{f}:{fn_at(m.start())}:{m.group(1) or m.group(2)}")
            # the allocator itself: every place that builds one, every write to a field that holds one, every use of the
            # accessors that hand out the raw counters
            for m in re.finditer(r"\bPidAllocator\s*::\s*new\s*\(", text):
                alloc_new.append(f"{crate}/{f}:{fn_at(m.start())}")
            for m in re.finditer(r"\bpid_allocator\s*(=(?!=)|,|:(?!:))", text):
                kind = {"=": "assign", ",": "init", ":": "init"}[m.group(1)[0]]
                if kind == "init" and re.search(r"\bpid_allocator\s*:\s*Arc\s*<", text[m.start():m.start() + 40]):
                    continue   # the field's declaration
                if kind == "assign" and re.search(r"\blet\s+(mut\s+)?$", text[:m.start()]):
                    kind = "let"   # a local binding, not a write to the field
                alloc_writes.append(f"{crate}/{f}:{fn_at(m.start())}:{kind}")
            for m in re.finditer(r"\.\s*(next_id_test_only|next_serial_test_only)\s*\(", text):
                raw_uses.append(f"{crate}/{f}:{fn_at(m.start())}:{m.group(1)}")
    node = read("crates/edp_node/src/node.rs")
    if node is not None:
        if not re.search(r"pub\s+async\s+fn\s+start\s*\(\s*&mut\s+self", node):
            broken.append("Node::start no longer takes `&mut self` (exclusive access while the creation changes)")
        if not re.search(r"if\s+self\.started\.swap\(\s*true\s*,", node):
            broken.append("Node::start no longer refuses a second start (`started.swap(true, …)`)")
        if not re.search(r"let\s+creation\s*=\s*1\s*;\s*let\s+pid_allocator\s*=\s*Arc::new\(PidAllocator::new\(name_atom\.clone\(\),\s*creation\)\);\s*let\s+creation\s*=\s*Arc::new\(AtomicU32::new\(creation\)\);", re.sub(r"\s+", " ", node)):
            broken.append("Node: allocator and node no longer start from the same creation 1")
    lines.append("/-- C16: every construction of an ExternalPid / ExternalReference in edp_client and edp_node (tests cut), as `crate/file:function:what` -/")
    lines.append(f"def ID_CONSTRUCTOR_SITES : List String := {strs(ctor)}")
    lines.append("/-- C16: every call of `PidAllocator::allocate` -/")
    lines.append(f"def ALLOCATE_CALL_SITES : List String := {strs(alloc_calls)}")
    lines.append("/-- C16: every call of `Node::make_reference` -/")
    lines.append(f"def MAKE_REFERENCE_CALL_SITES : List String := {strs(ref_calls)}")
    lines.append("/-- C16: every store to a `creation` (the node's or the allocator's) -/")
    lines.append(f"def CREATION_STORE_SITES : List String := {strs(cre_stores)}")
    lines.append("/-- C16: every `PidAllocator::new(` in edp_client and edp_node (tests cut) -/")
    lines.append(f"def PID_ALLOCATOR_NEW_SITES : List String := {strs(alloc_new)}")
    lines.append("/-- C16: every write to a `pid_allocator` field: assignment or struct-literal initialiser -/")
    lines.append(f"def PID_ALLOCATOR_FIELD_WRITES : List String := {strs(alloc_writes)}")
    lines.append("/-- C16: every use of the `*_test_only` accessors (raw counters) outside tests -/")
    lines.append(f"def RAW_COUNTER_ACCESSOR_USES : List String := {strs(raw_uses)}")
    lines.append("")
    return lines, broken


def gen_c02(read, num):
    """C02 part: the resource-relevant shape of crates/erltf/src/decoder.rs that the resource model (Impl/DecodeMeter.lean)
    transcribes — every pre-allocation site and its argument, the depth argument of every recursive `parse_term` call, the
    size guards, the inflate limit, every index / slice expression, every `as usize` cast with the width of its source,
    the public decoding functions, and the frame limits of the connection."""
    broken = []
    lines = []
    dec = read("crates/erltf/src/decoder.rs")
    conn = read("crates/edp_client/src/connection.rs")
    framing = read("crates/edp_client/src/framing.rs")
    caps, depths, guards, idx, casts, pubs = [], [], [], [], [], []
    bc_body, take_arg = "", ""
    if dec is None:
        broken.append("decoder.rs missing")
    else:
        text = re.sub(r"//[^\n]*", "", dec)
        fns = [(m.start(), m.group(1)) for m in re.finditer(r"\bfn\s+([a-z_0-9]+)\s*[<(]", text)]

        def fn_at(pos):
            name = "?"
            for p0, n in fns:
                if p0 < pos:
                    name = n
            return name

        def balanced(start):
            """text of the parenthesised argument list that opens at text[start] == '('"""
            d = 0
            for j in range(start, len(text)):
                if text[j] == "(":
                    d += 1
                elif text[j] == ")":
                    d -= 1
                    if d == 0:
                        return text[start + 1:j]
            return None

        for m in re.finditer(r"\bwith_capacity\s*\(", text):
            a = balanced(m.end() - 1)
            if a is None:
                broken.append("unbalanced with_capacity(")
                continue
            caps.append((fn_at(m.start()), re.sub(r"\s+", "", a)))
        if not caps:
            broken.append("no with_capacity( site found in decoder.rs")
        for m in re.finditer(r"\bparse_term\s*\(", text):
            if text[max(0, m.start() - 3):m.start()] == "fn ":
                continue
            a = balanced(m.end() - 1)
            if a is None:
                broken.append("unbalanced parse_term(")
                continue
            parts = [re.sub(r"\s+", "", x) for x in a.split(",")]
            if len(parts) != 3:
                broken.append("parse_term( call without three arguments: " + a)
                continue
            depths.append((fn_at(m.start()), parts[2]))
        if not depths:
            broken.append("no parse_term( call found in decoder.rs")
        for m in re.finditer(r"if\s+([a-z_]+)\s+as\s+usize\s*>\s*(MAX_[A-Z_]+)\s*\{", text):
            guards.append((fn_at(m.start()), m.group(2)))
        b = _fn_body(text, r"fn\s+bounded_capacity\s*\(")
        if b is None:
            broken.append("fn bounded_capacity not found in decoder.rs")
        else:
            bc_body = re.sub(r"\s+", "", b)
        pc = _fn_body(text, r"fn\s+parse_compressed\s*<")
        if pc is None:
            broken.append("fn parse_compressed not found in decoder.rs")
        else:
            mt = re.search(r"\.take\s*\(", pc)
            if not mt or "read_to_end" not in pc:
                broken.append("parse_compressed: `.take(..).read_to_end(..)` not found")
            else:
                d, j0 = 0, mt.end() - 1
                for j in range(j0, len(pc)):
                    if pc[j] == "(":
                        d += 1
                    elif pc[j] == ")":
                        d -= 1
                        if d == 0:
                            take_arg = re.sub(r"\s+", "", pc[j0 + 1:j])
                            break
        # index / slice expressions `name[...]` (not attributes, not array types or literals)
        for m in re.finditer(r"(?<![#A-Za-z0-9_])([a-z_][a-z_0-9]*)\s*\[([^\[\]]*)\]", text):
            inner = m.group(2).strip()
            if m.group(1) in ("vec", "allow", "derive") or inner in ("", "u8") or re.fullmatch(r"0u8;\s*16", inner):
                continue
            idx.append((fn_at(m.start()), m.group(1) + "[" + re.sub(r"\s+", "", inner) + "]"))
        # `x as usize` with the reader that bound x in the same function
        for m in re.finditer(r"\b([a-z_][a-z_0-9]*(?:\.[a-z_]+\(\))?)\s+as\s+usize\b", text):
            var = m.group(1)
            fn = fn_at(m.start())
            body = _fn_body(text, r"fn\s+" + fn + r"\s*[<(]") or ""
            src = "?"
            mb = re.search(r"let\s*\(\s*[a-z_]+\s*,\s*" + re.escape(var) + r"\s*\)\s*=\s*be_(u8|u16|u32|u64)\s*\(", body)
            if mb:
                src = mb.group(1)
            elif var == "decoder.total_in()":
                src = "u64"
            elif var in ("i",):
                mi = re.search(r"for\s+i\s+in\s+0\.\.([a-z_]+)", body)
                if mi:
                    mb2 = re.search(r"let\s*\(\s*[a-z_]+\s*,\s*" + mi.group(1) + r"\s*\)\s*=\s*be_(u8|u16|u32|u64)\s*\(", body)
                    src = mb2.group(1) if mb2 else "?"
            casts.append((var, src))
        for m in re.finditer(r"pub\s+fn\s+([a-z_0-9]+)\s*(?:<[^>]*>)?\s*\(\s*([a-z_]+)\s*:\s*&(?:'[a-z]+\s+)?\[u8\]", text):
            pubs.append(m.group(1))
        if not pubs:
            broken.append("no public decoding function found in decoder.rs")

    def limit(src, fname):
        if src is None:
            broken.append(fname + " missing")
            return 0
        m = re.search(r"const\s+MAX_MESSAGE_SIZE\s*:\s*usize\s*=\s*([0-9_*\s]+);", src)
        if not m:
            broken.append("const MAX_MESSAGE_SIZE not found in " + fname)
            return 0
        v = 1
        for f in m.group(1).split("*"):
            v *= num(f.strip())
        return v

    conn_limit = limit(conn, "connection.rs")
    framing_limit = limit(framing, "framing.rs")

    def pairs(xs):
        return "[" + ", ".join('("' + a + '", "' + b + '")' for a, b in xs) + "]"

    def strs(xs):
        return "[" + ", ".join('"' + x + '"' for x in xs) + "]"

    def uniq(xs):
        out = []
        for x in xs:
            if x not in out:
                out.append(x)
        return out

    lines.append("/-- every `with_capacity(..)` of crates/erltf/src/decoder.rs: function and argument -/")
    lines.append(f"def C02_CAPACITY_SITES : List (String × String) := {pairs(caps)}")
    lines.append("/-- body of `bounded_capacity` -/")
    lines.append(f'def C02_BOUNDED_CAPACITY : String := "{bc_body}"')
    lines.append("/-- depth argument of every call of `parse_term` in decoder.rs, with the calling function -/")
    lines.append(f"def C02_PARSE_TERM_DEPTHS : List (String × String) := {pairs(depths)}")
    lines.append("/-- `if <count> as usize > MAX_…` guards: function and limit -/")
    lines.append(f"def C02_SIZE_GUARDS : List (String × String) := {pairs(guards)}")
    lines.append("/-- how many bytes `parse_compressed` lets the inflater produce -/")
    lines.append(f'def C02_INFLATE_TAKE : String := "{take_arg}"')
    lines.append("/-- every index / slice expression of decoder.rs (the sites that can panic), with its function -/")
    lines.append(f"def C02_INDEX_SITES : List (String × String) := {pairs(idx)}")
    lines.append("/-- every `<expr> as usize` of decoder.rs with the type the expression was read as (distinct ones) -/")
    lines.append(f"def C02_USIZE_CASTS : List (String × String) := {pairs(uniq(casts))}")
    lines.append("/-- the public functions of decoder.rs that take a byte slice -/")
    lines.append(f"def C02_PUBLIC_DECODERS : List String := {strs(pubs)}")
    lines.append("/-- `MAX_MESSAGE_SIZE` of connection.rs and of framing.rs: the longest frame handed to a decoder -/")
    lines.append(f"def C02_CONNECTION_FRAME_LIMIT : Nat := {conn_limit}")
    lines.append(f"def C02_FRAMING_FRAME_LIMIT : Nat := {framing_limit}")
    lines.append("")
    return lines, broken


def gen_c01(read, num):
    """C01 part: every size decision of encoder.rs — the width thresholds (small/large forms), the `try_from` guards
    with the error each one maps to, and every cast of a length that has no guard in front of it."""
    broken = []
    lines = []
    src = read("crates/erltf/src/encoder.rs")
    guards = []
    casts = []
    th = {"SMALL_INT_MAX": 0, "SMALL_BIG_MAX": 0, "BIGINT_SMALL_MAX": 0, "SMALL_ATOM_MAX": 0, "SMALL_TUPLE_MAX": 0}
    int32 = False
    atom_limit_ty = ""
    fns = ["encode_atom_impl", "encode_integer", "encode_float", "encode_binary", "encode_bit_binary", "encode_string",
           "encode_list_impl", "encode_improper_list_impl", "encode_map_impl", "encode_tuple_impl", "encode_pid_impl",
           "encode_port_impl", "encode_reference_impl", "encode_bigint", "encode_nil", "encode_export_ext_impl",
           "encode_new_fun_ext_impl"]
    if src is None:
        broken.append("encoder.rs missing")
    else:
        code = re.sub(r"//[^\n]*", "", src)
        bodies = {}
        for f in fns:
            b = _fn_body(code, r"fn\s+" + f + r"\b[^{;]*\{")
            if b is None:
                broken.append(f"fn {f} not found in encoder.rs")
                b = ""
            bodies[f] = b
        # every term-encoding function of the dispatch must be one of the above
        disp = _fn_body(code, r"fn\s+encode_term_impl\b[^{;]*\{") or ""
        for callee in re.findall(r"=>\s*\{?\s*(encode_[a-z_]+)\(", disp):
            if callee not in fns:
                broken.append(f"encode_term_impl dispatches to {callee}, which the C01 table does not know")
        for f in fns:
            b = bodies[f]
            for ty, what, err in re.findall(r"(u8|u16|u32|u64)::try_from\(\s*([A-Za-z_\.]+?)\.len\(\)\s*\)\s*\.map_err\(\s*\|_\|\s*EncodeError::([A-Za-z]+)", b):
                guards.append((f, ty, err))
            guarded = bool(re.search(r"::try_from\(", b))
            for expr, ty in re.findall(r"(\(?[a-z_\.]+(?:\(\))?(?:\s*\+\s*\d+\))?)\s+as\s+(u8|u16|u32)\b", b):
                e = re.sub(r"\s+", "", expr)
                if e.count("(") > e.count(")"):
                    e = e.lstrip("(")
                # a cast of something that is (or contains) a length / count
                if "len" in e:
                    casts.append((f, e + " as " + ty))
        b = bodies["encode_atom_impl"]
        m = re.search(r"if\s+len\s*>\s*(u8|u16|u32)::MAX\s+as\s+usize\s*\{\s*return\s+Err\(\s*EncodeError::([A-Za-z]+)", b)
        if not m:
            broken.append("encode_atom_impl: `if len > uN::MAX as usize { return Err(EncodeError::X` not found")
        else:
            atom_limit_ty = m.group(1)
            guards.insert(0, ("encode_atom_impl", m.group(1), m.group(2)))
        m = re.search(r"if\s+len\s*>\s*([0-9_]+)\s*\{\s*buf\.put_u8\(ATOM_UTF8_EXT\)", b)
        if not m:
            broken.append("encode_atom_impl: `if len > <n> { buf.put_u8(ATOM_UTF8_EXT)` not found")
        else:
            th["SMALL_ATOM_MAX"] = num(m.group(1))
        b = bodies["encode_integer"]
        m = re.search(r"if\s+\(0\.\.=([0-9_]+)\)\.contains\(&value\)\s*\{\s*buf\.put_u8\(SMALL_INTEGER_EXT\)", b)
        if not m:
            broken.append("encode_integer: `if (0..=<n>).contains(&value) { buf.put_u8(SMALL_INTEGER_EXT)` not found")
        else:
            th["SMALL_INT_MAX"] = num(m.group(1))
        int32 = bool(re.search(r"else\s+if\s+value\s*>=\s*i32::MIN\s+as\s+i64\s*&&\s*value\s*<=\s*i32::MAX\s+as\s+i64\s*\{\s*buf\.put_u8\(INTEGER_EXT\)", b))
        if not int32:
            broken.append("encode_integer: `else if value >= i32::MIN as i64 && value <= i32::MAX as i64 { buf.put_u8(INTEGER_EXT)` not found")
        m = re.search(r"if\s+significant_len\s*<=\s*([0-9_]+)\s*\{\s*buf\.put_u8\(SMALL_BIG_EXT\)", b)
        if not m:
            broken.append("encode_integer: `if significant_len <= <n> { buf.put_u8(SMALL_BIG_EXT)` not found")
        else:
            th["SMALL_BIG_MAX"] = num(m.group(1))
        m = re.search(r"if\s+len\s*<=\s*([0-9_]+)\s*\{\s*buf\.put_u8\(SMALL_BIG_EXT\)", bodies["encode_bigint"])
        if not m:
            broken.append("encode_bigint: `if len <= <n> { buf.put_u8(SMALL_BIG_EXT)` not found")
        else:
            th["BIGINT_SMALL_MAX"] = num(m.group(1))
        m = re.search(r"if\s+elements\.len\(\)\s*<=\s*([0-9_]+)\s*\{\s*buf\.put_u8\(SMALL_TUPLE_EXT\)", bodies["encode_tuple_impl"])
        if not m:
            broken.append("encode_tuple_impl: `if elements.len() <= <n> { buf.put_u8(SMALL_TUPLE_EXT)` not found")
        else:
            th["SMALL_TUPLE_MAX"] = num(m.group(1))
        if not re.search(r"if\s+elements\.is_empty\(\)\s*\{\s*return\s+encode_nil\(buf\)", bodies["encode_list_impl"]):
            broken.append("encode_list_impl: `if elements.is_empty() { return encode_nil(buf)` not found")

    def triple(t):
        return "(" + ", ".join('"' + x + '"' for x in t) + ")"
    lines.append("/-- encoder.rs: every size guard of the term encoder as (function, integer type the length must fit, `EncodeError` variant) -/")
    lines.append("def C01_ENC_SIZE_GUARDS : List (String × String × String) := [" + ", ".join(triple(g) for g in guards) + "]")
    lines.append("/-- encoder.rs: every `<length expression> as uN` cast in the term encoder, as (function, cast) -/")
    lines.append("def C01_ENC_LEN_CASTS : List (String × String) := [" + ", ".join(triple(c) for c in casts) + "]")
    lines.append("/-- encoder.rs width thresholds: largest value / length written in the small form -/")
    for k in ("SMALL_INT_MAX", "SMALL_BIG_MAX", "BIGINT_SMALL_MAX", "SMALL_ATOM_MAX", "SMALL_TUPLE_MAX"):
        lines.append(f"def C01_ENC_{k} : Nat := {th[k]}")
    lines.append("/-- `encode_integer` writes INTEGER_EXT exactly for the remaining values of the i32 range -/")
    lines.append(f"def C01_ENC_INT32_RANGE : Bool := {'true' if int32 else 'false'}")
    lines.append("")
    return lines, broken


def gen_c17(read, num):
    """C17 part: `Node::rpc_call_raw_with_timeout` as the sequence of its accesses to shared state, awaits and exits in
    source order; the two places where the key text of `pending_rpcs` is built; the `Send` arm of `route_message`; the
    wrappers (`rpc_call`, `rpc_call_with_timeout`, `rpc_call_raw`), the `erlang_*` convenience calls, the request term
    and `OwnedTerm::into_rex_response`.  `Props/C17.lean` compares these with the steps / program counters of the
    model, so a new await, early return, removal or wrapper is a broken proof obligation."""
    broken, lines = [], []

    def strs(xs):
        return "[" + ", ".join('"' + x.replace("\\", "\\\\").replace('"', '\\"') + '"' for x in xs) + "]"

    def clean(body):
        body = re.sub(r"//[^\n]*", "", body)
        body = re.sub(r"#\[cfg\(edp_rs_verif\)\]", "", body)
        body = re.sub(r"tracing\s*::\s*[a-z]+!\s*\((?:[^()]|\([^()]*\))*\)\s*;", "", body)
        return re.sub(r"\s+", "", body)

    node = read("crates/edp_node/src/node.rs")
    steps, key_call, key_route, route_steps, wrappers, req_shape, req_to = [], ("", []), ("", []), [], [], [], ""
    timeout_ms = 0
    guard_drop = []
    if node is None:
        broken.append("node.rs missing")
    else:
        body = _fn_body(node, r"pub\s+async\s+fn\s+rpc_call_raw_with_timeout\s*\(")
        if body is None:
            broken.append("node.rs: fn rpc_call_raw_with_timeout body not found")
        else:
            b = clean(body)
            pat = re.compile(
                r"(?P<allocate>\.allocate\(\))|(?P<expect>\.expect\()|(?P<channel>oneshot::channel\(\))"
                r"|yield_point\(\"(?P<yield>[a-z_:]+)\"\)\.await"
                r"|(?P<insert>self\.pending_rpcs\.insert\()|(?P<guard>PendingRpcGuard\{)"
                r"|(?P<get>self\.connections\.get\()|(?P<lock>conn\.lock\(\)\.await)"
                r"|(?P<send>\.send_to_name\((?:[^()]|\([^()]*\))*\)\.await)"
                r"|(?P<remove>self\.pending_rpcs\.remove\()|(?P<reterr>returnErr\()"
                r"|(?P<timeout>tokio::time::timeout\(timeout,rx\)\.await)"
                r"|map_err\(\|_\|Error::(?P<tryerr>[A-Za-z]+)(?:\([a-z_]*\))?\)\?"
                r"|(?P<await>\.await)|(?P<try>\?)|(?P<retok>Ok\(response\)$)|(?P<ret>\breturn\b)")
            names = {"allocate": "allocate", "expect": "expect", "channel": "channel", "insert": "insert", "guard": "guard",
                     "get": "get", "lock": "await:lock", "send": "await:send_to_name", "remove": "remove",
                     "reterr": "return:err", "timeout": "await:timeout", "await": "await:?", "try": "try:?",
                     "retok": "return:ok", "ret": "return:?"}
            for m in pat.finditer(b):
                k = m.lastgroup
                if k == "yield":
                    steps.append("yield:" + m.group("yield"))
                elif k == "tryerr":
                    steps.append("try:" + m.group("tryerr"))
                else:
                    steps.append(names[k])
            if not steps:
                broken.append("node.rs rpc_call_raw_with_timeout: no step recognised")
            m = re.search(r"format!\(\"([^\"]*)\",((?:reply_to_pid\.[a-z_]+,?)+)\)", b)
            if not m:
                broken.append("node.rs rpc_call_raw_with_timeout: `format!(\"..\", reply_to_pid.<field>, ..)` (key text) not found")
            else:
                key_call = (m.group(1), re.findall(r"reply_to_pid\.([a-z_]+)", m.group(2)))
            m = re.search(r"OwnedTerm::Tuple\(vec!\[OwnedTerm::Pid\(reply_to_pid\.clone\(\)\),OwnedTerm::Tuple\(vec!\[((?:OwnedTerm::[A-Za-z]+\((?:[^()]|\([^()]*\))*\),?)+)\]\),?\]\)", b)
            if not m:
                broken.append("node.rs rpc_call_raw_with_timeout: request `{Pid, {..}}` not found")
            else:
                for kind, arg in re.findall(r"OwnedTerm::([A-Za-z]+)\(((?:[^()]|\([^()]*\))*)\)", m.group(1)):
                    lit = re.fullmatch(r"Atom::new\(\"([^\"]*)\"\)", arg)
                    var = re.fullmatch(r"Atom::new\(([a-z_]+)\)", arg)
                    if kind == "Atom" and lit:
                        req_shape.append("atom:" + lit.group(1))
                    elif kind == "Atom" and var:
                        req_shape.append("atom=" + var.group(1))
                    elif kind == "List" and re.fullmatch(r"[a-z_]+", arg):
                        req_shape.append("list=" + arg)
                    else:
                        req_shape.append("?" + kind)
            m = re.search(r"\.send_to_name\(reply_to_pid,Atom::new\(\"([^\"]*)\"\),call_request\)", b)
            if not m:
                broken.append("node.rs rpc_call_raw_with_timeout: `send_to_name(reply_to_pid, Atom::new(\"..\"), call_request)` not found")
            else:
                req_to = m.group(1)
        m = re.search(r"impl\s+Drop\s+for\s+PendingRpcGuard\s*<[^>]*>\s*\{", node)
        gb = _fn_body(node[m.start():], r"fn\s+drop\s*\(\s*&mut\s+self\s*\)\s*\{") if m else None
        if gb is None:
            broken.append("node.rs: impl Drop for PendingRpcGuard not found")
        else:
            guard_drop = re.findall(r"self\.([a-z_]+)\.([a-z_]+)\(self\.([a-z_]+)\)", clean(gb))
            guard_drop = [".".join(x) for x in guard_drop]
        body = _fn_body(node, r"async\s+fn\s+route_message\s*\(")
        if body is None:
            broken.append("node.rs: fn route_message body not found")
        else:
            b = clean(body)
            m = re.search(r"ControlMessage::Send\{to_pid,\.\.\}\|ControlMessage::SendTt\{to_pid,\.\.\}=>\{(.*?)\}ControlMessage::RegSend", b)
            if not m:
                broken.append("node.rs route_message: `Send { to_pid, .. } | SendTt { to_pid, .. } => {` arm not found")
            else:
                arm = m.group(1)
                pat = re.compile(
                    r"(?P<payload>ifletSome\(body\)=payload)|(?P<pid>&&letOwnedTerm::Pid\(pid\)=to_pid)"
                    r"|(?P<get>ifletSome\(handle\)=registry\.get\(&pid\)\.await)"
                    r"|(?P<deliver>handle\.send\(Message::Regular\{from:None,body\}\)\.await\?)|(?P<else>\}else\{)"
                    r"|yield_point\(\"(?P<yield>[a-z_:]+)\"\)\.await"
                    r"|(?P<remove>ifletSome\(\(_key,sender\)\)=pending_rpcs\.remove\(&pid_str\))"
                    r"|(?P<send>let_=sender\.send\(body\))|(?P<await>\.await)|(?P<try>\?)|(?P<ret>\breturn\b)")
                names = {"payload": "payload?", "pid": "pid?", "get": "registry.get", "deliver": "process.send", "else": "else",
                         "remove": "pending.remove", "send": "sender.send", "await": "await:?", "try": "try:?", "ret": "return:?"}
                for x in pat.finditer(arm):
                    k = x.lastgroup
                    route_steps.append("yield:" + x.group("yield") if k == "yield" else names[k])
                x = re.search(r"format!\(\"([^\"]*)\",((?:pid\.[a-z_]+,?)+)\)", arm)
                if not x:
                    broken.append("node.rs route_message: `format!(\"..\", pid.<field>, ..)` (key text) not found")
                else:
                    key_route = (x.group(1), re.findall(r"pid\.([a-z_]+)", x.group(2)))
        for name in ("rpc_call", "rpc_call_with_timeout", "rpc_call_raw"):
            body = _fn_body(node, r"pub\s+async\s+fn\s+" + name + r"\s*\(")
            if body is None:
                broken.append(f"node.rs: fn {name} body not found")
                continue
            b = clean(body)
            m = re.search(r"self\.(rpc_call[a-z_]*)\(remote_node,module,function,args,([A-Za-z_]+)\)\.await(\??)", b)
            if not m:
                broken.append(f"node.rs {name}: `self.rpc_call…(remote_node, module, function, args, <timeout>).await` not found")
                continue
            rest = b[m.end():]
            unwrap = "rex" if re.fullmatch(r";response\.into_rex_response\(\)\.map_err\(Error::from\)", rest) else ("" if rest == "" else "?")
            if len(re.findall(r"\.await", b)) != 1:
                unwrap = "?"
            wrappers.append((name, m.group(1), m.group(2), unwrap))
        m = re.search(r"const\s+DEFAULT_RPC_TIMEOUT\s*:\s*Duration\s*=\s*Duration\s*::\s*from_(secs|millis)\s*\(\s*([0-9_]+)\s*\)\s*;", node)
        if not m:
            broken.append("node.rs: const DEFAULT_RPC_TIMEOUT: Duration = Duration::from_secs|from_millis(<n>); not found")
        else:
            timeout_ms = num(m.group(2)) * (1000 if m.group(1) == "secs" else 1)

    fns = []
    src = read("crates/edp_node/src/erlang_mod_fns.rs")
    if src is None:
        broken.append("erlang_mod_fns.rs missing")
    else:
        t = clean(src)
        heads = list(re.finditer(r"pubasyncfn([a-z_0-9]+)\(&self,remote_node:&str,?((?:[a-z_]+:[A-Za-z<>&]+,?)*)\)->Result<OwnedTerm>\{", t))
        for i, m in enumerate(heads):
            end = heads[i + 1].start() if i + 1 < len(heads) else len(t)
            b = t[m.end():end]
            c = re.search(r"self\.(rpc_call[a-z_]*)\(remote_node,\"([a-z_]+)\",\"([a-z_]+)\",(.*?),?\)\.await\}", b)
            if not c or len(re.findall(r"\.await", b)) != 1:
                broken.append(f"erlang_mod_fns.rs {m.group(1)}: body is not one `self.rpc_call(remote_node, \"m\", \"f\", args).await`")
                continue
            pre = b[:c.start()]
            params = ",".join(re.findall(r"([a-z_]+):", m.group(2)))
            fns.append((m.group(1), params, c.group(1), c.group(2), c.group(3), pre + c.group(4)))
        if len(re.findall(r"\bfn\b", re.sub(r"//[^\n]*", "", src))) != len(fns):
            broken.append("erlang_mod_fns.rs: a function that is not `pub async fn f(&self, remote_node: &str, ..) -> Result<OwnedTerm>` with a single rpc call")

    rex = (0, "", 0)
    term = read("crates/erltf/src/term.rs")
    if term is None:
        broken.append("term.rs missing")
    else:
        body = _fn_body(term, r"pub\s+fn\s+into_rex_response\s*\(\s*self\s*\)")
        m = re.fullmatch(r"matchself\{OwnedTerm::Tuple\(mutelements\)ifelements\.len\(\)==([0-9]+)=>\{ifelements\[0\]\.is_atom_with_name\(\"([a-z]+)\"\)\{Ok\(elements\.swap_remove\(([0-9]+)\)\)\}else\{Err\(TermConversionError::WrongType\{expected:\"[^\"]*\",actual:\"[^\"]*\",?\}\)\}\}_=>Err\(TermConversionError::WrongType\{expected:\"[^\"]*\",actual:self\.type_name\(\),?\}\),?\}", clean(body) if body else "")
        if not m:
            broken.append("term.rs into_rex_response: no longer `Tuple(elements) if len == 2 => if elements[0] is atom \"rex\" { Ok(elements.swap_remove(1)) } else Err; _ => Err`")
        else:
            rex = (num(m.group(1)), m.group(2), num(m.group(3)))
            if rex[2] != rex[0] - 1:
                broken.append("term.rs into_rex_response: swap_remove of an element that is not the last one reorders the rest")

    # every use of the node's allocator and of its creation cell, over the whole file
    alloc_uses, creation_uses = [], []
    if node is not None:
        text = re.sub(r"//[^\n]*", "", node)
        fnpos = [(m.start(), m.group(1)) for m in re.finditer(r"\bfn\s+([a-z_0-9]+)\s*[<(]", text)]

        def where(pos):
            fn = "-"
            for p0, name in fnpos:
                if p0 < pos:
                    fn = name
            return fn

        for m in re.finditer(r"\bpid_allocator\b", text):
            rest = re.sub(r"\s+", "", text[m.end():m.end() + 200])
            before = re.sub(r"\s+", "", text[max(0, m.start() - 40):m.start()])
            x = re.match(r"\.([a-z_]+)\(", rest)
            if x:
                what = "." + x.group(1) + "()"
            elif rest.startswith("=Arc::new(PidAllocator::new("):
                what = "=new"
            elif rest.startswith("=") and not rest.startswith("=="):
                what = "=?"
            elif rest.startswith(":Arc<PidAllocator>"):
                what = ":field"
            elif rest.startswith(","):
                what = ",init"
            else:
                what = "?" + rest[:12]
            if before.endswith("let") and what == "=new":
                what = "let=new"
            alloc_uses.append(("struct" if what == ":field" else where(m.start())) + ":" + what)
        for m in re.finditer(r"\bself\s*\.\s*creation\b", text):
            rest = re.sub(r"\s+", "", text[m.end():m.end() + 80])
            x = re.match(r"\.([a-z_]+)\(", rest)
            what = "." + x.group(1) + "()" if x else ("=?" if rest.startswith("=") and not rest.startswith("==") else "?" + rest[:12])
            creation_uses.append(where(m.start()) + ":" + what)
        if not alloc_uses:
            broken.append("node.rs: no use of `pid_allocator` found")
    lines.append("/-- every occurrence of `pid_allocator` in node.rs as `function:use` (`.m()` a method call, `=new` an assignment of a new")
    lines.append("allocator, `=?` another assignment, `:field` the field declaration, `,init` the struct literal) -/")
    lines.append(f"def NODE_PID_ALLOCATOR_USES : List String := {strs(alloc_uses)}")
    lines.append("/-- every occurrence of `self.creation` in node.rs as `function:use` -/")
    lines.append(f"def NODE_CREATION_USES : List String := {strs(creation_uses)}")
    lines.append("/-- `Node::rpc_call_raw_with_timeout` (node.rs): allocation, accesses to `pending_rpcs` / `connections`, every `.await`")
    lines.append("(`yield:` = verification yield point), every early return / `?` / `expect`, in source order -/")
    lines.append(f"def RPC_CALL_STEPS : List String := {strs(steps)}")
    lines.append("/-- the key text of `pending_rpcs` as built by the caller and by `route_message`: format string and pid fields -/")
    lines.append(f"def RPC_KEY_FORMAT_CALL : String × List String := (\"{key_call[0]}\", {strs(key_call[1])})")
    lines.append(f"def RPC_KEY_FORMAT_ROUTE : String × List String := (\"{key_route[0]}\", {strs(key_route[1])})")
    lines.append("/-- what `PendingRpcGuard::drop` does -/")
    lines.append(f"def RPC_GUARD_DROP : List String := {strs(guard_drop)}")
    lines.append("/-- the `Send | SendTt` arm of `Node::route_message` in source order -/")
    lines.append(f"def ROUTE_SEND_ARM_STEPS : List String := {strs(route_steps)}")
    lines.append("/-- the second element of the request `{Pid, {..}}` and the registered name it is sent to -/")
    lines.append(f"def RPC_REQUEST_SHAPE : List String := {strs(req_shape)}")
    lines.append(f"def RPC_REQUEST_TO : String := \"{req_to}\"")
    lines.append("/-- the wrappers: name, the call it awaits, its timeout argument, what it does to the result (`rex` = `into_rex_response`) -/")
    lines.append("def RPC_WRAPPERS : List (String × String × String × String) := [" + ", ".join(f'("{a}", "{b}", "{c}", "{d}")' for a, b, c, d in wrappers) + "]")
    lines.append("/-- `DEFAULT_RPC_TIMEOUT` of node.rs in milliseconds -/")
    lines.append(f"def DEFAULT_RPC_TIMEOUT_MS : Nat := {timeout_ms}")
    lines.append("/-- erlang_mod_fns.rs: name, parameters after `remote_node`, the call it awaits, module, function, argument expression -/")
    lines.append("def ERLANG_MOD_FNS : List (String × String × String × String × String × String) := [")
    lines.append(",\n".join("  (" + ", ".join('"' + x.replace('"', '\\"') + '"' for x in f) + ")" for f in fns))
    lines.append("]")
    lines.append("/-- `OwnedTerm::into_rex_response` (term.rs): tuple arity, name of the first element, index of the element returned -/")
    lines.append(f"def REX_RESPONSE : Nat × String × Nat := ({rex[0]}, \"{rex[1]}\", {rex[2]})")
    lines.append("")
    return lines, broken


def _strip_macro_calls(text, name):
    """Remove every `name!( … )` (balanced) from whitespace-free text."""
    out = []
    i = 0
    key = name + "!("
    while True:
        j = text.find(key, i)
        if j < 0:
            out.append(text[i:])
            break
        out.append(text[i:j])
        depth = 0
        k = j + len(key) - 1
        while k < len(text):
            if text[k] == "(":
                depth += 1
            elif text[k] == ")":
                depth -= 1
                if depth == 0:
                    break
            k += 1
        i = k + 1
        if text[i:i + 1] == ";":
            i += 1
    return "".join(out)


def _callee_of_try(text, close):
    """`text[close]` is the `)` of a `…(…)?`: the callee expression in front of the matching `(`."""
    depth = 0
    k = close
    while k >= 0:
        if text[k] == ")":
            depth += 1
        elif text[k] == "(":
            depth -= 1
            if depth == 0:
                break
        k -= 1
    j = k
    while j > 0 and re.match(r"[A-Za-z0-9_:.]", text[j - 1]):
        j -= 1
    name = text[j:k]
    if name.endswith(".await"):
        name = name[:-len(".await")]
    return name


def _recv_events(seg):
    """Events of one stretch of `receive_message` in textual order: ('mut', what) — a statement that changes connection
    state — and ('exit', kind, label) — a place where the iteration ends."""
    ev = []
    for m in re.finditer(r"self\.fragment_assembler\.([a-z_]+)\(", seg):
        ev.append((m.start(), ("mut", "fragment_assembler." + m.group(1))))
    for m in re.finditer(r"&mutself\.atom_cache", seg):
        ev.append((m.start(), ("mut", "atom_cache")))
    for m in re.finditer(r"\)(?:\.await)?\?", seg):
        name = _callee_of_try(seg, m.start())
        if name.endswith("map_err") and "read_exact(" in seg[max(0, m.start() - 160):m.start()]:
            name = "read_exact"
        ev.append((m.start(), ("exit", "err", name.split("::")[-1].split(".")[-1])))
        if name.endswith("read_message"):
            # from here on a frame has been taken off the transport
            ev.append((m.start() + 1, ("mut", "transport.read_frame")))
    for m in re.finditer(r"returnErr\(Error::([A-Za-z]+)", seg):
        ev.append((m.start(), ("exit", "err", "Err" + m.group(1))))
    for m in re.finditer(r"returnSelf::([a-z_]+)\(", seg):
        end = seg.find(";", m.end())
        end = end if end >= 0 else m.end()
        ev.append((end, ("exit", "result", m.group(1))))
        # what the returned call is handed as `&mut` is changed on this path only
        ev = [(p, ("mut_in_return", e[1])) if e[0] == "mut" and m.start() < p < end else (p, e) for p, e in ev]
    for m in re.finditer(r"continue;", seg):
        ev.append((m.start(), ("exit", "continue", "continue")))
    for m in re.finditer(r"returnOk\(", seg):
        ev.append((m.start(), ("exit", "ok", "Ok")))
    ev.sort(key=lambda e: e[0])
    return [e[1] for e in ev]


def gen_c06(read, num):
    """C06 part: every place where one iteration of the loop of `Connection::receive_message` ends (`?`, `return Err`,
    `return Self::decode_complete_fragment(…)`, `continue`, `return Ok`), by dispatch branch, with the statements that have
    changed connection state before it on that path (frame taken off the transport, assembler calls, the atom cache handed
    out as `&mut`); likewise for `receive_message_from_read_half` and `receive_raw`. The wire tags the dispatch compares with."""
    broken = []
    lines = []
    rows = []      # (key, kind, [mutations])
    rh_rows = []
    raw_rows = []
    tags = {}
    conn = read("crates/edp_client/src/connection.rs")
    if conn is None:
        broken.append("connection.rs missing")
    else:
        for name in ("VERSION_TAG", "PASS_THROUGH", "DIST_HEADER", "DIST_FRAG_HEADER", "DIST_FRAG_CONT"):
            m = re.search(r"const\s+" + name + r"\s*:\s*u8\s*=\s*([0-9_]+)\s*;", conn)
            if not m:
                broken.append(f"const {name}: u8 = <n>; not found in connection.rs")
            else:
                tags[name] = num(m.group(1))

        def clean(body):
            t = re.sub(r"//[^\n]*", "", body)
            t = re.sub(r"\s+", "", t)
            for mac in ("trace", "debug", "warn", "error", "info"):
                t = _strip_macro_calls(t, mac)
            return t

        body = _fn_body(conn, r"pub\s+async\s+fn\s+receive_message\s*\(\s*&mut\s+self\s*\)[^{]*\{")
        if body is None:
            broken.append("fn receive_message(&mut self) body not found in connection.rs")
        else:
            t = clean(body)
            marks = [
                ("gate", ""),
                ("head", "loop{"),
                ("frag_header", "ifdata.len()>=2&&data[0]==VERSION_TAG&&data[1]==DIST_FRAG_HEADER{"),
                ("frag_cont", "}elseifdata.len()>=2&&data[0]==VERSION_TAG&&data[1]==DIST_FRAG_CONT{"),
                ("pass_through", "let(control_term,message)=if!data.is_empty()&&data[0]==PASS_THROUGH{"),
                ("dist_header", "}elseifdata.len()>=2&&data[0]==VERSION_TAG&&data[1]==DIST_HEADER{"),
                ("unmarked", "}else{"),
                ("tail", "};"),
            ]
            pos = []
            at = 0
            ok = True
            for name, mk in marks:
                j = t.find(mk, at) if mk else 0
                if j < 0:
                    broken.append(f"receive_message: dispatch marker of `{name}` (`{mk}`) not found in this order")
                    ok = False
                    break
                pos.append((name, j))
                at = j + len(mk)
            if ok:
                segs = {}
                for k, (name, j) in enumerate(pos):
                    end = pos[k + 1][1] if k + 1 < len(pos) else len(t)
                    segs[name] = _recv_events(t[j:end])
                # the tick test sits in the head, after the clean-up
                if "ifdata.is_empty(){continue;}" not in t[pos[1][1]:pos[2][1]]:
                    broken.append("receive_message: `if data.is_empty() { continue; }` not found before the dispatch")

                def walk(prefix, evs, pre, out):
                    seen = {}
                    cur = list(pre)
                    local = []
                    for e in evs:
                        if e[0] == "mut":
                            cur.append(e[1])
                        elif e[0] == "mut_in_return":
                            local.append(e[1])
                        else:
                            n = seen.get(e[2], 0)
                            seen[e[2]] = n + 1
                            out.append((prefix + ":" + e[2] + ("" if n == 0 else f"#{n + 1}"), e[1], list(cur) + local))
                            local = []
                    return cur

                walk("gate", segs["gate"], [], rows)
                head = walk("head", segs["head"], [], rows)
                for b in ("frag_header", "frag_cont", "unmarked"):
                    walk(b, segs[b], head, rows)
                for b in ("pass_through", "dist_header"):
                    after = walk(b, segs[b], head, rows)
                    walk(b + ">tail", segs["tail"], after, rows)
        body = _fn_body(conn, r"pub\s+async\s+fn\s+receive_message_from_read_half\s*\(")
        if body is None:
            broken.append("fn receive_message_from_read_half body not found in connection.rs")
        else:
            t = clean(body)
            if "self." in t:
                broken.append("receive_message_from_read_half touches `self` (the model has it stateless)")
            cur = []
            seen = {}
            for e in _recv_events(t):
                if e[0] == "mut":
                    cur.append(e[1])
                else:
                    n = seen.get(e[2], 0)
                    seen[e[2]] = n + 1
                    rh_rows.append(("rh:" + e[2] + ("" if n == 0 else f"#{n + 1}"), e[1], list(cur)))
        body = _fn_body(conn, r"pub\s+async\s+fn\s+receive_raw\s*\(\s*&mut\s+self\s*\)[^{]*\{")
        if body is None:
            broken.append("fn receive_raw body not found in connection.rs")
        else:
            t = clean(body)
            evs = _recv_events(t)
            if t.endswith("self.read_message().await"):
                evs.append(("exit", "result", "read_message"))
            cur = []
            for e in evs:
                if e[0] == "mut":
                    cur.append(e[1])
                else:
                    raw_rows.append(("raw:" + e[2], e[1], list(cur)))

    def strs(xs):
        return "[" + ", ".join('"' + x + '"' for x in xs) + "]"

    def table(name, doc, rs):
        lines.append(doc)
        lines.append(f"def {name} : List (String × String × List String) := [")
        for k, (key, kind, pre) in enumerate(rs):
            lines.append(f'  ("{key}", "{kind}", {strs(pre)})' + ("," if k + 1 < len(rs) else ""))
        lines.append("]")
        lines.append("")

    for name in ("VERSION_TAG", "PASS_THROUGH", "DIST_HEADER", "DIST_FRAG_HEADER", "DIST_FRAG_CONT"):
        lines.append(f"/-- `{name}` of crates/edp_client/src/connection.rs -/")
        lines.append(f"def RECV_{name} : Nat := {tags.get(name, 0)}")
    lines.append("")
    table("RECV_EXITS",
          "/-- `Connection::receive_message`: every place where one iteration of its loop ends, as `branch:site` (the dispatch\n"
          "branch, then the callee of the `?` / the error variant of a `return Err` / `continue` / `Ok`; `a>tail` = the common tail\n"
          "reached from branch `a`), what ends there (`err`: only an error leaves here; `result`: the callee's `Result` is returned as\n"
          "it is; `continue`; `ok`), and the statements that have changed connection state before it on that path, in order -/",
          rows)
    table("RECV_RH_EXITS",
          "/-- the same for `Connection::receive_message_from_read_half` (a static function: no connection state to change) -/",
          rh_rows)
    table("RECV_RAW_EXITS", "/-- the same for `Connection::receive_raw` -/", raw_rows)
    return lines, broken


MAILBOX_FILES = ["mailbox.rs", "process.rs", "registry.rs", "node.rs", "gen_server.rs", "gen_event.rs"]
MAILBOX_CHANNEL_METHODS = ("send", "try_send", "send_timeout", "blocking_send", "reserve", "try_reserve", "reserve_owned",
                           "try_reserve_owned", "reserve_many", "try_reserve_many", "send_many")


def _balanced_end(src, i, open_c, close_c):
    """Index just after the bracket that closes the one at src[i] (None if unbalanced)."""
    depth = 0
    for j in range(i, len(src)):
        c = src[j]
        if c == open_c:
            depth += 1
        elif c == close_c:
            depth -= 1
            if depth == 0:
                return j + 1
    return None


def _enclosing_fn(src, pos):
    last = None
    for m in re.finditer(r"\bfn\s+([a-z_0-9]+)\s*[<(]", src[:pos]):
        last = m.group(1)
    return last or ""


def gen_mailbox(read, num):
    """C18 / C19 part: the mailbox capacity (mailbox.rs), the mailbox `Node::spawn` hands to a process, and for EVERY
    place of crates/edp_node/src that puts a `Message` into a mailbox WHICH channel operation it uses: the `Message::V { .. }`
    constructions with the method call they are an argument of (awaited or not, what happens to the result), and every call
    of a channel method (`send`, `try_send`, `send_timeout`, `blocking_send`, `reserve` …) on a sender."""
    broken = []
    lines = []
    cap = 0
    new_arg = ""
    spawn_mb = ""
    deliveries = []   # (file, fn, variant, method, awaited, result)
    chan_ops = []     # (file, fn, receiver, method, awaited)
    handle_methods = []
    constructions = 0
    for fname in MAILBOX_FILES:
        raw = read("crates/edp_node/src/" + fname)
        if raw is None:
            broken.append(fname + " missing")
            continue
        src = re.sub(r"//[^\n]*", "", raw)
        cut = src.find("#[cfg(test)]")
        if cut >= 0:
            src = src[:cut]
        if fname == "mailbox.rs":
            m = re.search(r"const\s+DEFAULT_MAILBOX_CAPACITY\s*:\s*usize\s*=\s*([0-9_]+)\s*;", src)
            if not m:
                broken.append("mailbox.rs: const DEFAULT_MAILBOX_CAPACITY: usize = <n>; not found")
            else:
                cap = num(m.group(1))
            body = _fn_body(src, r"pub\s+fn\s+new\s*\(\s*\)\s*->\s*Self")
            m = re.search(r"mpsc::channel\(([A-Za-z0-9_]+)\)", _strip_ws(body or ""))
            if not m:
                broken.append("mailbox.rs: Mailbox::new does not build `mpsc::channel(<capacity>)`")
            else:
                new_arg = m.group(1)
            if "unbounded" in src:
                broken.append("mailbox.rs: an unbounded channel is mentioned")
        if fname == "node.rs":
            body = _fn_body(src, r"pub\s+async\s+fn\s+spawn\s*<")
            m = re.search(r"letmailbox=([A-Za-z_:()0-9]+);", _strip_ws(body or ""))
            if not m or "spawn_process(process,mailbox," not in _strip_ws(body or ""):
                broken.append("node.rs: Node::spawn no longer has `let mailbox = <expr>;` handed to spawn_process")
            else:
                spawn_mb = m.group(1)
        if fname == "process.rs":
            ib = _fn_body(src, r"impl\s+ProcessHandle\s*")
            if ib is None:
                broken.append("process.rs: impl ProcessHandle not found")
            else:
                for m in re.finditer(r"(?:pub\s+)?(?:async\s+)?fn\s+([a-z_0-9]+)\s*\(", ib):
                    b = _fn_body(ib[m.start():], r"fn\s+[a-z_0-9]+\s*\(") or ""
                    if "mailbox_sender" in b and m.group(1) != "new":
                        handle_methods.append(m.group(1))
        # every construction of a Message that is an argument of a method call
        for m in re.finditer(r"Message::([A-Z][A-Za-z]+)\s*\{", src):
            before = src[:m.start()].rstrip()
            if before.endswith("Control") or before.endswith("::"):
                continue   # ControlMessage::V, a path
            close = _balanced_end(src, m.end() - 1, "{", "}")
            follows = src[close:].lstrip() if close else ""
            is_pattern = follows.startswith("=>") or follows.startswith("|") or (follows.startswith("=") and not follows.startswith("=="))
            if not is_pattern:
                constructions += 1
            if not before.endswith("("):
                continue   # a pattern (match arm, if let) or a value bound to a name, not an argument
            cm = re.search(r"\.\s*([a-z_0-9]+)\s*\($", before)
            method = cm.group(1) if cm else "?"
            call_open = len(before) - 1
            call_end = _balanced_end(src, call_open, "(", ")")
            after = src[call_end:].lstrip() if call_end else ""
            awaited = after.startswith(".await")
            rest = after[len(".await"):].lstrip() if awaited else after
            stmt_start = max(src.rfind(";", 0, m.start()), src.rfind("{", 0, m.start()), src.rfind("}", 0, m.start()))
            head = _strip_ws(src[stmt_start + 1:m.start()])
            if rest.startswith("?"):
                result = "propagated"
            elif head.startswith("let_="):
                result = "ignored"
            else:
                result = "other"
            deliveries.append((fname, _enclosing_fn(src, m.start()), m.group(1), method, awaited, result))
        # every channel operation on a sender
        for m in re.finditer(r"([A-Za-z_][A-Za-z_0-9.]*)\s*\.\s*(" + "|".join(MAILBOX_CHANNEL_METHODS) + r")\s*\(", src):
            recv = re.sub(r"\s+", "", m.group(1))
            if not (recv.endswith("sender") or recv.endswith("mailbox_sender") or recv.endswith("tx")):
                continue
            call_end = _balanced_end(src, m.end() - 1, "(", ")")
            after = src[call_end:].lstrip() if call_end else ""
            chan_ops.append((fname, _enclosing_fn(src, m.start()), recv, m.group(2), after.startswith(".await")))
    if not deliveries:
        broken.append("no `.method(Message::V { .. })` construction found in crates/edp_node/src")

    def b(x):
        return "true" if x else "false"

    lines.append("/-- `DEFAULT_MAILBOX_CAPACITY` of mailbox.rs -/")
    lines.append(f"def MAILBOX_DEFAULT_CAPACITY : Nat := {cap}")
    lines.append("/-- the argument of `mpsc::channel(..)` in `Mailbox::new` -/")
    lines.append(f"def MAILBOX_NEW_CHANNEL_ARG : String := \"{new_arg}\"")
    lines.append("/-- the mailbox `Node::spawn` hands to `spawn_process` -/")
    lines.append(f"def NODE_SPAWN_MAILBOX : String := \"{spawn_mb}\"")
    lines.append("/-- every `Message::V { .. }` of crates/edp_node/src that is built as the argument of a method call, in textual order per")
    lines.append("file: (file, enclosing fn, variant, the method it is handed to, is the call awaited, what happens to the result:")
    lines.append("`propagated` = `?`, `ignored` = `let _ =`) -/")
    lines.append("def MAILBOX_DELIVERIES : List (String × String × String × String × Bool × String) := [")
    lines.append(",\n".join(f"  (\"{f}\", \"{fn}\", \"{v}\", \"{me}\", {b(aw)}, \"{r}\")" for f, fn, v, me, aw, r in deliveries))
    lines.append("]")
    lines.append("/-- number of `Message::V { .. }` expressions (everything that is not a pattern), argument of a call or not -/")
    lines.append(f"def MAILBOX_MESSAGE_CONSTRUCTIONS : Nat := {constructions}")
    lines.append("/-- every call of a channel operation on a sender (`…sender.send(..)`, `try_send`, `send_timeout`, `blocking_send`,")
    lines.append("`reserve` …) in crates/edp_node/src: (file, enclosing fn, receiver expression, method, awaited) -/")
    lines.append("def MAILBOX_CHANNEL_OPS : List (String × String × String × String × Bool) := [")
    lines.append(",\n".join(f"  (\"{f}\", \"{fn}\", \"{rc}\", \"{me}\", {b(aw)})" for f, fn, rc, me, aw in chan_ops))
    lines.append("]")
    lines.append("/-- the methods of `impl ProcessHandle` (other than `new`) that touch `mailbox_sender` -/")
    lines.append("def PROCESS_HANDLE_SENDER_METHODS : List String := [" + ", ".join('"' + x + '"' for x in handle_methods) + "]")
    lines.append("")
    return lines, broken


C07_CONN_OPS = ["send_message", "send_to_name", "link", "unlink", "monitor", "demonitor"]
C07_NODE_FNS = ["send_remote", "link", "unlink", "monitor", "demonitor"]


def gen_c04conn(read, num):
    """C04, connect path: the EPMD client's message tags, node types and reply limits (epmd_client.rs), whether the two
    request/reply exchanges on the connect/start path run under the configured timeout, and `Connection::connect` as the
    ordered list of awaited steps with, per helper, the handshake method it calls and the transport operation it awaits;
    which transport operations are wrapped in `tokio::time::timeout(self.timeout, ...)` (transport.rs).
    `Impl/Epmd.lean` and `Impl/Connect.lean` interpret these tables; `Props/C04.lean` compares them with the protocol."""
    broken = []
    lines = []
    ep = read("crates/edp_client/src/epmd_client.rs")
    consts = []
    types = []
    limits = {}
    guarded = []
    type_arms = []
    proto_arms = []
    if ep is None:
        broken.append("epmd_client.rs missing")
    else:
        found = dict(re.findall(r"const\s+([A-Z0-9_]+)\s*:\s*u8\s*=\s*([0-9]+)\s*;", ep))
        for want in ("ALIVE2_REQ", "ALIVE2_RESP", "ALIVE2_X_RESP", "PORT2_REQ", "PORT2_RESP"):
            if want not in found:
                broken.append(f"const {want}: u8 = <n>; not found in epmd_client.rs")
            else:
                consts.append((want, int(found[want])))
        ebody = _fn_body(ep, r"pub\s+enum\s+NodeType\s*\{")
        if ebody is None:
            broken.append("enum NodeType not found in epmd_client.rs")
        else:
            types = [(n, int(v)) for n, v in re.findall(r"\b([A-Z][A-Za-z0-9]*)\s*=\s*([0-9]+)\s*,", re.sub(r"//[^\n]*", "", ebody))]
            if not types:
                broken.append("enum NodeType: no `Name = <n>,` variants")
        lbody = _fn_body(ep, r"async\s+fn\s+lookup_node_exchange\s*\(") or _fn_body(ep, r"pub\s+async\s+fn\s+lookup_node\s*\(")
        if lbody is None:
            broken.append("lookup_node body not found")
        else:
            m = re.search(r"let\s+node_type\s*=\s*match\s+stream\.read_u8\(\)\.await\?\s*\{(.*?)other\s*=>", lbody, re.S)
            if not m:
                broken.append("lookup_node: `let node_type = match stream.read_u8().await? { ... other =>` not found")
            else:
                type_arms = [(int(v), n) for v, n in re.findall(r"([0-9]+)\s*=>\s*NodeType::([A-Za-z0-9]+)", m.group(1))]
            m = re.search(r"let\s+protocol\s*=\s*match\s+stream\.read_u8\(\)\.await\?\s*\{(.*?)other\s*=>", lbody, re.S)
            if not m:
                broken.append("lookup_node: `let protocol = match stream.read_u8().await? { ... other =>` not found")
            else:
                proto_arms = [(int(v), n) for v, n in re.findall(r"([0-9]+)\s*=>\s*Protocol::([A-Za-z0-9]+)", m.group(1))]
            for var, key in (("nlen", "EPMD_MAX_NAME"), ("elen", "EPMD_MAX_EXTRA")):
                m = re.search(r"let\s+" + var + r"\s*=\s*stream\.read_u16\(\)\.await\?\s*;\s*if\s+" + var + r"\s*>\s*([0-9_]+)\s*\{\s*return\s+Err", lbody)
                if not m:
                    broken.append(f"lookup_node: `let {var} = stream.read_u16().await?; if {var} > <n> {{ return Err` not found")
                else:
                    limits[key] = num(m.group(1))
                # the buffer is requested only after the guard
                ma = re.search(r"vec!\[0u8;\s*" + var + r"\s+as\s+usize\]", lbody)
                if not ma or (m and ma.start() < m.end()):
                    broken.append(f"lookup_node: the {var} buffer is not allocated after its guard")
            order = [w for w in re.findall(r"stream\.(read_u8|read_u16|read_u32|read_exact)\(", lbody)]
            lines.append("/-- the reads of `lookup_node` in source order -/")
            lines.append("def EPMD_LOOKUP_READS : List String := [" + ", ".join(f'"{w}"' for w in order) + "]")
        for fn in ("lookup_node", "register_node"):
            b = _fn_body(ep, r"pub\s+async\s+fn\s+" + fn + r"\s*\(")
            if b is None:
                broken.append(f"pub async fn {fn} not found")
            elif re.search(r"self\s*\.\s*within_timeout\s*\(\s*self\s*\.\s*" + fn + r"_exchange\s*\(", b):
                guarded.append(fn)
        wbody = _fn_body(ep, r"async\s+fn\s+within_timeout\s*<")
        if guarded and not (wbody and re.search(r"tokio::time::timeout\(\s*self\.timeout\s*,\s*exchange\s*\)", wbody) and "Error::Timeout" in wbody):
            broken.append("within_timeout no longer wraps the exchange in tokio::time::timeout(self.timeout, ..) -> Error::Timeout")
    lines.append("/-- EPMD message tags of epmd_client.rs -/")
    lines.append("def EPMD_CONSTS : List (String × Nat) := [" + ", ".join(f'("{n}", {v})' for n, v in consts) + "]")
    have = dict(consts)
    for want in ("ALIVE2_REQ", "ALIVE2_RESP", "ALIVE2_X_RESP", "PORT2_REQ", "PORT2_RESP"):
        lines.append(f"def EPMD_{want} : Nat := {have.get(want, 0)}")
    lines.append("/-- `enum NodeType` (name, discriminant) -/")
    lines.append("def EPMD_NODE_TYPES : List (String × Nat) := [" + ", ".join(f'("{n}", {v})' for n, v in types) + "]")
    lines.append("/-- the node-type bytes `lookup_node` accepts (match arms, in source order) and the variant each gives -/")
    lines.append("def EPMD_TYPE_ARMS : List (Nat × String) := [" + ", ".join(f'({v}, "{n}")' for v, n in type_arms) + "]")
    lines.append("def EPMD_PROTO_ARMS : List (Nat × String) := [" + ", ".join(f'({v}, "{n}")' for v, n in proto_arms) + "]")
    lines.append(f"/-- `if nlen > <n>` / `if elen > <n>`: the largest name / extra length `lookup_node` allocates a buffer for -/")
    lines.append(f"def EPMD_MAX_NAME : Nat := {limits.get('EPMD_MAX_NAME', 0)}")
    lines.append(f"def EPMD_MAX_EXTRA : Nat := {limits.get('EPMD_MAX_EXTRA', 0)}")
    lines.append("/-- the public EPMD calls whose whole exchange runs under `tokio::time::timeout(self.timeout, ..)` -/")
    lines.append("def EPMD_UNDER_TIMEOUT : List String := [" + ", ".join(f'"{g}"' for g in guarded) + "]")
    lines.append("")

    # Connection::connect
    cn = read("crates/edp_client/src/connection.rs")
    steps = []      # (helper, handshake method, transport op)
    pre = []
    if cn is None:
        broken.append("connection.rs missing")
    else:
        body = _fn_body(cn, r"pub\s+async\s+fn\s+connect\s*\(\s*&mut\s+self\s*\)")
        if body is None:
            broken.append("Connection::connect not found")
        else:
            flat = re.sub(r"\s+", "", re.sub(r"//[^\n]*", "", body))
            marks = [("begin_connect", r"self\.handshake\.begin_connect\(\)\?"),
                     ("split_remote_name", r"\.remote_node_name\.split_once\('@'\)\.ok_or_else\("),
                     ("lookup_remote_node", r"self\.lookup_remote_node\(\)\.await\?"),
                     ("tcp_connect", r"tokio::time::timeout\(self\.config\.timeout,TcpStream::connect\(&addr\)\)\.await\.map_err\(\|_\|Error::Timeout\(self\.config\.timeout\)\)\?\.map_err\(Error::Io\)\?"),
                     ("transport_connect", r"self\.transport\.connect\(stream\)")]
            pos = -1
            for name, rx in marks:
                m = re.search(rx, flat)
                if not m:
                    broken.append(f"Connection::connect: step `{name}` not found")
                    continue
                if m.start() < pos:
                    broken.append(f"Connection::connect: step `{name}` is out of order")
                pos = m.start()
                pre.append(name)
            helpers = re.findall(r"self\.([a-z_]+)\(\)\.await\?;", flat)
            helpers = [h for h in helpers if h != "lookup_remote_node"]
            mend = re.search(r"self\.transport\.set_frame_mode\(FrameMode::Distribution\)", flat)
            if not mend:
                broken.append("Connection::connect: set_frame_mode(FrameMode::Distribution) not found")
            else:
                last = [m.start() for m in re.finditer(r"self\.[a-z_]+\(\)\.await\?;", flat)]
                if last and mend.start() < last[-1]:
                    broken.append("Connection::connect: the frame mode is switched before the last handshake step")
            if re.search(r"\.await(?!\?)", flat.replace(".await.map_err", ".await?")):
                broken.append("Connection::connect: an awaited step whose error is not propagated with `?`")
            for h in helpers:
                hb = _fn_body(cn, r"async\s+fn\s+" + h + r"\s*\(\s*&mut\s+self\s*\)")
                if hb is None:
                    broken.append(f"Connection::{h} not found")
                    continue
                hf = re.sub(r"\s+", "", re.sub(r"//[^\n]*", "", hb))
                hm = re.findall(r"self\.handshake\.([a-z_]+)\((?:&data)?\)\?", hf)
                io = re.findall(r"self\.(transport\.write_raw\(&data\)|read_message\(\))\.await\?", hf)
                if len(hm) != 1 or len(io) != 1:
                    broken.append(f"Connection::{h}: expected one handshake call and one awaited transport operation, found {hm} {io}")
                    continue
                op = "write_raw" if io[0].startswith("transport") else "read"
                # order inside the helper: a send prepares then writes, a receive reads then handles
                ih = hf.find("self.handshake." + hm[0])
                ii = hf.find("self." + io[0][:12])
                if (op == "write_raw") != (ih < ii):
                    broken.append(f"Connection::{h}: handshake call and transport operation are in an unexpected order")
                steps.append((h, hm[0], op))
        rb = _fn_body(cn, r"async\s+fn\s+read_message\s*\(\s*&mut\s+self\s*\)")
        if rb is None or not re.search(r"self\.transport\.read\(\)\.await", rb):
            broken.append("Connection::read_message no longer is self.transport.read().await")
        lb = _fn_body(cn, r"async\s+fn\s+lookup_remote_node\s*\(\s*&self\s*\)")
        if lb is None or not re.search(r"EpmdClient::new\(&self\.config\.epmd_host\)\.with_timeout\(self\.config\.timeout\)", lb) \
                or not re.search(r"Self::validate_node_name\(&self\.config\.remote_node_name\)\?", lb) \
                or not re.search(r"epmd\.lookup_node\(node_name\)\.await\?", lb):
            broken.append("Connection::lookup_remote_node: with_timeout(self.config.timeout) / validate_node_name / lookup_node(node_name) not found")
        vb = _fn_body(cn, r"fn\s+validate_node_name\s*\(")
        mv = re.search(r"node_name\.len\(\)\s*>\s*([0-9]+)", vb or "")
        if not mv:
            broken.append("validate_node_name: `node_name.len() > <n>` not found")
        lines.append(f"/-- `validate_node_name`: the longest remote node name (part before '@') looked up -/")
        lines.append(f"def CONNECT_MAX_REMOTE_NAME : Nat := {num(mv.group(1)) if mv else 0}")
    tr = read("crates/edp_client/src/transport.rs")
    timed = []
    if tr is None:
        broken.append("transport.rs missing")
    else:
        for fn in ("read", "write", "write_raw"):
            b = _fn_body(tr, r"pub\s+async\s+fn\s+" + fn + r"\s*\(")
            if b is None:
                broken.append(f"FramedTransport::{fn} not found")
            elif re.search(r"tokio::time::timeout\(\s*self\.timeout\s*,", b) and re.search(r"map_err\(\|_\|\s*Error::Timeout\(self\.timeout\)\)", b):
                timed.append(fn)
        if cn is not None and not re.search(r"FramedTransport::new\(config\.timeout\)", cn):
            broken.append("Connection::new no longer builds the transport with config.timeout")
    lines.append("/-- what `Connection::connect` does before the handshake, in source order -/")
    lines.append("def CONNECT_PRELUDE : List String := [" + ", ".join(f'"{n}"' for n in pre) + "]")
    lines.append("/-- the handshake steps `Connection::connect` awaits, in source order: (helper, handshake method, transport operation) -/")
    lines.append("def CONNECT_STEPS : List (String × String × String) := [" + ", ".join(f'("{a}", "{b}", "{c}")' for a, b, c in steps) + "]")
    lines.append("/-- the `FramedTransport` operations wrapped in `tokio::time::timeout(self.timeout, ..)` -/")
    lines.append("def TRANSPORT_UNDER_TIMEOUT : List String := [" + ", ".join(f'"{t}"' for t in timed) + "]")
    lines.append("")
    return lines, broken


def gen_c15any(read, num):
    """C15, `deserialize_any` (de.rs): per matched `OwnedTerm` constructor the `visit_*` calls of its arm in source order,
    the atoms with a meaning of their own, and what the catch-all arm does. `Impl/SerdeAny.lean` is compared with it by
    evaluation on probe terms (`Props/C15.lean`)."""
    broken = []
    lines = []
    arms = []
    atoms = []
    src = read("crates/erltf_serde/src/de.rs")
    if src is None:
        broken.append("de.rs missing")
    else:
        ib = _fn_body(src, r"impl<'de>\s+SerdeDeserializer<'de>\s+for\s+&mut\s+Deserializer<'de>\s*\{")
        body = _fn_body(ib or "", r"fn\s+deserialize_any\s*<") if ib else None
        if body is None:
            broken.append("Deserializer::deserialize_any not found")
        else:
            body = re.sub(r"//[^\n]*", "", body)
            body = re.sub(r'#\[cfg\(feature\s*=\s*"elixir-interop"\)\][^\n]*\n[^\n]*\n', "", body)
            if not re.search(r"match\s+self\.term\s*\{", body):
                broken.append("deserialize_any no longer matches on self.term")
            heads = list(re.finditer(r"OwnedTerm::([A-Za-z]+)(?:\s*\([^)]*\)|\s*\{[^}]*\})?\s*=>", body))
            catch = re.search(r"\n\s*_\s*=>\s*Err\(Error::UnsupportedType", body)
            if not catch:
                broken.append("deserialize_any: catch-all `_ => Err(Error::UnsupportedType(..))` not found")
            for k, h in enumerate(heads):
                end = heads[k + 1].start() if k + 1 < len(heads) else (catch.start() if catch else len(body))
                seg = body[h.end():end]
                arms.append((h.group(1), re.findall(r"visitor\.(visit_[a-z0-9_]+)\(", seg), "integer_term_as" in seg))
                if h.group(1) == "Atom":
                    atoms = re.findall(r'"([^"]*)"\s*=>\s*visitor\.(visit_[a-z0-9_]+)\(([a-z]*)\)', seg)
            if not arms:
                broken.append("deserialize_any: no `OwnedTerm::X => ...` arms found")
    lines.append("/-- `deserialize_any`: (constructor matched, the `visit_*` calls of the arm in source order) -/")
    lines.append("def C15_ANY_ARMS : List (String × List String) := [" +
                 ", ".join(f'("{c}", [' + ", ".join(f'"{v}"' for v in vs) + "])" for c, vs, _ in arms) + "]")
    lines.append("/-- the constructors whose arm reads the number with `integer_term_as` -/")
    lines.append("def C15_ANY_VIA_INTEGER_TERM_AS : List String := [" + ", ".join(f'"{c}"' for c, _, via in arms if via) + "]")
    lines.append("/-- the atoms `deserialize_any` gives a meaning of their own (default features): (name, visit call, argument) -/")
    lines.append("def C15_ANY_ATOMS : List (String × String × String) := [" +
                 ", ".join(f'("{a}", "{v}", "{x}")' for a, v, x in atoms) + "]")
    lines.append("/-- the same atom names as UTF-8 bytes -/")
    lines.append("def C15_ANY_ATOM_BYTES : List (List UInt8) := [" +
                 ", ".join("[" + ", ".join(str(b) for b in a.encode("utf-8")) + "]" for a, _, _ in atoms) + "]")
    lines.append("")
    return lines, broken


def gen_registry(read, num):
    """C18 name lifecycle: the order in which the functions of `ProcessRegistry` take their two locks and what they do under
    them.  The models treat `register` and `remove` as the code has them: `register` checks that the process is in the
    registry WHILE it holds the names (so that the sweep of `remove` cannot fall between check and claim), `remove` drops
    the process first and sweeps its names afterwards.  Each function becomes the list of its events in source order:
    `hold:<table>.<mode>` (guard bound by `let`, held to the end of the function), `temp:<table>.<mode>` (guard of one
    statement), `check-live` (contains_key), `claim-name` (entry / insert on the names), `drop-process` (remove),
    `sweep-names` (retain)."""
    broken, lines = [], []
    src = read("crates/edp_node/src/registry.rs")
    out = {}
    for fn in ("register", "remove", "unregister", "whereis"):
        body = _fn_body(src, r"pub\s+async\s+fn\s+" + fn + r"\s*\(") if src else None
        if body is None:
            broken.append(f"registry.rs: fn {fn} not found")
            out[fn] = []
            continue
        body = re.sub(r"//[^\n]*", "", body)
        ev = []
        pats = [
            (r"let\s+(?:mut\s+)?\w+\s*=\s*self\s*\.\s*(by_name|by_pid)\s*\.\s*(read|write)\s*\(\s*\)\s*\.\s*await\s*;", lambda m: f"hold:{m.group(1)}.{m.group(2)}"),
            (r"self\s*\.\s*(by_name|by_pid)\s*\.\s*(read|write)\s*\(\s*\)\s*\.\s*await", lambda m: f"temp:{m.group(1)}.{m.group(2)}"),
            (r"\.\s*contains_key\s*\(", lambda m: "check-live"),
            (r"\.\s*entry\s*\(", lambda m: "claim-name"),
            (r"\.\s*retain\s*\(", lambda m: "sweep-names"),
            (r"\.\s*remove\s*\(", lambda m: "drop"),
            (r"\.\s*get\s*\(", lambda m: "look-up"),
        ]
        found = []
        for pat, mk in pats:
            for m in re.finditer(pat, body):
                found.append((m.start(), m.end(), mk(m)))
        found.sort()
        last_end = -1
        for a, b, t in found:
            if t.startswith("temp:") and any(a2 <= a and b <= b2 and t2.startswith("hold:") for a2, b2, t2 in found):
                continue   # the temp pattern also matches inside a let-bound acquisition
            ev.append(t)
        out[fn] = ev
    def strs(xs):
        return "[" + ", ".join('"' + x + '"' for x in xs) + "]"
    for fn in ("register", "remove", "unregister", "whereis"):
        lines.append(f"/-- events of `ProcessRegistry::{fn}` in source order (crates/edp_node/src/registry.rs) -/")
        lines.append(f"def REGISTRY_{fn.upper()}_EVENTS : List String := {strs(out[fn])}")
    lines.append("")
    return lines, broken


C07_BOOK_FNS = ["send", "send_to_name", "send_remote", "link", "unlink", "monitor", "demonitor"]


def gen_c07book(read, num):
    """C07, node level: every exit and every bookkeeping step of the node operations in source order — what is recorded
    on local process handles and drawn from the node's counters before the table lookup, the one lock and the one
    `Connection` call, what follows the call (`?` = the error is passed on and nothing recorded is taken back), every `Ok`
    tail, every `return`, every branch on the target's node.  `Props/C07.lean` pins the table: an early `Ok` (an operation
    that answers without writing) or bookkeeping moved behind the write is a broken proof obligation."""
    broken, lines = [], []
    node = read("crates/edp_node/src/node.rs")
    table = []
    if node is None:
        broken.append("node.rs missing")
    else:
        tok = re.compile(
            r"(?P<ret>\breturn\b)|(?P<ok>Ok\((?:\(\)|reference)\))|(?P<localq>ifto\.node==self\.name\{)|(?P<els>\}else\{)"
            r"|(?P<lookup>self\.connection_handle\(node_name\))|(?P<pid>self\.pid_allocator\.allocate\(\))"
            r"|(?P<uid>self\.reference_counter\.fetch_add\(1,Ordering::SeqCst\)asu64\+1)|(?P<ctr>self\.reference_counter\.[a-z_]+\()"
            r"|(?P<ref>self\.make_reference\(\))|(?P<lock>conn\.lock\(\)\.await)"
            r"|conn_guard\.(?P<call>[a-z_]+)\((?:[^;()]|\([^()]*\))*\)\.await(?P<q>\?)?;"
            r"|(?P<nc>Err\(Error::NodeNotConnected\()|Err\(Error::(?P<err>[A-Za-z]+)|ok_or_else\(\|\|Error::(?P<err2>[A-Za-z]+)"
            r"|_handle\.(?P<book>[a-z_]+)\(|(?P<noproc>self\.signal_noproc_exit\()"
            r"|self\.registry\.(?P<reg>[a-z_]+)\(|self\.(?P<deleg>send_local|send_remote|send|whereis)\("
            r"|(?P<other>conn_guard\.|\.links\b|\.monitors\b|self\.connections\.)")
        for fn in C07_BOOK_FNS:
            body = _fn_body(node, r"(?:pub\s+)?async\s+fn\s+" + fn + r"\s*(?:<[^>]*>)?\s*\(\s*&self")
            if body is None:
                broken.append(f"node.rs: async fn {fn}(&self, ..) not found")
                continue
            steps = []
            for m in tok.finditer(_strip_ws(body)):
                if m.group("call"):
                    steps.append("call:" + m.group("call"))
                    steps.append("fail:propagate" if m.group("q") else "fail:ignored")
                elif m.group("book"):
                    b = m.group("book")
                    steps.append("notify" if b == "send" else "book:" + b)
                elif m.group("other"):
                    broken.append(f"node.rs {fn}: a step the translator does not know: {m.group('other')}")
                else:
                    steps.append("return" if m.group("ret") else "ok" if m.group("ok") else "local?" if m.group("localq")
                                 else "else" if m.group("els") else "lookup" if m.group("lookup") else "draw:pid" if m.group("pid")
                                 else "draw:unlink_id+1" if m.group("uid") else "counter:other" if m.group("ctr")
                                 else "draw:ref" if m.group("ref") else "lock" if m.group("lock") else "not_connected" if m.group("nc")
                                 else ("err:" + m.group("err")) if m.group("err") else ("err:" + m.group("err2")) if m.group("err2")
                                 else "noproc" if m.group("noproc") else ("reg:" + m.group("reg")) if m.group("reg")
                                 else "delegate:" + m.group("deleg"))
            table.append((fn, steps))

    def strs(xs):
        return "[" + ", ".join('"' + x + '"' for x in xs) + "]"

    lines.append("/-- node.rs: every bookkeeping step, draw, lookup, lock, `Connection` call (followed by what happens when it fails),")
    lines.append("branch on the target's node and exit (`ok`, `return`, errors) of the node-level send-side operations, in source order -/")
    lines.append("def C07_NODE_BOOK : List (String × List String) := [" + ", ".join(f'("{f}", {strs(st)})' for f, st in table) + "]")
    lines.append("")
    return lines, broken


def gen_c17pid(read, num):
    """C17, where the reply pid of a call comes from: the initializer of `let reply_to_pid = …;` in
    `rpc_call_raw_with_timeout` (string literals as `_`), every `self.<name>` the function touches (distinct, in source
    order) and the fields of `struct Node`.  A reply pid taken from anywhere but one fresh `pid_allocator.allocate()` per
    call (a pool, a cache, a counter of its own) changes one of the three."""
    broken, lines = [], []
    node = read("crates/edp_node/src/node.rs")
    init, fields, node_fields = "", [], []
    if node is None:
        broken.append("node.rs missing")
    else:
        body = _fn_body(node, r"pub\s+async\s+fn\s+rpc_call_raw_with_timeout\s*\(")
        if body is None:
            broken.append("node.rs: fn rpc_call_raw_with_timeout body not found")
        else:
            b = _strip_ws(re.sub(r'"(?:[^"\\]|\\.)*"', "_", body))
            ms = re.findall(r"let(?:mut)?reply_to_pid(?::[A-Za-z:<>]+)?=([^;]*);", b)
            if len(ms) != 1:
                broken.append("node.rs rpc_call_raw_with_timeout: exactly one `let reply_to_pid = …;` expected")
            else:
                init = ms[0]
            for f in re.findall(r"\bself\.([a-z_]+)", b):
                if f not in fields:
                    fields.append(f)
        m = re.search(r"pub\s+struct\s+Node\s*\{([^}]*)\}", node)
        if not m:
            broken.append("node.rs: pub struct Node { .. } not found")
        else:
            node_fields = re.findall(r"(?m)^\s*(?:pub(?:\([a-z]+\))?\s+)?([a-z_]+)\s*:", re.sub(r"//[^\n]*", "", m.group(1)))

    def strs(xs):
        return "[" + ", ".join('"' + x.replace("\\", "\\\\").replace('"', '\\"') + '"' for x in xs) + "]"

    lines.append("/-- `rpc_call_raw_with_timeout`: what `reply_to_pid` is bound to (string literals as `_`) -/")
    lines.append(f"def RPC_REPLY_PID_INIT : String := {strs([init])[1:-1]}")
    lines.append("/-- the `self.<name>` the function touches, distinct, in source order -/")
    lines.append(f"def RPC_SELF_FIELDS : List String := {strs(fields)}")
    lines.append("/-- the fields of `struct Node` -/")
    lines.append(f"def NODE_FIELDS : List String := {strs(node_fields)}")
    lines.append("")
    return lines, broken


def run(read, emit, num):
    """One generated module per part (`Generated/Misc<Part>.lean`), so that a change of the source rebuilds only the models
    and theorems that read that part; `Generated/Misc.lean` imports them all (for convenience; nothing in the library
    imports it). A part may use the definitions of an earlier part: it then imports that part's module."""
    parts = (gen_c16, gen_c09, gen_c04, gen_c15, gen_c13, gen_c18, gen_c19, gen_state, gen_c20, gen_c05, gen_c08, gen_c10, gen_c11, gen_c07, gen_c14, gen_c16b, gen_c02, gen_c01, gen_c17, gen_c06, gen_mailbox, gen_c04conn, gen_c15any, gen_registry, gen_c07book, gen_c17pid)
    defined = {}   # generated name -> module that defines it
    mods = []
    for part in parts:
        ls, br = part(read, num)
        text = "\n".join(ls) + "\n"
        mod = "Misc" + part.__name__[len("gen_"):].capitalize()
        uses = sorted({defined[n] for n in set(re.findall(r"[A-Za-z_][A-Za-z0-9_']*", text)) if n in defined})
        for n in re.findall(r"(?m)^(?:def|abbrev|structure|inductive)\s+([A-Za-z_][A-Za-z0-9_']*)", text):
            defined.setdefault(n, mod)
        body = "".join(f"import EdpVerif.Generated.{u}\n" for u in uses) + "namespace Edp.Gen\n\n" + text + "end Edp.Gen\n"
        emit(mod, body, br)
        mods.append(mod)
    emit("Misc", "".join(f"import EdpVerif.Generated.{m}\n" for m in mods), [])
