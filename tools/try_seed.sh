#!/bin/sh
# usage: [SEED_CFG=--cfg] tools/try_seed.sh <mutant-name> <Cxx> <crate> [more Cxx...]
# confirm the change independently, then run the property's quick check with the change applied to /repo, then undo.
name=$1; prop=$2; crate=$3; shift 3
out=/tmp/mut/$name-out
python3 /verif/tools/confirm_seed.py $out $crate demo_$name.rs $SEED_CFG 2>&1 | grep -v "^WARNING"
git -C /repo apply $out/patch.diff || { echo "patch does not apply to /repo"; exit 1; }
for p in $prop "$@"; do
  (cd /verif && python3 check.py $p quick 2>&1 | grep -v "^WARNING" | cut -c1-330 | grep -E "quick seed|VIOLATION|KNOWN-FINDING|^  (tie|proof|harness)" | head -8)
done
git -C /repo checkout -- .
# evidence written from a mutated tree is not evidence: restore the committed files
git -C /verif checkout -- evidence/ 2>/dev/null
git -C /repo status --short | head -3
