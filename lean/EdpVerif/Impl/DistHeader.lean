import EdpVerif.Impl.Encode
import EdpVerif.Impl.Decode
/-
Model of the distribution-header code:
  encoder.rs  `collect_atoms`, `encode_with_dist_header(_multi)`
  decoder.rs  `AtomCache`, `parse_versioned_term_with_cache`, `parse_dist_header_with_cache`,
              `decode_with_atom_cache`, `decode_with_cache`
The iteration order of the encoder's `HashSet<&Atom>` is an input (`order`): the harness reads it off the
real output, the theorems quantify over every order.
-/
namespace Edp.DistHeader
open Edp

mutual
/-- `collect_atoms`, in traversal order, with repetitions -/
def atomsOf : Term → List Bytes
  | .atom a => [a]
  | .tuple l => atomsOfL l
  | .list l => atomsOfL l
  | .ilist l t => atomsOfL l ++ atomsOf t
  | .map kvs => atomsOfKV kvs
  | .pid p => [p.node]
  | .port n _ _ _ => [n]
  | .ref n _ _ _ => [n]
  | .xfun m f _ => [m, f]
  | .ifun _ _ _ _ m _ _ p fr => m :: p.node :: atomsOfL fr
  | _ => []
def atomsOfL : List Term → List Bytes
  | [] => []
  | t :: ts => atomsOf t ++ atomsOfL ts
def atomsOfKV : List (Term × Term) → List Bytes
  | [] => []
  | (k, v) :: r => atomsOf k ++ atomsOf v ++ atomsOfKV r
end

/-- the distinct atoms in first-occurrence order (a canonical order, used when none was observed) -/
def dedup : List Bytes → List Bytes
  | [] => []
  | a :: r => a :: (dedup r).filter (· != a)

/-- `order` lists exactly the atoms of the terms, each once (what iterating the `HashSet` gives) -/
def isOrderFor (order : List Bytes) (terms : List Term) : Bool :=
  let as := atomsOfL terms
  order.all (fun a => as.contains a) && as.all (fun a => order.contains a) &&
    (dedup order).length == order.length

/-- 4-bit fields packed two to a byte, least significant nibble first; an odd count is padded with 0 -/
def packNibbles : List Nat → Bytes
  | [] => []
  | [a] => [UInt8.ofNat a]
  | a :: b :: r => UInt8.ofNat (a + 16 * b) :: packNibbles r

def lenField (long : Bool) (n : Nat) : Bytes := if long then be16 n else be8 n

/-- the references: internal index (= position), length, text — every one a new entry -/
def refsBytes (long : Bool) : Nat → List Bytes → Bytes
  | _, [] => []
  | i, a :: r => UInt8.ofNat i :: (lenField long a.length ++ a ++ refsBytes long (i + 1) r)

def isLong (order : List Bytes) : Bool := order.any fun a => decide (a.length > 255)

/-- the flag nibbles: `new entry, segment 0` for every reference, then the LongAtoms nibble -/
def flagNibbles (order : List Bytes) : List Nat :=
  List.replicate order.length 8 ++ [if isLong order then 1 else 0]

/-- everything between `131, 68` and the terms, for a non-empty atom list -/
def header (order : List Bytes) : Bytes :=
  UInt8.ofNat order.length :: (packNibbles (flagNibbles order) ++ refsBytes (isLong order) 0 order)

/-- `encode_with_dist_header_multi` (with one term: `encode_with_dist_header`) -/
def encodeDist (order : List Bytes) (terms : List Term) : Except EncErr Bytes :=
  if order.isEmpty then
    match encL [] terms with
    | .ok b => .ok (131 :: 68 :: 0 :: b)
    | .error e => .error e
  else if order.length > 255 then .error .tooManyAtoms
  else if order.any (fun a => decide (a.length > u16max)) then .error .atomTooLarge
  else
    match encL order terms with
    | .ok b => .ok (131 :: 68 :: (header order ++ b))
    | .error e => .error e

/-! ### decoder side -/

/-- `AtomCache`: `atoms` is the table `ATOM_CACHE_REF` reads (references of the header read last, by position;
also what `AtomCache::insert`/`get` expose), `slots` the cache kept across messages, keyed by
(segment index, internal index).  Both are hash maps: association lists, newest entry first. -/
structure Cache where
  atoms : List (Nat × Bytes) := []
  slots : List ((Nat × Nat) × Bytes) := []

/-- the 4-bit flag field of reference `i`; `none` models an out-of-range `flags[..]` index (a Rust panic) -/
def nibbleAt (flags : Bytes) (i : Nat) : Option Nat :=
  match flags[i / 2]? with
  | some b => some (if i % 2 == 0 then b.toNat % 16 else b.toNat / 16 % 16)
  | none => none

/-- the loop of `parse_dist_header_with_cache`: `k` references left, the next one is number `i`.
The cache is updated in place, so what was inserted before an error stays. -/
def parseRefs (long : Bool) (flags : Bytes) : Nat → Nat → Cache → Bytes → Cache × Except DErr Bytes
  | 0, _, c, bs => (c, .ok bs)
  | k + 1, i, c, bs =>
    match rdU 1 bs with
    | .error e => (c, .error e)
    | .ok (idx, r) =>
      match nibbleAt flags i with
      | none => (c, .error .panic)
      | some nib =>
        let seg := nib % 8
        if nib / 8 == 1 then
          match rdU (if long then 2 else 1) r with
          | .error e => (c, .error e)
          | .ok (len, r1) =>
            match takeE len r1 with
            | .error e => (c, .error e)
            | .ok (text, r2) =>
              if !validUtf8 text then (c, .error .err) else
              parseRefs long flags k (i + 1)
                { atoms := (i, text) :: c.atoms, slots := ((seg, idx), text) :: c.slots } r2
        else
          match c.slots.lookup (seg, idx) with
          | some a => parseRefs long flags k (i + 1) { c with atoms := (i, a) :: c.atoms } r
          | none => (c, .error .err)

/-- `parse_dist_header_with_cache` up to (not including) the final `parse_term`: returns the bytes of the terms -/
def parseHeader (c : Cache) (bs : Bytes) : Cache × Except DErr Bytes :=
  match rdU 1 bs with
  | .error e => (c, .error e)
  | .ok (n, r) =>
    if n == 0 then (c, .ok r) else
    match takeE (n / 2 + 1) r with
    | .error e => (c, .error e)
    | .ok (flags, r1) =>
      match flags[n / 2]? with
      | none => (c, .error .panic)
      | some last =>
        let long := if n % 2 == 0 then last.toNat % 2 == 1 else last.toNat / 16 % 2 == 1
        parseRefs long flags n 0 c r1

/-- `decode_with_atom_cache` -/
def decodeWithAtomCache (x : Ext) (c : Cache) (bs : Bytes) : Cache × Except DErr (Term × Option Term) :=
  let fuel := bs.length + 1 + x.extra
  match bs with
  | [] => (c, .error .err)
  | v :: r =>
    if v != 131 then (c, .error .err) else
    match r with
    | [] => (c, .error .err)
    | tag :: r1 =>
      let (c1, first) : Cache × DRes :=
        if tag == 68 then
          match parseHeader c r1 with
          | (c1, .error e) => (c1, .error e)
          | (c1, .ok body) => (c1, dec x { cache := c1.atoms } fuel 0 body)
        else (c, dec x { cache := c.atoms } fuel 0 (tag :: r1))
      match first with
      | .error e => (c1, .error e)
      | .ok (t, rest) =>
        if rest.isEmpty then (c1, .ok (t, none)) else
        match dec x { cache := c1.atoms } fuel 0 rest with
        | .error e => (c1, .error e)
        | .ok (p, []) => (c1, .ok (t, some p))
        | .ok (_, more) => (c1, .error (.trailing more.length))

/-- a connection: the same cache across a sequence of messages (`Connection.atom_cache`) -/
def decodeSeq (x : Ext) : Cache → List Bytes → List (Except DErr (Term × Option Term))
  | _, [] => []
  | c, m :: ms =>
    let (c', r) := decodeWithAtomCache x c m
    r :: decodeSeq x c' ms

end Edp.DistHeader
