import EdpVerif.Impl.Framing
import EdpVerif.Impl.Decode
import EdpVerif.Impl.Control
/-!
Model of the inbound side of a node's connection (core Lean only, linked into the driver):

* crates/edp_client/src/connection.rs `Connection::receive_message_from_read_half` — the framing part is
  `Framing.recvBody` (C05); here the rest: pass-through marker, `decode_with_trailing` of the control term,
  `ControlMessage::from_term`, `decode_with_trailing` of the payload (`classify`);
* crates/edp_node/src/node.rs `spawn_receiver_task` — the loop: route what was received, go on after an error that
  concerns one complete frame only (`keepGoing`), otherwise leave the loop and `connections.remove` (`loopF`/`loop`);
* crates/edp_node/src/node.rs `route_message` over an abstract registry (`ProcessRegistry::get` / `whereis`),
  the process mailboxes (`ProcessHandle::send` = append) and `pending_rpcs` (`route`).

The byte stream is a read script `List Framing.Ev` (chunks in any segmentation, `pending` polls, `eof`, `fail`,
`stall` = the `tokio::time::timeout` around the current `read_exact` fires). The control table is a parameter
(`Generated/Control.lean` is what control.rs says on this run).
-/
namespace Edp.Receiver
open Edp Edp.Framing

/-! ## one message: `receive_message_from_read_half` -/

/-- `erltf::decode_with_trailing`: version byte, one term, the bytes after it (the same fuel as `Recv.decodeTrailing`,
the model of the same function in `Impl/Recv.lean`: `bs.length + 1 + x.extra`) -/
def decodeTrailing (x : Ext) (bs : Bytes) : DRes :=
  match bs with
  | [] => .error .err
  | v :: r => if v != 131 then .error .err else dec x {} (bs.length + 1 + x.extra) 0 r

/-- the `Err` values of `receive_message_from_read_half` by variant, and a panic inside it -/
inductive RxErr where
  /-- `Error::Io` other than end of stream -/
  | io
  /-- `Error::Io(UnexpectedEof)`: the peer closed, at a frame boundary or inside a frame -/
  | eof
  /-- `Error::Timeout`: nothing completed the current read within the limit -/
  | timeout
  /-- `Error::MessageTooLarge` -/
  | tooLarge (len : Nat)
  /-- `Error::InvalidStateMessage("Empty message received")` (unreachable: a zero length is a tick) -/
  | empty
  /-- `Error::Protocol`: the first byte of the frame is not the pass-through marker 112 -/
  | marker (b : UInt8)
  /-- `Error::Decode`: control term or payload does not decode, or bytes are left after the payload term
  (`DecodeError::TrailingData`, connection.rs l.772-777) -/
  | decode
  /-- `Error::InvalidControlMessage`: the control term is not a control tuple -/
  | control
  /-- a panic site of the decoder or of `from_term` was reached -/
  | panic
  deriving Repr, DecidableEq

def RxErr.ofRead : RErr → RxErr
  | .eof => .eof
  | .io => .io
  | .timeout => .timeout
  | .tooLarge n => .tooLarge n

abbrev Received := Control.Msg × Option Term

/-- what `receive_message_from_read_half` makes of a frame body it has read completely (connection.rs l.741-785, branch by
branch: empty buffer; first byte is not the pass-through marker 112 — this includes the 131 of a distribution-header or
fragment frame, which this function does not understand —; `decode_with_trailing` of the control term; `from_term`; nothing
left = no payload; otherwise `decode_with_trailing` of the payload, after which NOTHING may be left) -/
def classify (x : Ext) (tbl : Control.Table) (body : Bytes) : Except RxErr Received :=
  match body with
  | [] => .error .empty
  | b :: r =>
    if b ≠ 112 then .error (.marker b) else
    match decodeTrailing x r with
    | .error .panic => .error .panic
    | .error _ => .error .decode
    | .ok (ct, rest) =>
      match Control.parse tbl ct with
      | .error .panic => .error .panic
      | .error .err => .error .control
      | .ok m =>
        match rest with
        | [] => .ok (m, none)
        | _ :: _ =>
          match decodeTrailing x rest with
          | .error .panic => .error .panic
          | .error _ => .error .decode
          | .ok (p, []) => .ok (m, some p)
          | .ok (_, _ :: _) => .error .decode

/-- one call of `receive_message_from_read_half`: result and the script that is left -/
def recvMsg (x : Ext) (tbl : Control.Table) (evs : List Ev) : Except RxErr Received × List Ev :=
  match recvBody connCap evs with
  | ⟨.error e, r, _⟩ => (.error (.ofRead e), r)
  | ⟨.ok body, r, _⟩ => (classify x tbl body, r)

/-- repeated calls until the first read-level error (the direct-call harness): every body is classified -/
def rxAll (x : Ext) (tbl : Control.Table) (evs : List Ev) : List (Except RxErr Received) :=
  (recvAll connCap evs).map fun
    | .error e => .error (.ofRead e)
    | .ok body => classify x tbl body

/-! ## the node's state as far as inbound routing touches it -/

/-- what `ExternalPid`'s `Eq`/`Hash` look at (`local_ext_bytes` is excluded) -/
structure PidKey where
  node : Bytes
  id : Nat
  serial : Nat
  creation : Nat
  deriving Repr, DecidableEq, BEq

def _root_.Edp.PidF.key (p : PidF) : PidKey := ⟨p.node, p.id, p.serial, p.creation⟩

/-- the key of `pending_rpcs`: `format!("{}.{}.{}", pid.id, pid.serial, pid.creation)` (the node name is not part of it) -/
abbrev RpcKey := Nat × Nat × Nat

def rpcKey (p : PidF) : RpcKey := (p.id, p.serial, p.creation)

/-- the `mailbox.rs Message` values `route_message` produces -/
inductive LMsg where
  /-- `Message::Regular { from: None, body }` -/
  | regular (body : Term)
  /-- `Message::Exit { from, reason }` -/
  | exit (sender : PidF) (reason : Term)
  /-- `Message::MonitorExit { monitored, reference, reason }`; `reference` is an `OwnedTerm::Reference` -/
  | monitorExit (monitored : PidF) (reference : Term) (reason : Term)
  deriving Repr, BEq, Inhabited

structure NodeSt where
  /-- `registry.by_pid` together with what has been put into each process's mailbox, oldest first -/
  procs : List (PidKey × List LMsg)
  /-- `registry.by_name` -/
  names : List (Bytes × PidKey)
  /-- the keys of `pending_rpcs` -/
  pending : List RpcKey
  /-- what the outstanding calls were handed (`oneshot::Sender::send`), oldest first -/
  replies : List (RpcKey × Term)
  deriving Repr, Inhabited

/-- `registry.get(pid)`: the mailbox of a live process -/
def mailbox (st : NodeSt) (k : PidKey) : Option (List LMsg) :=
  match st.procs.find? (fun p => p.1 = k) with
  | some p => some p.2
  | none => none

def isLive (st : NodeSt) (k : PidKey) : Bool := (mailbox st k).isSome

/-- `registry.whereis(name)` -/
def whereis (st : NodeSt) (n : Bytes) : Option PidKey :=
  match st.names.find? (fun p => p.1 = n) with
  | some p => some p.2
  | none => none

/-- `handle.send(msg)`: append to the mailbox of `k` -/
def sendTo (st : NodeSt) (k : PidKey) (m : LMsg) : NodeSt :=
  { st with procs := st.procs.map fun p => if p.1 = k then (p.1, p.2 ++ [m]) else p }

/-- `pending_rpcs.remove(key)` then `sender.send(body)` -/
def answer (st : NodeSt) (key : RpcKey) (body : Term) : NodeSt :=
  { st with pending := st.pending.filter (· ≠ key), replies := st.replies ++ [(key, body)] }

/-- a struct field of a control message that holds a term -/
def fld (fs : List (String × Control.FVal)) (f : String) : Option Term :=
  match Control.lookup fs f with
  | some (.term t) => some t
  | _ => none

/-- the arms of `route_message`: variant name ↦ how it is routed -/
inductive Arm where
  | send | regSend | exit | monitorExit | ignored
  deriving Repr, DecidableEq

def armOf (variant : String) : Arm :=
  if variant = "Send" ∨ variant = "SendTt" then .send
  else if variant = "RegSend" ∨ variant = "RegSendTt" then .regSend
  else if variant = "Exit" ∨ variant = "Exit2" ∨ variant = "ExitTt" ∨ variant = "Exit2Tt" then .exit
  else if variant = "MonitorPExit" then .monitorExit
  else .ignored

/-- `Node::route_message` -/
def route (st : NodeSt) (m : Control.Msg) (payload : Option Term) : NodeSt :=
  match m with
  | .generic _ _ => st
  | .known v fs =>
    match armOf v with
    | .send =>
      match payload, fld fs "to_pid" with
      | some body, some (.pid p) =>
        if isLive st p.key then sendTo st p.key (.regular body)
        else if rpcKey p ∈ st.pending then answer st (rpcKey p) body
        else st
      | _, _ => st
    | .regSend =>
      match payload, fld fs "to_name" with
      | some body, some (.atom n) =>
        match whereis st n with
        | some k => if isLive st k then sendTo st k (.regular body) else st
        | none => st
      | _, _ => st
    | .exit =>
      match fld fs "from_pid", fld fs "to_pid", fld fs "reason" with
      | some (.pid sender), some (.pid to), some reason =>
        if isLive st to.key then sendTo st to.key (.exit sender reason) else st
      | _, _, _ => st
    | .monitorExit =>
      match fld fs "from_proc", fld fs "to_pid", fld fs "reference", fld fs "reason" with
      | some (.pid sender), some (.pid to), some (.ref n c ids l), some reason =>
        if isLive st to.key then sendTo st to.key (.monitorExit sender (.ref n c ids l) reason) else st
      | _, _, _, _ => st
    | .ignored => st

/-! ## the loop of `spawn_receiver_task` -/

/-- the decision after an `Err`: `true` = `continue` (the error is about one frame that was read completely:
`Error::Decode`, `Error::InvalidControlMessage`, `Error::Protocol`), `false` = `break` -/
def keepGoing : RxErr → Bool
  | .decode => true
  | .control => true
  | .marker _ => true
  | _ => false

/-- the loop has ended: the state it leaves, why it ended, and the script it never read -/
structure Fin where
  node : NodeSt
  why : RxErr
  rest : List Ev
  deriving Repr

/-- `connections.remove(name)` follows the loop (a panic unwinds the task past it) -/
def Fin.deregistered (f : Fin) : Bool := f.why != .panic

/-- what one received result does to the loop: the new state, or the reason to leave -/
def step (st : NodeSt) : Except RxErr Received → Except RxErr NodeSt
  | .ok (m, p) => .ok (route st m p)
  | .error e => if keepGoing e then .ok st else .error e

def loopF (x : Ext) (tbl : Control.Table) : Nat → NodeSt → List Ev → Fin
  | 0, st, evs => ⟨st, .eof, evs⟩
  | f+1, st, evs =>
    match recvMsg x tbl evs with
    | (res, r) =>
      match step st res with
      | .ok st' => loopF x tbl f st' r
      | .error e => ⟨st, e, r⟩

/-- the receiver task from its start to its end on a finite script (the fuel is enough: `loopF_fuel`) -/
def loop (x : Ext) (tbl : Control.Table) (st : NodeSt) (evs : List Ev) : Fin :=
  loopF x tbl (weight evs + 1) st evs

/-- the effect of a list of complete frame bodies that the loop survives, in order -/
def routeAll (x : Ext) (tbl : Control.Table) (st : NodeSt) : List Bytes → NodeSt
  | [] => st
  | b :: bs =>
    match step st (classify x tbl b) with
    | .ok st' => routeAll x tbl st' bs
    | .error _ => routeAll x tbl st bs

/-! ## histories of whole frames, with time -/

/-- what the peer does next -/
inductive Item where
  /-- a complete frame with this body (`[]` is a tick) -/
  | frame (body : Bytes)
  | tick
  /-- nothing for `ms` milliseconds -/
  | quiet (ms : Nat)
  /-- a length prefix only -/
  | overlong (len : Nat)
  /-- a length prefix, part of the body, then the stream is closed -/
  | cut (len : Nat) (part : Bytes)
  /-- bytes that are not a whole frame (then the next read waits) -/
  | raw (bs : Bytes)
  | close
  deriving Repr, DecidableEq

/-- the idle limit the node gives its receiver (node.rs `DEFAULT_NET_TICK_TIME`, milliseconds) -/
def idleLimitMs : Nat := 60000

/-- the read script of a history: whole frames arrive in one piece; a silence is `Pending` polls while the time waited in
the current read stays below `limit`, and the timeout firing otherwise; `w` = milliseconds already waited -/
def wire (limit : Nat) : Nat → List Item → List Ev
  | _, [] => []
  | _, .frame b :: r => .chunk (frame .distribution b) :: wire limit 0 r
  | _, .tick :: r => .chunk (frame .distribution []) :: wire limit 0 r
  | w, .quiet d :: r => if w + d < limit then .pending :: wire limit (w + d) r else .stall :: wire limit 0 r
  | _, .overlong len :: r => .chunk (beN 4 len) :: wire limit 0 r
  | _, .cut len part :: _ => [.chunk (beN 4 len ++ part), .eof]
  | _, .raw bs :: r => .chunk bs :: wire limit 0 r
  | _, .close :: _ => [.eof]

/-! ## canonical text (driver) -/

def PidKey.ofPid (p : PidF) : PidKey := p.key

def LMsg.text : LMsg → String
  | .regular b => "reg!" ++ b.text
  | .exit s r => "exit!" ++ (Term.pid s).text ++ "!" ++ r.text
  | .monitorExit m rf r => "mon!" ++ (Term.pid m).text ++ "!" ++ rf.text ++ "!" ++ r.text

def RxErr.text : RxErr → String
  | .io => "err-io"
  | .eof => "err-eof"
  | .timeout => "err-timeout"
  | .tooLarge _ => "err-toolarge"
  | .empty => "err-empty"
  | .marker _ => "err-marker"
  | .decode => "err-decode"
  | .control => "err-control"
  | .panic => "panic"

end Edp.Receiver
