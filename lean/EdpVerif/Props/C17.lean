import EdpVerif.Lemmas.Rpc
/-!
# C17 — each remote call gets its own reply; nothing is left behind afterwards

Theorems about the small-step model `Impl/Rpc.lean` of `Node::rpc_call_raw_with_timeout`, the `Send` arm of
`Node::route_message` and the receiver tasks (crates/edp_node/src/node.rs). Every theorem quantifies over

* every start state of the node's pid allocator `a` and every local node name `n`,
* every schedule `σ : List Step` — any number of calls (a call is a natural number; it exists once it takes its first
  step), any number of receiver tasks, every interleaving of their atomic steps,
* every behaviour of the environment, which is part of the schedule: the peer's messages (`rStart r msg` with an
  arbitrary `msg`: replies in any order, twice, late, to unknown pids, under a foreign node name, never), lookups that
  find no connection, writes that fail, timers that fire at any moment, call futures dropped at any suspension point,
  other allocations, processes spawned and gone.

`run` skips a step that is not enabled, so "every list of steps" is "every execution".
`B = MAXP * U32 = 2^52` is the period of the pid allocator (C16).
-/
namespace Edp.Props.C17
open Edp.Impl.Rpc
open Edp.Impl.PidAlloc (Pid Sh Res alloc seqState seqAlloc MAXP U32 Sh.new)

/-- the states that can be reached -/
abbrev reach (a : Sh) (n : Nat) (σ : List Step) : St := run (St.init a n) σ

/-- the inductive invariant (entries, outcomes, addressing, allocation indices, mutex) holds after every schedule -/
theorem C17_invariants_hold_on_every_run (a : Sh) (n : Nat) (σ : List Step) : Inv a (reach a n σ) :=
  inv_run σ (inv_init a n)

example : (reach (Sh.new 8) 0 [.begin 0, .insert 0]).pending = [(⟨1, 0, 8⟩, 0)] := by decide

/-! ### concrete schedules used by the non-vacuity examples (allocator of a node with creation 8: first pid 1.0.8) -/

def a0 : Sh := Sh.new 8
/-- call `i` registers, sends its request and waits -/
def reqSteps (i : Nat) : List Step := [.begin i, .insert i, .lookup i (some 0), .lock i, .send i true, .unlock i]
/-- receiver 0 routes a message -/
def route (node id body : Nat) : List Step := [.rStart 0 ⟨node, ⟨id, 0, 8⟩, body⟩, .rRemove 0, .rSend 0]
def good : List Step := reqSteps 0 ++ route 0 1 7 ++ [.recvReply 0, .finish 0]
def timedOut : List Step := reqSteps 0 ++ [.timeout 0, .timeoutRemove 0, .finish 0]
def twoCalls : List Step := reqSteps 0 ++ reqSteps 1
def noConnRun : List Step := [.begin 0, .insert 0, .lookup 0 none, .finish 0]
def sendErrRun : List Step := [.begin 0, .insert 0, .lookup 0 (some 0), .lock 0, .send 0 false, .finish 0]
def dropRun : List Step := [.begin 0, .insert 0, .lookup 0 (some 0), .lock 0, .drop 0]
/-- the timer fires between the receiver's `remove` and its `send` -/
def raceRun : List Step :=
  reqSteps 0 ++ [.rStart 0 ⟨0, ⟨1, 0, 8⟩, 7⟩, .rRemove 0, .timeout 0, .rSend 0, .timeoutRemove 0, .finish 0]

/-! ## no misdelivery -/

/-- A call that returns a reply returns a message the peer addressed to that call's own reply pid, with the body
that message carried: `m` is the position of the message in the log of everything the receivers were given. -/
theorem C17_no_misdelivery (a : Sh) (n : Nat) (σ : List Step) (i m b : Nat)
    (h : ((reach a n σ).callers i).out = some (.reply m b)) :
    ∃ msg, (reach a n σ).inbox[m]? = some msg ∧ msg.pid = ((reach a n σ).callers i).key ∧ msg.body = b :=
  (C17_invariants_hold_on_every_run a n σ).addr.out i m b h

example : ((reach a0 0 good).callers 0).out = some (.reply 0 7) ∧
    (reach a0 0 good).inbox[0]? = some ⟨0, ⟨1, 0, 8⟩, 7⟩ ∧ ((reach a0 0 good).callers 0).key = ⟨1, 0, 8⟩ := by decide
/-- two calls, replies in the opposite order of the requests: each gets its own -/
example : let s := reach a0 0 (twoCalls ++ route 0 2 22 ++ route 0 1 11 ++ [.recvReply 0, .recvReply 1, .finish 0, .finish 1])
    (s.callers 0).out = some (.reply 1 11) ∧ (s.callers 1).out = some (.reply 0 22) ∧ s.pending = [] := by decide

/-- the same for a value that sits in a call's channel, for a sender a receiver task holds, and for a result on its
way out: nothing is ever in flight towards a call that was not addressed to its key -/
theorem C17_in_flight_is_addressed (a : Sh) (n : Nat) (σ : List Step) (i m b : Nat) :
    let s := reach a n σ
    (((s.callers i).val = some (m, b) ∨ (s.callers i).pc = .exiting (.reply m b) ∨ ∃ r, s.recv r = .holding i m b) →
      ∃ msg, s.inbox[m]? = some msg ∧ msg.pid = (s.callers i).key ∧ msg.body = b) := by
  intro s h
  have hi := (C17_invariants_hold_on_every_run a n σ).addr
  rcases h with h | h | ⟨r, h⟩
  · exact hi.chan i m b h
  · exact hi.exit i m b h
  · exact (hi.hold r i m b h).1

example : ((reach a0 0 (reqSteps 0 ++ route 0 1 7)).callers 0).val = some (0, 7) := by decide

/-! ## exactly one outcome -/

/-- a call is over exactly when it has an outcome -/
theorem C17_one_outcome (a : Sh) (n : Nat) (σ : List Step) (i : Nat) :
    ((reach a n σ).callers i).pc = .done ↔ ((reach a n σ).callers i).out ≠ none :=
  (C17_invariants_hold_on_every_run a n σ).done i

example : ((reach a0 0 good).callers 0).pc = .done ∧ ((reach a0 0 (reqSteps 0)).callers 0).out = none := by decide

/-- the outcome of a call never changes: whatever happens afterwards (duplicates of its reply, late replies, other
calls) it is not given a second result -/
theorem C17_outcome_final (a : Sh) (n : Nat) (σ τ : List Step) (i : Nat) (o : Outcome)
    (h : ((reach a n σ).callers i).out = some o) : ((reach a n (σ ++ τ)).callers i).out = some o := by
  unfold reach
  rw [run_append]
  exact out_run τ (C17_invariants_hold_on_every_run a n σ) i o h

/-- a duplicate of the reply after the call returned: logged, found no entry, the outcome stays -/
example : ((reach a0 0 (good ++ route 0 1 8)).callers 0).out = some (.reply 0 7) ∧
    (reach a0 0 (good ++ route 0 1 8)).inbox.length = 2 ∧ (reach a0 0 (good ++ route 0 1 8)).pending = [] := by decide

/-! ## nothing is left behind -/

/-- every entry of the table belongs to a call that is still running (registered, not yet returned or dropped) and is
filed under that call's key -/
theorem C17_entries_belong_to_running_calls (a : Sh) (n : Nat) (σ : List Step) (k : Pid) (i : Nat)
    (h : (k, i) ∈ (reach a n σ).pending) :
    ((reach a n σ).callers i).key = k ∧ ((reach a n σ).callers i).pc.armed = true :=
  (C17_invariants_hold_on_every_run a n σ).entry k i h

example : (reach a0 0 twoCalls).pending = [(⟨2, 0, 8⟩, 1), (⟨1, 0, 8⟩, 0)] := by decide

/-- a call that is over — returned with a reply, a timeout, a cancellation, a missing connection, a failed write, or
dropped by its owner — has no entry, and neither has a call that has not registered yet -/
theorem C17_no_entry_of_finished_call (a : Sh) (n : Nat) (σ : List Step) (k : Pid) (i : Nat)
    (h : ((reach a n σ).callers i).pc = .done ∨ ((reach a n σ).callers i).pc = .start ∨
         ((reach a n σ).callers i).pc = .allocated) : (k, i) ∉ (reach a n σ).pending := by
  intro hm
  have := ((C17_invariants_hold_on_every_run a n σ).entry k i hm).2
  rcases h with h | h | h <;> rw [h] at this <;> simp [Pc.armed] at this

/-- every exit path ends with `done` and an empty table: reply, timeout, no connection, failed write, dropped (while
holding the connection mutex, which is released), timer firing between the receiver's `remove` and `send` -/
example : ∀ σ ∈ [good, timedOut, noConnRun, sendErrRun, dropRun, raceRun],
    ((reach a0 0 σ).callers 0).pc = .done ∧ (reach a0 0 σ).pending = [] ∧ (reach a0 0 σ).lock 0 = none := by decide
example : [good, timedOut, noConnRun, sendErrRun, dropRun, raceRun].map (fun σ => ((reach a0 0 σ).callers 0).out) =
    [some (.reply 0 7), some .timeout, some .noConn, some .sendErr, some .dropped, some .timeout] := by decide

/-- once every call that was started is over, the table is empty — on every exit path and under every schedule -/
theorem C17_clean_at_quiescence (a : Sh) (n : Nat) (σ : List Step) (h : (reach a n σ).quiescent) :
    (reach a n σ).pending = [] := by
  apply List.eq_nil_iff_forall_not_mem.mpr
  rintro ⟨k, i⟩ hm
  have harm := ((C17_invariants_hold_on_every_run a n σ).entry k i hm).2
  rcases h i with h | h <;> rw [h] at harm <;> simp [Pc.armed] at harm

example : (reach a0 0 good).quiescent := by
  intro i
  by_cases h : i = 0
  · subst h; right; decide
  · left
    have := pc_frame_run good (St.init a0 0) i (by
      intro e he
      simp [good, reqSteps, route] at he
      rcases he with rfl | rfl | rfl | rfl | rfl | rfl | rfl | rfl | rfl | rfl | rfl <;> simp [Step.caller?] <;> omega)
    rw [reach, this]; rfl

/-! ## keys of concurrent calls differ -/

/-- two calls whose reply pids were allocated differ in (id, serial) as long as the node has allocated at most
`2^52` pids (calls, spawned processes and messages sent together) -/
theorem C17_keys_distinct (a : Sh) (n : Nat) (σ : List Step) (i j : Nat) (hij : i ≠ j)
    (hb : (reach a n σ).nalloc ≤ MAXP * U32)
    (hi : ((reach a n σ).callers i).pc ≠ .start) (hj : ((reach a n σ).callers j).pc ≠ .start)
    (hoi : ((reach a n σ).callers i).out ≠ some .allocFail) (hoj : ((reach a n σ).callers j).out ≠ some .allocFail) :
    (((reach a n σ).callers i).key.id, ((reach a n σ).callers i).key.serial) ≠
      (((reach a n σ).callers j).key.id, ((reach a n σ).callers j).key.serial) :=
  fun hk => hij (keys_distinct (C17_invariants_hold_on_every_run a n σ).alloc hb hi hj hoi hoj hk)

example : ((reach a0 0 twoCalls).callers 0).key = ⟨1, 0, 8⟩ ∧ ((reach a0 0 twoCalls).callers 1).key = ⟨2, 0, 8⟩ ∧
    (reach a0 0 twoCalls).nalloc ≤ MAXP * U32 := by decide

/-- the pid of a live local process is not the key of any call (same bound) -/
theorem C17_call_keys_differ_from_process_pids (a : Sh) (n : Nat) (σ : List Step) (i : Nat) (p : Pid)
    (hb : (reach a n σ).nalloc ≤ MAXP * U32) (hp : p ∈ (reach a n σ).procs)
    (hi : ((reach a n σ).callers i).pc ≠ .start) (hoi : ((reach a n σ).callers i).out ≠ some .allocFail) :
    ((reach a n σ).callers i).key ≠ p := by
  have ha := (C17_invariants_hold_on_every_run a n σ).alloc
  obtain ⟨q, hq1, hq2, hq3⟩ := ha.procs p hp
  obtain ⟨li, hai⟩ := ha.ix i hi
  have hai : seqAlloc a ((reach a n σ).callers i).ix = .ok ((reach a n σ).callers i).key := by
    rcases hai with h' | h'
    · exact h'
    · exact absurd h' hoi
  have hne := hq3 i hi
  intro hk
  rcases Nat.lt_or_gt_of_ne hne with hlt | hgt
  · exact Edp.Impl.PidAlloc.seqAlloc_key_ne_any a _ _ hlt (by omega) _ _ hai hq2 (by rw [hk])
  · exact Edp.Impl.PidAlloc.seqAlloc_key_ne_any a _ _ hgt (by omega) _ _ hq2 hai (by rw [hk])

example : (reach a0 0 (.spawnProc :: reqSteps 0)).procs = [⟨1, 0, 8⟩] ∧
    ((reach a0 0 (.spawnProc :: reqSteps 0)).callers 0).key = ⟨2, 0, 8⟩ := by decide

/-! ## a message goes to at most one call; late replies go to nobody -/

/-- no message is returned twice: two calls that returned the same inbound message are the same call
(a duplicated reply is two messages; each of them is returned at most once, and by `C17_outcome_final` the call
that took the first keeps it) -/
theorem C17_message_returned_to_one_caller (a : Sh) (n : Nat) (σ : List Step) (i j m b b' : Nat)
    (hb : (reach a n σ).nalloc ≤ MAXP * U32)
    (hi : ((reach a n σ).callers i).out = some (.reply m b))
    (hj : ((reach a n σ).callers j).out = some (.reply m b')) : i = j := by
  have hv := C17_invariants_hold_on_every_run a n σ
  obtain ⟨x, hx1, hx2, _⟩ := hv.addr.out i m b hi
  obtain ⟨y, hy1, hy2, _⟩ := hv.addr.out j m b' hj
  have hxy : x = y := by rw [hx1] at hy1; exact Option.some.inj hy1
  have hsi : ((reach a n σ).callers i).pc ≠ .start := by
    intro h; have := (hv.addr.fresh i h).2; rw [hi] at this; cases this
  have hsj : ((reach a n σ).callers j).pc ≠ .start := by
    intro h; have := (hv.addr.fresh j h).2; rw [hj] at this; cases this
  exact keys_distinct hv.alloc hb hsi hsj (by rw [hi]; simp) (by rw [hj]; simp) (by rw [← hx2, ← hy2, hxy])

/-- the reply sent twice: the call returns the first; the second finds no entry and is returned to nobody -/
example : let s := reach a0 0 (twoCalls ++ route 0 1 7 ++ route 0 1 7 ++ [.recvReply 0, .finish 0, .recvReply 1])
    (s.callers 0).out = some (.reply 0 7) ∧ (s.callers 1).pc = .waiting ∧ (s.callers 1).val = none := by decide

/-- A reply that arrives after its call is over is delivered to nobody: if call `i` is over after `σ`, then whatever
happens next (`τ`), a message handed to a receiver during `τ` and addressed to `i`'s key is never the result of any
call — not of another call (its key differs), not of `i` (its outcome is final). -/
theorem C17_late_reply_reaches_nobody (a : Sh) (n : Nat) (σ τ : List Step) (i j m b : Nat) (msg : Msg)
    (hb : (reach a n (σ ++ τ)).nalloc ≤ MAXP * U32)
    (hdone : ((reach a n σ).callers i).pc = .done) (hok : ((reach a n σ).callers i).out ≠ some .allocFail)
    (hlate : (reach a n σ).inbox.length ≤ m) (hm : (reach a n (σ ++ τ)).inbox[m]? = some msg)
    (hto : msg.pid = ((reach a n σ).callers i).key) :
    ((reach a n (σ ++ τ)).callers j).out ≠ some (.reply m b) := by
  intro hj
  have hv := C17_invariants_hold_on_every_run a n σ
  have hv' := C17_invariants_hold_on_every_run a n (σ ++ τ)
  have hrun : reach a n (σ ++ τ) = run (reach a n σ) τ := by unfold reach; rw [run_append]
  -- call i keeps its key and its outcome
  have hsi : ((reach a n σ).callers i).pc ≠ .start := by rw [hdone]; simp
  obtain ⟨hkey, hsi'⟩ := key_run τ (reach a n σ) i hsi
  rw [← hrun] at hkey hsi'
  obtain ⟨o, ho⟩ : ∃ o, ((reach a n σ).callers i).out = some o := by
    have := (hv.done i).mp hdone
    cases h : ((reach a n σ).callers i).out with
    | none => exact absurd h this
    | some o => exact ⟨o, rfl⟩
  have ho' : ((reach a n (σ ++ τ)).callers i).out = some o := C17_outcome_final a n σ τ i o ho
  -- the call that returned message m has the key the message was addressed to
  obtain ⟨x, hx1, hx2, _⟩ := hv'.addr.out j m b hj
  have hx : x = msg := by rw [hm] at hx1; exact (Option.some.inj hx1).symm
  have hsj : ((reach a n (σ ++ τ)).callers j).pc ≠ .start := by
    intro h; have := (hv'.addr.fresh j h).2; rw [hj] at this; cases this
  have hij : j = i := by
    refine keys_distinct hv'.alloc hb hsj hsi' (by rw [hj]; simp) (by rw [ho']; rw [ho] at hok; exact hok) ?_
    rw [← hx2, hx, hto, hkey]
  -- but i's outcome was fixed before message m existed
  subst hij
  rw [ho'] at hj
  cases hj
  obtain ⟨y, hy1, _, _⟩ := hv.addr.out j m b ho
  have : m < (reach a n σ).inbox.length := by
    rcases Nat.lt_or_ge m (reach a n σ).inbox.length with h | h
    · exact h
    · rw [List.getElem?_eq_none_iff.mpr h] at hy1; cases hy1
  omega

/-- the call timed out; its reply arrives afterwards: nothing changes but the log -/
example : ((reach a0 0 timedOut).callers 0).pc = .done ∧ (reach a0 0 timedOut).inbox.length = 0 ∧
    (reach a0 0 (timedOut ++ route 0 1 9)).inbox[0]? = some ⟨0, ⟨1, 0, 8⟩, 9⟩ ∧
    ((reach a0 0 (timedOut ++ route 0 1 9)).callers 0).out = some .timeout ∧
    (reach a0 0 (timedOut ++ route 0 1 9)).pending = [] := by decide

/-! ## cancellation -/

/-- `RpcCancelled` needs the sender to be dropped without a value; that happens only when another call registers or
removes the same key. While the allocator has not gone round no call ever returns it. -/
theorem C17_never_cancelled (a : Sh) (n : Nat) (σ : List Step) (i : Nat)
    (hb : (reach a n σ).nalloc ≤ MAXP * U32) : ((reach a n σ).callers i).out ≠ some .cancelled :=
  ((tx_run σ (inv_init a n) (tx_init a n) hb).nc i).2

example : (reach a0 0 twoCalls).nalloc = 2 := by decide

/-- while the allocator has not gone round, a sender is dropped unsent only by its own call on its way out -/
theorem C17_sender_dropped_only_on_exit (a : Sh) (n : Nat) (σ : List Step) (i : Nat)
    (hb : (reach a n σ).nalloc ≤ MAXP * U32) (h : ((reach a n σ).callers i).txDropped = true) :
    ((reach a n σ).callers i).pc.over = true :=
  (tx_run σ (inv_init a n) (tx_init a n) hb).tx i h

example : ((reach a0 0 (reqSteps 0 ++ [.timeout 0, .timeoutRemove 0])).callers 0).txDropped = true ∧
    ((reach a0 0 (reqSteps 0 ++ [.timeout 0, .timeoutRemove 0])).callers 0).pc = .exiting .timeout := by decide

/-! ## routing: the registry first, unknown keys dropped -/

/-- a message addressed to a live local process (node name and numbers) is handed to that process; the table, every
call and every receiver stay as they are -/
theorem C17_local_process_first (s : St) (r : Nat) (msg : Msg) (hidle : s.recv r = .idle)
    (hp : msg.node = s.localNode ∧ msg.pid ∈ s.procs) :
    ∃ s', step s (.rStart r msg) = some s' ∧ s'.pending = s.pending ∧ s'.callers = s.callers ∧ s'.recv = s.recv ∧
      s'.procLog = s.procLog ++ [(msg.pid, s.inbox.length)] := by
  refine ⟨{ s with inbox := s.inbox ++ [msg], procLog := s.procLog ++ [(msg.pid, s.inbox.length)] }, ?_, rfl, rfl, rfl, rfl⟩
  simp only [step, hidle, hp, and_self, if_true]

example : let s := reach a0 0 (.spawnProc :: reqSteps 0 ++ [.rStart 0 ⟨0, ⟨1, 0, 8⟩, 5⟩])
    s.procLog = [(⟨1, 0, 8⟩, 0)] ∧ s.pending = [(⟨2, 0, 8⟩, 0)] ∧ s.recv 0 = .idle := by decide
/-- the process's numbers under a foreign node name are not that process: the message is routed (and dropped) -/
example : let s := reach a0 0 (.spawnProc :: reqSteps 0 ++ [.rStart 0 ⟨1, ⟨1, 0, 8⟩, 5⟩, .rRemove 0])
    s.procLog = [] ∧ s.pending = [(⟨2, 0, 8⟩, 0)] ∧ s.recv 0 = .idle := by decide

/-- a message whose numbers are not in the table (unknown pid, a call that is already over, a duplicate of a reply
already taken) changes nothing but the receiver's own program counter -/
theorem C17_unknown_key_dropped (s : St) (r : Nat) (msg : Msg) (m : Nat) (hr : s.recv r = .routing msg m)
    (hk : ∀ i, (msg.pid, i) ∉ s.pending) :
    step s (.rRemove r) = some { s with recv := upd s.recv r .idle } := by
  have : lookupKey s.pending msg.pid = none := by
    cases h : lookupKey s.pending msg.pid with
    | none => rfl
    | some i => exact absurd (lookupKey_some h) (hk i)
  simp only [step, hr, this]

example : let s := reach a0 0 (reqSteps 0 ++ [.rStart 0 ⟨0, ⟨100001, 0, 8⟩, 5⟩])
    s.recv 0 = .routing ⟨0, ⟨100001, 0, 8⟩, 5⟩ 0 ∧ ∀ e ∈ s.pending, e.1 ≠ ⟨100001, 0, 8⟩ := by decide

/-- a value sent to a call whose receiving half is gone (it timed out or was dropped between the receiver's `remove`
and its `send`) is discarded -/
theorem C17_send_after_timeout_is_discarded (s : St) (r i m b : Nat) (hr : s.recv r = .holding i m b)
    (hrx : (s.callers i).rxAlive = false) :
    step s (.rSend r) = some { s with recv := upd s.recv r .idle } := by
  simp [step, hr, hrx]

example : let s := reach a0 0 (reqSteps 0 ++ [.rStart 0 ⟨0, ⟨1, 0, 8⟩, 7⟩, .rRemove 0, .timeout 0])
    s.recv 0 = .holding 0 0 7 ∧ (s.callers 0).rxAlive = false := by decide

/-! ## the connection mutex -/

/-- at most one call writes its request on a connection at a time -/
theorem C17_send_mutex (a : Sh) (n : Nat) (σ : List Step) (i j : Nat)
    (hi : ((reach a n σ).callers i).pc.holdsLock = true) (hj : ((reach a n σ).callers j).pc.holdsLock = true)
    (hc : ((reach a n σ).callers i).conn = ((reach a n σ).callers j).conn) : i = j := by
  have hl := (C17_invariants_hold_on_every_run a n σ).lock
  have h1 := hl.holder i hi
  have h2 := hl.holder j hj
  rw [hc, h2] at h1
  exact (Option.some.inj h1).symm


/-- the second call cannot take the mutex while the first holds it -/
example : let s := reach a0 0 ([.begin 0, .insert 0, .lookup 0 (some 0), .lock 0] ++ [.begin 1, .insert 1, .lookup 1 (some 0), .lock 1])
    (s.callers 0).pc = .locked ∧ (s.callers 1).pc = .found ∧ s.lock 0 = some 0 := by decide

/-! ## every exit path removes the call's key; the reply path delivers -/

/-- Each step on which a call gives up — no connection, failed write, timeout, return (the drop guard), dropped by its
owner once registered — leaves no entry under the call's key, whatever the state it is taken in. -/
theorem C17_exit_steps_remove_the_key (s s' : St) (i : Nat) (e : Step)
    (he : e = .lookup i none ∨ e = .send i false ∨ e = .timeoutRemove i ∨ e = .finish i ∨
          (e = .drop i ∧ (s.callers i).pc.armed = true))
    (hs : step s e = some s') (j : Nat) : ((s.callers i).key, j) ∉ s'.pending := by
  rcases he with rfl | rfl | rfl | rfl | ⟨rfl, harm⟩ <;> simp only [step] at hs <;> (repeat' split at hs) <;>
    (try cases hs) <;> (try contradiction) <;>
    simp_all [St.setCaller, mem_eraseKey, St.removeKey]

example : step (reach a0 0 (reqSteps 0)) (.drop 0) ≠ none ∧ ((reach a0 0 (reqSteps 0)).callers 0).pc.armed = true := by decide

/-- a call ends only by `finish`, by being dropped, or by the allocator failing before anything was registered -/
theorem C17_calls_end_by_finish_or_drop (s s' : St) (e : Step) (i : Nat) (hs : step s e = some s')
    (h0 : (s.callers i).pc ≠ .done) (h1 : (s'.callers i).pc = .done) :
    e = .finish i ∨ e = .drop i ∨ (e = .begin i ∧ (s'.callers i).out = some .allocFail) := by
  cases e <;> simp only [step] at hs <;> (repeat' split at hs) <;> (try cases hs) <;> (try contradiction) <;>
    simp only [upd_apply, St.setCaller, ite_pc, ite_out, removeKey_pc, removeKey_out] at h1 ⊢
  all_goals grind

example : ((reach a0 0 (reqSteps 0 ++ [.timeout 0, .timeoutRemove 0])).callers 0).pc ≠ .done ∧
    ((reach a0 0 timedOut).callers 0).pc = .done := by decide

/-- The reply arrives. A call is waiting with its entry in the table; a message addressed to its reply pid is given
to an idle receiver. The receiver's three steps and the call's two make the call return exactly that message
(its number in the log and its body), while the allocator has not gone round. -/
theorem C17_reply_is_delivered (a : Sh) (n : Nat) (σ : List Step) (i r : Nat) (msg : Msg)
    (hb : (reach a n σ).nalloc ≤ MAXP * U32)
    (hw : ((reach a n σ).callers i).pc = .waiting)
    (hm : (((reach a n σ).callers i).key, i) ∈ (reach a n σ).pending)
    (hr : (reach a n σ).recv r = .idle) (hto : msg.pid = ((reach a n σ).callers i).key) :
    ((reach a n (σ ++ [.rStart r msg, .rRemove r, .rSend r, .recvReply i, .finish i])).callers i).out =
      some (.reply (reach a n σ).inbox.length msg.body) := by
  have hv := C17_invariants_hold_on_every_run a n σ
  have hnp : ¬(msg.node = (reach a n σ).localNode ∧ msg.pid ∈ (reach a n σ).procs) := by
    rintro ⟨_, hp⟩
    have hout : ((reach a n σ).callers i).out ≠ some .allocFail := by
      intro h
      have := (hv.done i).mpr (by rw [h]; simp)
      rw [hw] at this; cases this
    exact C17_call_keys_differ_from_process_pids a n σ i msg.pid hb hp (by rw [hw]; simp) hout hto.symm
  have := reply_delivered hv (rx_run σ (rx_init a n)) hb i r msg hw hm hr hto hnp
  unfold reach at this ⊢
  rw [run_append]
  exact this


example : ((reach a0 0 (reqSteps 0)).callers 0).pc = .waiting ∧
    (((reach a0 0 (reqSteps 0)).callers 0).key, 0) ∈ (reach a0 0 (reqSteps 0)).pending ∧
    (reach a0 0 (reqSteps 0)).recv 0 = .idle := by decide

/-! ## the key text -/

/-- The real table is keyed by the text `"{id}.{serial}.{creation}"`. Different triples have different texts, so keying
the model's table by the triple loses nothing (and two calls share an entry only if their triples are equal). -/
theorem C17_key_text_injective (p q : Pid) (h : keyText p = keyText q) : p = q := keyText_inj h

example : keyText ⟨12, 0, 345⟩ = "12.0.345" := by decide

end Edp.Props.C17
