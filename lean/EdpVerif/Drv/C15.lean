import EdpVerif.Drv.Etf
import EdpVerif.Impl.Serde
import EdpVerif.Spec.Serde
import EdpVerif.Impl.SerdeAny
import EdpVerif.Spec.SerdeShape
/-!
Driver requests of property C15 and the text form of `Ty` / `Val` shared with harness/src/c15.rs.

Types:  `i8 … u64 f32 f64 bool char str bytes unit opt(T) tup(T,…) seq(T) map(K,V) st:NAME(F:T,…) us:NAME nt:NAME(T)
         ts:NAME(T,…) ex:MODULE(F:T,…) en:NAME(V:SHAPE,…)`  (names in hex; SHAPE = `unit | nt:(T) | tup(T,…) | st:(F:T,…)`)
Values: `i8:-5 f32:HEX8 f64:HEX16 true false c:CODEPOINT s:HEX b:HEX unit none some(V) tup(V,…) seq(V,…) map(K,V,K,V,…)
         st:NAME(F:V,…) us:NAME nt:NAME(V) ts:NAME(V,…) ex:MODULE(F:V,…) en:ENUM:VARIANT(PAYLOAD)`
-/
namespace Edp.Drv
open Edp Edp.Serde

namespace C15

def IntTy.text : IntTy → String
  | .i8 => "i8" | .i16 => "i16" | .i32 => "i32" | .i64 => "i64"
  | .u8 => "u8" | .u16 => "u16" | .u32 => "u32" | .u64 => "u64"

def intTyOf : String → Option IntTy
  | "i8" => some .i8 | "i16" => some .i16 | "i32" => some .i32 | "i64" => some .i64
  | "u8" => some .u8 | "u16" => some .u16 | "u32" => some .u32 | "u64" => some .u64
  | _ => none

def hexPad (width n : Nat) : String :=
  hexOf (beN width n)

mutual
partial def valText : Val → String
  | .int k i => IntTy.text k ++ ":" ++ toString i
  | .f32 b => "f32:" ++ hexPad 4 b
  | .f64 b => "f64:" ++ hexPad 8 b
  | .bool b => if b then "true" else "false"
  | .char c => "c:" ++ toString c
  | .string s => "s:" ++ hexOf s
  | .bytes b => "b:" ++ hexOf b
  | .unit => "unit"
  | .none => "none"
  | .some v => "some(" ++ valText v ++ ")"
  | .tuple vs => "tup(" ++ valsText vs ++ ")"
  | .seq vs => "seq(" ++ valsText vs ++ ")"
  | .map kvs => "map(" ++ ",".intercalate (kvs.map fun kv => valText kv.1 ++ "," ++ valText kv.2) ++ ")"
  | .struct n fs => "st:" ++ hexOf n ++ "(" ++ fieldsText fs ++ ")"
  | .unitStruct n => "us:" ++ hexOf n
  | .newtype n v => "nt:" ++ hexOf n ++ "(" ++ valText v ++ ")"
  | .tupleStruct n vs => "ts:" ++ hexOf n ++ "(" ++ valsText vs ++ ")"
  | .exStruct m fs => "ex:" ++ hexOf m ++ "(" ++ fieldsText fs ++ ")"
  | .variant e v p => "en:" ++ hexOf e ++ ":" ++ hexOf v ++ "(" ++ valText p ++ ")"
partial def valsText (vs : List Val) : String := ",".intercalate (vs.map valText)
partial def fieldsText (fs : List (Bytes × Val)) : String :=
  ",".intercalate (fs.map fun f => hexOf f.1 ++ ":" ++ valText f.2)
end

abbrev P := List Char

def pIdent (cs : P) : String × P :=
  let h := cs.takeWhile Char.isAlphanum
  (String.ofList h, cs.drop h.length)

def pHexName (cs : P) : Bytes × P := Term.pHex cs

def expect (c : Char) (cs : P) : Option P := Term.expect c cs

/-- `X,X,…` up to the closing parenthesis (which is consumed) -/
partial def pList (item : P → Option (α × P)) (cs : P) : Option (List α × P) :=
  match cs with
  | ')' :: r => some ([], r)
  | _ => do
    let (x, r) ← item cs
    match r with
    | ',' :: r' => do
      let (xs, r'') ← pList item r'
      pure (x :: xs, r'')
    | ')' :: r' => pure ([x], r')
    | _ => none

mutual
partial def pTy (cs : P) : Option (Ty × P) :=
  let (id, r) := pIdent cs
  match intTyOf id with
  | some k => some (.int k, r)
  | none =>
  match id with
  | "f32" => some (.f32, r) | "f64" => some (.f64, r) | "bool" => some (.bool, r) | "char" => some (.char, r)
  | "str" => some (.string, r) | "bytes" => some (.bytes, r) | "unit" => some (.unit, r)
  | "opt" => do
    let r ← expect '(' r
    let (t, r) ← pTy r
    let r ← expect ')' r
    pure (.option t, r)
  | "seq" => do
    let r ← expect '(' r
    let (t, r) ← pTy r
    let r ← expect ')' r
    pure (.seq t, r)
  | "tup" => do
    let r ← expect '(' r
    let (ts, r) ← pList pTy r
    pure (.tuple ts, r)
  | "map" => do
    let r ← expect '(' r
    let (k, r) ← pTy r
    let r ← expect ',' r
    let (v, r) ← pTy r
    let r ← expect ')' r
    pure (.map k v, r)
  | "us" => do
    let r ← expect ':' r
    let (n, r) := pHexName r
    pure (.unitStruct n, r)
  | "nt" => do
    let r ← expect ':' r
    let (n, r) := pHexName r
    let r ← expect '(' r
    let (t, r) ← pTy r
    let r ← expect ')' r
    pure (.newtype n t, r)
  | "ts" => do
    let r ← expect ':' r
    let (n, r) := pHexName r
    let r ← expect '(' r
    let (ts, r) ← pList pTy r
    pure (.tupleStruct n ts, r)
  | "st" => do
    let r ← expect ':' r
    let (n, r) := pHexName r
    let r ← expect '(' r
    let (fs, r) ← pList pTyField r
    pure (.struct n fs, r)
  | "ex" => do
    let r ← expect ':' r
    let (n, r) := pHexName r
    let r ← expect '(' r
    let (fs, r) ← pList pTyField r
    pure (.exStruct n fs, r)
  | "en" => do
    let r ← expect ':' r
    let (n, r) := pHexName r
    let r ← expect '(' r
    let (fs, r) ← pList pTyField r
    pure (.enum n fs, r)
  | _ => none
partial def pTyField (cs : P) : Option ((Bytes × Ty) × P) := do
  let (n, r) := pHexName cs
  let r ← expect ':' r
  let (t, r) ← pTy r
  pure ((n, t), r)
end

def pairUp : List Val → Option (List (Val × Val))
  | [] => some []
  | [_] => none
  | k :: v :: r => (pairUp r).map ((k, v) :: ·)

mutual
partial def pVal (cs : P) : Option (Val × P) :=
  let (id, r) := pIdent cs
  match intTyOf id with
  | some k => do
    let r ← expect ':' r
    let (i, r) := Term.pInt r
    pure (.int k i, r)
  | none =>
  match id with
  | "f32" => do
    let r ← expect ':' r
    let (b, r) := pHexName r
    let (v, _) ← rdN 4 b
    pure (.f32 v, r)
  | "f64" => do
    let r ← expect ':' r
    let (b, r) := pHexName r
    let (v, _) ← rdN 8 b
    pure (.f64 v, r)
  | "true" => some (.bool true, r)
  | "false" => some (.bool false, r)
  | "c" => do
    let r ← expect ':' r
    let (n, r) := Term.pNat r
    pure (.char n, r)
  | "s" => do
    let r ← expect ':' r
    let (b, r) := pHexName r
    pure (.string b, r)
  | "b" => do
    let r ← expect ':' r
    let (b, r) := pHexName r
    pure (.bytes b, r)
  | "unit" => some (.unit, r)
  | "none" => some (.none, r)
  | "some" => do
    let r ← expect '(' r
    let (v, r) ← pVal r
    let r ← expect ')' r
    pure (.some v, r)
  | "tup" => do
    let r ← expect '(' r
    let (vs, r) ← pList pVal r
    pure (.tuple vs, r)
  | "seq" => do
    let r ← expect '(' r
    let (vs, r) ← pList pVal r
    pure (.seq vs, r)
  | "map" => do
    let r ← expect '(' r
    let (vs, r) ← pList pVal r
    let kvs ← pairUp vs
    pure (.map kvs, r)
  | "us" => do
    let r ← expect ':' r
    let (n, r) := pHexName r
    pure (.unitStruct n, r)
  | "nt" => do
    let r ← expect ':' r
    let (n, r) := pHexName r
    let r ← expect '(' r
    let (v, r) ← pVal r
    let r ← expect ')' r
    pure (.newtype n v, r)
  | "ts" => do
    let r ← expect ':' r
    let (n, r) := pHexName r
    let r ← expect '(' r
    let (vs, r) ← pList pVal r
    pure (.tupleStruct n vs, r)
  | "st" => do
    let r ← expect ':' r
    let (n, r) := pHexName r
    let r ← expect '(' r
    let (fs, r) ← pList pValField r
    pure (.struct n fs, r)
  | "ex" => do
    let r ← expect ':' r
    let (n, r) := pHexName r
    let r ← expect '(' r
    let (fs, r) ← pList pValField r
    pure (.exStruct n fs, r)
  | "en" => do
    let r ← expect ':' r
    let (e, r) := pHexName r
    let r ← expect ':' r
    let (v, r) := pHexName r
    let r ← expect '(' r
    let (p, r) ← pVal r
    let r ← expect ')' r
    pure (.variant e v p, r)
  | _ => none
partial def pValField (cs : P) : Option ((Bytes × Val) × P) := do
  let (n, r) := pHexName cs
  let r ← expect ':' r
  let (v, r) ← pVal r
  pure ((n, v), r)
end

def getTy (s : String) : Except String Ty :=
  match pTy s.toList with
  | some (t, []) => .ok t
  | _ => .error ("bad-ty " ++ s.take 40)

def getVal (s : String) : Except String Val :=
  match pVal s.toList with
  | some (v, []) => .ok v
  | _ => .error ("bad-val " ++ s.take 40)

def showDe : SRes Val → String
  | .ok v => "ok " ++ valText v
  | .error _ => "err"

end C15

open C15 in
def handleC15 : List String → Option String
  -- `to_term`
  | ["c15ser", v] => some <| run do
    let v ← getVal v
    pure ("ok " ++ (ser v).text)
  -- `from_term::<ty>`
  | ["c15any", t] => some <| run do
      let t ← getTerm t
      match Serde.content t with
      | .ok c => pure ("ok " ++ c.text)
      | .error _ => pure "err"
  | ["c15de", ty, t] => some <| run do
    let ty ← getTy ty
    let t ← getTerm t
    pure (showDe (de ty t))
  -- the closed form of `decode ∘ encode` on the serialiser's fragment
  | ["c15wire", t] => some <| run do
    let t ← getTerm t
    -- the closed form must agree with the encoder/decoder models themselves (and, by the tie, with the real codec)
    match encode t with
    | .ok b =>
      match decode Ext.none b with
      | .ok t' =>
        if t'.text == (wireT t).text then pure ("ok " ++ (wireT t).text)
        else pure ("MISMATCH closed-form " ++ (wireT t).text ++ " codec-model " ++ t'.text)
      | .error _ => pure "MISMATCH codec-model-decode-error"
    | .error _ => pure "MISMATCH codec-model-encode-error"
  -- `from_bytes::<ty>(to_bytes(v))` in one go (external calls are not reached on these bytes)
  | ["c15bytes", ty, v] => some <| run do
    let ty ← getTy ty
    let v ← getVal v
    match toBytes v with
    | .ok b => pure (showDe (fromBytes Ext.none ty b))
    | .error _ => pure "encerr"
  -- property oracle: the implementation's round-trip result `res` for `v : ty` against the specification
  | ["c15rt", mode, ty, v, res] => some <| run do
    let ty ← getTy ty
    let v ← getVal v
    if !hasTy v ty then pure "FAIL generator: value not of the type" else
    if !(if mode == "wire" then Spec.Serde.distinguishableW v ty else Spec.Serde.distinguishable v ty) then pure "ok" else
    if res == valText v then pure "ok" else
    -- beyond the decoder's own limits an error is the allowed outcome (reported, not altered); anything else is not
    if mode == "wire" && !Spec.Serde.decodable (ser v) && (res == "err" || res == "encerr") then pure "ok" else
    pure ("FAIL " ++ mode ++ " round trip of " ++ valText v ++ " gave " ++ res)
  -- the specification's classification of a value (which guards hold), tied to the harness's own classification
  | ["c15class", ty, v] => some <| run do
    let ty ← getTy ty
    let v ← getVal v
    pure ((if hasTy v ty then "ty" else "noty") ++ (if Spec.Serde.distinguishable v ty then ",dist" else ",nodist") ++
      (if Spec.Serde.distinguishableW v ty then ",distw" else ",nodistw"))
  -- 128-bit integers: `to_term(&x)` / `from_term::<i128|u128>(t)`
  | ["c15serwide", w, i] => some <| run do
    let w ← (match w with | "i128" => pure WideTy.i128 | "u128" => pure WideTy.u128 | _ => throw "bad-wide")
    let i ← (match i.toInt? with | some i => pure i | none => throw "bad-int")
    pure (match serWide w i with | .ok t => "ok " ++ t.text | .error _ => "err")
  | ["c15dewide", w, t] => some <| run do
    let w ← (match w with | "i128" => pure WideTy.i128 | "u128" => pure WideTy.u128 | _ => throw "bad-wide")
    let t ← getTerm t
    pure (match deWide w t with | .ok i => "ok " ++ toString i | .error _ => "err")
  -- oracle for integer reads on arbitrary terms: `res` (the implementation's `from_term::<k>(t)`) against the numeric value
  -- of the term (Spec.Serde.intVal): in range ↦ exactly that value, otherwise an error
  | ["c15int", k, t, res] => some <| run do
    let ty ← getTy k
    let t ← getTerm t
    match ty with
    | .int k =>
      let expected := match Spec.Serde.intVal t with
        | some i => if k.inRange i then valText (.int k i) else "err"
        | none => "err"
      if res == expected then pure "ok" else pure ("FAIL integer read: the term denotes " ++
        (match Spec.Serde.intVal t with | some i => toString i | none => "no integer") ++ ", from_term gave " ++ res)
    | _ => throw "bad-int-ty"
  -- the error clause on the implementation's output: a term without one of the shapes the type is written as must be `err`
  | ["c15shape", ty, t, res] => some <| run do
    let ty ← getTy ty
    let t ← getTerm t
    if !SerdeShape.shapeOk ty t && res != "err" && res != "panic" then
      pure ("FAIL a value made up from a term of the wrong shape: " ++ res)
    else if res == "panic" then pure "FAIL panic"
    else pure "ok"
  | _ => none

end Edp.Drv
