import EdpVerif.Impl.Convert
import EdpVerif.Lemmas.Reencode
/-! The conversions of borrowed.rs (`Impl/Convert.lean`): clones are copies, `to_owned` / `From<&OwnedTerm>` are the structural
image on every tree whose maps are `BTreeMap`s (keys pairwise strictly increasing). -/
namespace Edp

theorem clonePid_id (p : PidF) : clonePid p = p := rfl

mutual
theorem cloneT_id (t : Term) : cloneT t = t := by
  match t with
  | .atom _ | .int _ | .float _ | .bin _ | .bits _ _ | .str _ | .big _ _ | .xfun _ _ _ | .nil => simp [cloneT]
  | .pid p => simp [cloneT, clonePid_id]
  | .port n i c l => simp [cloneT, clonePort]
  | .ref n c ids l => simp [cloneT, cloneRef]
  | .list l => simp [cloneT, cloneTL_id l]
  | .ilist l t => simp [cloneT, cloneTL_id l, cloneT_id t]
  | .map kvs => simp [cloneT, cloneTKV_id kvs]
  | .tuple l => simp [cloneT, cloneTL_id l]
  | .ifun a u i nf m oi ou p fr => simp [cloneT, clonePid_id, cloneTL_id fr]
termination_by sizeOf t
decreasing_by all_goals (simp_wf; try omega)
theorem cloneTL_id (l : List Term) : cloneTL l = l := by
  match l with
  | [] => simp [cloneTL]
  | t :: ts => simp [cloneTL, cloneT_id t, cloneTL_id ts]
termination_by sizeOf l
decreasing_by all_goals (simp_wf; try omega)
theorem cloneTKV_id (l : List (Term × Term)) : cloneTKV l = l := by
  match l with
  | [] => simp [cloneTKV]
  | (k, v) :: r => simp [cloneTKV, cloneT_id k, cloneT_id v, cloneTKV_id r]
termination_by sizeOf l
decreasing_by all_goals (simp_wf; try omega)
end

mutual
theorem cloneB_id (t : BTerm) : cloneB t = t := by
  match t with
  | .atom _ _ | .int _ | .float _ | .bin _ _ | .bits _ _ _ | .str _ _ | .big _ _ | .xfun _ _ _ | .nil => simp [cloneB]
  | .pid p => simp [cloneB, clonePid_id]
  | .port n i c l => simp [cloneB, clonePort]
  | .ref n c ids l => simp [cloneB, cloneRef]
  | .list l => simp [cloneB, cloneBL_id l]
  | .ilist l t => simp [cloneB, cloneBL_id l, cloneB_id t]
  | .map kvs => simp [cloneB, cloneBKV_id kvs]
  | .tuple l => simp [cloneB, cloneBL_id l]
  | .ifun a u i nf m oi ou p fr => simp [cloneB, clonePid_id, cloneTL_id fr]
termination_by sizeOf t
decreasing_by all_goals (simp_wf; try omega)
theorem cloneBL_id (l : List BTerm) : cloneBL l = l := by
  match l with
  | [] => simp [cloneBL]
  | t :: ts => simp [cloneBL, cloneB_id t, cloneBL_id ts]
termination_by sizeOf l
decreasing_by all_goals (simp_wf; try omega)
theorem cloneBKV_id (l : List (BTerm × BTerm)) : cloneBKV l = l := by
  match l with
  | [] => simp [cloneBKV]
  | (k, v) :: r => simp [cloneBKV, cloneB_id k, cloneB_id v, cloneBKV_id r]
termination_by sizeOf l
decreasing_by all_goals (simp_wf; try omega)
end

/-! ### the `BTreeMap` invariant -/

mutual
/-- every map of the term that a conversion re-collects has its keys pairwise strictly increasing under `Term.cmp` — the
invariant of `BTreeMap<OwnedTerm, _>`.  The free variables of a fun are not looked at: the conversions clone the box. -/
def btreeSorted : Term → Bool
  | .list l => btreeSortedL l
  | .ilist l t => btreeSortedL l && btreeSorted t
  | .map kvs => btreeSortedKV kvs && pairwiseLt kvs
  | .tuple l => btreeSortedL l
  | _ => true
def btreeSortedL : List Term → Bool
  | [] => true
  | t :: ts => btreeSorted t && btreeSortedL ts
def btreeSortedKV : List (Term × Term) → Bool
  | [] => true
  | (k, v) :: r => btreeSorted k && btreeSorted v && btreeSortedKV r
end

theorem collectT_eq (m l : List (Term × Term)) : collectT m l = insertAll m l := by
  induction l generalizing m with
  | nil => simp [collectT, insertAll]
  | cons kv r ih => obtain ⟨k, v⟩ := kv; simp [collectT, insertAll, ih]

theorem collectT_sorted (kvs : List (Term × Term)) (h : pairwiseLt kvs = true) : collectT [] kvs = kvs := by
  rw [collectT_eq]; exact insertAll_sorted kvs h

theorem erase_mapInsertB (acc : List (BTerm × BTerm)) (k v : BTerm) :
    eraseKV (mapInsertB acc k v) = mapInsert (eraseKV acc) (erase k) (erase v) := by
  induction acc with
  | nil => simp [mapInsertB, mapInsert, eraseKV]
  | cons a acc ih =>
    obtain ⟨k', v'⟩ := a
    simp only [mapInsertB, eraseKV, mapInsert, BTerm.cmp]
    cases Term.cmp (erase k) (erase k') <;> simp [eraseKV, ih]

theorem erase_insertAllB (acc l : List (BTerm × BTerm)) :
    eraseKV (insertAllB acc l) = insertAll (eraseKV acc) (eraseKV l) := by
  induction l generalizing acc with
  | nil => simp [insertAllB, insertAll, eraseKV]
  | cons kv r ih => obtain ⟨k, v⟩ := kv; simp [insertAllB, insertAll, eraseKV, ih, erase_mapInsertB]

/-! ### `to_owned` -/

mutual
theorem toOwned_erase (b : BTerm) (h : btreeSorted (erase b) = true) : toOwned b = erase b := by
  match b with
  | .atom _ _ | .int _ | .float _ | .bin _ _ | .bits _ _ _ | .str _ _ | .big _ _ | .xfun _ _ _ | .nil => simp [toOwned, erase]
  | .pid p => simp [toOwned, erase, clonePid_id]
  | .port n i c l => simp [toOwned, erase, clonePort]
  | .ref n c ids l => simp [toOwned, erase, cloneRef]
  | .list l =>
    simp only [erase, btreeSorted] at h
    simp [toOwned, erase, toOwnedL_erase l h]
  | .ilist l t =>
    simp only [erase, btreeSorted, Bool.and_eq_true] at h
    simp [toOwned, erase, toOwnedL_erase l h.1, toOwned_erase t h.2]
  | .map kvs =>
    simp only [erase, btreeSorted, Bool.and_eq_true] at h
    simp [toOwned, erase, toOwnedKV_erase kvs h.1, collectT_sorted _ h.2]
  | .tuple l =>
    simp only [erase, btreeSorted] at h
    simp [toOwned, erase, toOwnedL_erase l h]
  | .ifun a u i nf m oi ou p fr => simp [toOwned, erase, clonePid_id, cloneTL_id]
termination_by sizeOf b
decreasing_by all_goals (simp_wf; try omega)
theorem toOwnedL_erase (l : List BTerm) (h : btreeSortedL (eraseL l) = true) : toOwnedL l = eraseL l := by
  match l with
  | [] => simp [toOwnedL, eraseL]
  | t :: ts =>
    simp only [eraseL, btreeSortedL, Bool.and_eq_true] at h
    simp [toOwnedL, eraseL, toOwned_erase t h.1, toOwnedL_erase ts h.2]
termination_by sizeOf l
decreasing_by all_goals (simp_wf; try omega)
theorem toOwnedKV_erase (l : List (BTerm × BTerm)) (h : btreeSortedKV (eraseKV l) = true) : toOwnedKV l = eraseKV l := by
  match l with
  | [] => simp [toOwnedKV, eraseKV]
  | (k, v) :: r =>
    simp only [eraseKV, btreeSortedKV, Bool.and_eq_true] at h
    simp [toOwnedKV, eraseKV, toOwned_erase k h.1.1, toOwned_erase v h.1.2, toOwnedKV_erase r h.2]
termination_by sizeOf l
decreasing_by all_goals (simp_wf; try omega)
end

/-! ### `From<&OwnedTerm>` -/

mutual
theorem erase_fromOwned (t : Term) (h : btreeSorted t = true) : erase (fromOwned t) = t := by
  match t with
  | .atom _ | .int _ | .float _ | .bin _ | .bits _ _ | .str _ | .big _ _ | .xfun _ _ _ | .nil => simp [fromOwned, erase]
  | .pid p => simp [fromOwned, erase, clonePid_id]
  | .port n i c l => simp [fromOwned, erase, clonePort]
  | .ref n c ids l => simp [fromOwned, erase, cloneRef]
  | .list l =>
    simp only [btreeSorted] at h
    simp [fromOwned, erase, eraseL_fromOwnedL l h]
  | .ilist l t =>
    simp only [btreeSorted, Bool.and_eq_true] at h
    simp [fromOwned, erase, eraseL_fromOwnedL l h.1, erase_fromOwned t h.2]
  | .map kvs =>
    simp only [btreeSorted, Bool.and_eq_true] at h
    simp [fromOwned, erase, erase_insertAllB, eraseKV, eraseKV_fromOwnedKV kvs h.1, insertAll_sorted _ h.2]
  | .tuple l =>
    simp only [btreeSorted] at h
    simp [fromOwned, erase, eraseL_fromOwnedL l h]
  | .ifun a u i nf m oi ou p fr => simp [fromOwned, erase, clonePid_id, cloneTL_id]
termination_by sizeOf t
decreasing_by all_goals (simp_wf; try omega)
theorem eraseL_fromOwnedL (l : List Term) (h : btreeSortedL l = true) : eraseL (fromOwnedL l) = l := by
  match l with
  | [] => simp [fromOwnedL, eraseL]
  | t :: ts =>
    simp only [btreeSortedL, Bool.and_eq_true] at h
    simp [fromOwnedL, eraseL, erase_fromOwned t h.1, eraseL_fromOwnedL ts h.2]
termination_by sizeOf l
decreasing_by all_goals (simp_wf; try omega)
theorem eraseKV_fromOwnedKV (l : List (Term × Term)) (h : btreeSortedKV l = true) : eraseKV (fromOwnedKV l) = l := by
  match l with
  | [] => simp [fromOwnedKV, eraseKV]
  | (k, v) :: r =>
    simp only [btreeSortedKV, Bool.and_eq_true] at h
    simp [fromOwnedKV, eraseKV, erase_fromOwned k h.1.1, erase_fromOwned v h.1.2, eraseKV_fromOwnedKV r h.2]
termination_by sizeOf l
decreasing_by all_goals (simp_wf; try omega)
end

theorem toOwned_fromOwned (t : Term) (h : btreeSorted t = true) : toOwned (fromOwned t) = t := by
  have e := erase_fromOwned t h
  rw [toOwned_erase (fromOwned t) (by rw [e]; exact h), e]

theorem conv_apply_id (c : Conv) (t : Term) (h : btreeSorted t = true) : c.apply t = t := by
  cases c
  · exact cloneT_id t
  · exact toOwned_fromOwned t h
  · simp only [Conv.apply, cloneB_id]; exact toOwned_fromOwned t h
  · rfl

theorem applyConvs_id (cs : List Conv) (t : Term) (h : btreeSorted t = true) : applyConvs cs t = t := by
  induction cs with
  | nil => rfl
  | cons c cs ih => simp only [applyConvs, conv_apply_id c t h, ih]

/-! ### the tree a zero-copy result is: any ownership flags -/

mutual
theorem erase_tagWith (t : Term) (fl : List Bool) : erase (tagWith t fl).1 = t := by
  match t with
  | .atom _ | .int _ | .float _ | .bin _ | .bits _ _ | .str _ | .big _ _ | .xfun _ _ _ | .nil
  | .pid _ | .port _ _ _ _ | .ref _ _ _ _ | .ifun _ _ _ _ _ _ _ _ _ => simp [tagWith, erase]
  | .list l => simp [tagWith, erase, eraseL_tagWithL l fl]
  | .ilist l t => simp [tagWith, erase, eraseL_tagWithL l fl, erase_tagWith t _]
  | .map kvs => simp [tagWith, erase, eraseKV_tagWithKV kvs fl]
  | .tuple l => simp [tagWith, erase, eraseL_tagWithL l fl]
termination_by sizeOf t
decreasing_by all_goals (simp_wf; try omega)
theorem eraseL_tagWithL (l : List Term) (fl : List Bool) : eraseL (tagWithL l fl).1 = l := by
  match l with
  | [] => simp [tagWithL, eraseL]
  | t :: ts => simp [tagWithL, eraseL, erase_tagWith t fl, eraseL_tagWithL ts _]
termination_by sizeOf l
decreasing_by all_goals (simp_wf; try omega)
theorem eraseKV_tagWithKV (l : List (Term × Term)) (fl : List Bool) : eraseKV (tagWithKV l fl).1 = l := by
  match l with
  | [] => simp [tagWithKV, eraseKV]
  | (k, v) :: r => simp [tagWithKV, eraseKV, erase_tagWith k fl, erase_tagWith v _, eraseKV_tagWithKV r _]
termination_by sizeOf l
decreasing_by all_goals (simp_wf; try omega)
end

theorem toOwned_tagWith (t : Term) (fl : List Bool) (h : btreeSorted t = true) : toOwned (tagWith t fl).1 = t := by
  have e := erase_tagWith t fl
  rw [toOwned_erase _ (by rw [e]; exact h), e]

/-! ### `is_borrowed`: some `Cow` of the tree is borrowed -/

mutual
theorem isBorrowed_flags (b : BTerm) : isBorrowed b = (flagsOf b).any id := by
  match b with
  | .atom _ _ | .bin _ _ | .bits _ _ _ | .str _ _ => simp [isBorrowed, flagsOf]
  | .int _ | .float _ | .big _ _ | .xfun _ _ _ | .nil | .pid _ | .port _ _ _ _ | .ref _ _ _ _
  | .ifun _ _ _ _ _ _ _ _ _ => simp [isBorrowed, flagsOf]
  | .list l => simp [isBorrowed, flagsOf, isBorrowedL_flags l]
  | .ilist l t => simp [isBorrowed, flagsOf, isBorrowedL_flags l, isBorrowed_flags t, List.any_append]
  | .map kvs => simp [isBorrowed, flagsOf, isBorrowedKV_flags kvs]
  | .tuple l => simp [isBorrowed, flagsOf, isBorrowedL_flags l]
termination_by sizeOf b
decreasing_by all_goals (simp_wf; try omega)
theorem isBorrowedL_flags (l : List BTerm) : isBorrowedL l = (flagsOfL l).any id := by
  match l with
  | [] => simp [isBorrowedL, flagsOfL]
  | t :: ts => simp [isBorrowedL, flagsOfL, isBorrowed_flags t, isBorrowedL_flags ts, List.any_append]
termination_by sizeOf l
decreasing_by all_goals (simp_wf; try omega)
theorem isBorrowedKV_flags (l : List (BTerm × BTerm)) : isBorrowedKV l = (flagsOfKV l).any id := by
  match l with
  | [] => simp [isBorrowedKV, flagsOfKV]
  | (k, v) :: r => simp [isBorrowedKV, flagsOfKV, isBorrowed_flags k, isBorrowed_flags v, isBorrowedKV_flags r, List.any_append, Bool.or_assoc]
termination_by sizeOf l
decreasing_by all_goals (simp_wf; try omega)
end

end Edp
