import EdpVerif.Lemmas.ElixirTerms
import EdpVerif.Lemmas.Reencode
import EdpVerif.Lemmas.NumKey
/-!
C20: `wireNorm` (Impl/Elixir.lean) is the `wire` of C01's round-trip theorem (Lemmas/RoundTrip.lean) on every
well-formed term, so that the wire round trips of the wrappers are statements about `decode (encode t)` of the codec
model; and struct maps built from well-formed values are well-formed and one level deeper than their values.
-/
namespace Edp.Ex
open Edp Edp.Term

/-! ### digits: the encoder's trimmed 8-byte form is the minimal digit sequence -/

theorem minDigits_unique : ∀ (a b : Bytes), minDigits a → minDigits b → magVal a = magVal b → a = b
  | [], [], _, _, _ => rfl
  | [], y :: s, _, hb, h => by
    have := magVal_ge (y :: s) hb (by simp)
    have hp : 0 < 256 ^ ((y :: s).length - 1) := Nat.pow_pos (by decide)
    simp only [magVal] at h this
    omega
  | x :: r, [], ha, _, h => by
    have := magVal_ge (x :: r) ha (by simp)
    have hp : 0 < 256 ^ ((x :: r).length - 1) := Nat.pow_pos (by decide)
    simp only [magVal] at h this
    omega
  | x :: r, y :: s, ha, hb, h => by
    simp only [magVal] at h
    have hx := x.toNat_lt
    have hy := y.toNat_lt
    have e1 : x.toNat = y.toNat := by omega
    have e2 : magVal r = magVal s := by omega
    have hr : minDigits r := by
      cases r with
      | nil => rfl
      | cons c r' => exact minDigits_tail ha (by simp)
    have hs : minDigits s := by
      cases s with
      | nil => rfl
      | cons c s' => exact minDigits_tail hb (by simp)
    rw [minDigits_unique r s hr hs e2, UInt8.toNat_inj.mp e1]

theorem minDigits_take_sigLenR (e : Bytes) (h : magVal e.reverse ≠ 0) : minDigits (e.reverse.take (sigLenR e)) := by
  induction e with
  | nil => simp [magVal] at h
  | cons b e ih =>
    by_cases hb : b = 0
    · subst hb
      have hs : sigLenR (0 :: e) = sigLenR e := by simp [sigLenR, List.dropWhile]
      rw [hs]
      simp only [List.reverse_cons] at h ⊢
      rw [magVal_append] at h
      simp only [magVal, UInt8.toNat_zero, Nat.mul_zero, Nat.add_zero] at h
      cases e with
      | nil => simp [magVal] at h
      | cons c e' =>
        have hle := sigLenR_le (c :: e') (by simp)
        rw [List.take_append_of_le_length (by simpa using hle)]
        exact ih h
    · have hs : sigLenR (b :: e) = e.length + 1 := by
        have : (b == 0) = false := by simpa using hb
        simp [sigLenR, List.dropWhile, this]
      rw [hs]
      have : (b :: e).reverse.length = e.length + 1 := by simp
      rw [← this, List.take_length]
      simp [minDigits, hb]

theorem minDigits_take_sigLen (d : Bytes) (h : magVal d ≠ 0) : minDigits (d.take (sigLen d)) := by
  have := minDigits_take_sigLenR d.reverse (by simpa using h)
  simpa [sigLen_eq] using this

/-- the digits the encoder writes for a wide `i64` are the minimal little-endian digits of its magnitude -/
theorem wireDigits_eq (n : Nat) (h0 : n ≠ 0) (h : n < 256 ^ 8) :
    (leN 8 n).take (sigLen (leN 8 n)) = natDigits n := by
  have hv : magVal (leN 8 n) = n := by rw [Edp.magVal_leN, Nat.mod_eq_of_lt h]
  apply minDigits_unique
  · exact minDigits_take_sigLen _ (by rw [hv]; exact h0)
  · exact minDigits_natDigits n
  · rw [magVal_take_sigLen, hv, Edp.magVal_natDigits]

theorem wireInt_eq_wire (i : Int) (h : -9223372036854775808 ≤ i ∧ i ≤ 9223372036854775807) :
    wireInt i = wire (.int i) := by
  unfold wireInt wire
  by_cases h2 : -2147483648 ≤ i ∧ i ≤ 2147483647
  · simp [h2]
  · simp only [h2, if_false]
    rw [wireDigits_eq i.natAbs (by omega) (by omega)]

theorem wireNormKV_eq_insertAll (m acc : List (Term × Term)) (f : Term → Term)
    (h : ∀ p ∈ m, wireNorm p.1 = f p.1 ∧ wireNorm p.2 = f p.2) :
    wireNormKV m acc = insertAll acc (m.map fun p => (f p.1, f p.2)) := by
  induction m generalizing acc with
  | nil => rfl
  | cons p r ih =>
    obtain ⟨k, v⟩ := p
    have := h (k, v) (by simp)
    simp only [wireNormKV, List.map_cons, insertAll, this.1, this.2]
    exact ih _ (fun q hq => h q (List.mem_cons_of_mem _ hq))

theorem wireKV_eq_map : ∀ (l : List (Term × Term)), wireKV l = l.map fun p => (wire p.1, wire p.2)
  | [] => rfl
  | (k, v) :: r => by simp [wireKV, wireKV_eq_map r]

mutual
/-- what the model of the wrappers calls the wire image of a term is what C01 proves `decode (encode t)` to be -/
theorem wireNorm_eq_wire (t : Term) (hw : wfT t = true) : wireNorm t = wire t := by
  match t with
  | .atom a => simp [wire, wireNorm]
  | .int i => simp only [wfT, decide_eq_true_eq] at hw; simp only [wireNorm]; exact wireInt_eq_wire i hw
  | .float b => simp [wire, wireNorm]
  | .bin b => simp [wire, wireNorm]
  | .str b => simp [wire, wireNorm]
  | .bits b n => simp [wire, wireNorm]
  | .big neg dg => simp [wire, wireNorm]
  | .nil => simp [wire, wireNorm]
  | .pid p => simp [wire, wireNorm]
  | .port n i c l => simp [wire, wireNorm]
  | .ref n c ids l => simp [wire, wireNorm]
  | .xfun m fn a => simp [wire, wireNorm]
  | .tuple l =>
    simp only [wfT, Bool.and_eq_true] at hw
    simp [wire, wireNorm, wireNormL_eq_wireL l hw.2]
  | .list l =>
    simp only [wfT, Bool.and_eq_true] at hw
    have ih := wireNormL_eq_wireL l hw.2
    cases l with
    | nil => simp [wire, wireNorm]
    | cons a l' => simp [wire, wireNorm, ih]
  | .ilist l tl =>
    simp only [wfT, Bool.and_eq_true] at hw
    have ih := wireNormL_eq_wireL l hw.1.2
    have iht := wireNorm_eq_wire tl hw.2
    simp only [wire, wireNorm, ih, iht]
    cases wire tl <;> rfl
  | .map kvs =>
    simp only [wfT, Bool.and_eq_true] at hw
    simp only [wire, wireNorm, wireKV_eq_map]
    rw [wireNormKV_eq_insertAll kvs [] wire (wireNormKV_pointwise kvs hw.2)]
  | .ifun a u i nf m oi ou p fr =>
    simp only [wfT, Bool.and_eq_true] at hw
    simp [wire, wireNorm, wireNormL_eq_wireL fr hw.2]
termination_by sizeOf t
decreasing_by all_goals (simp_wf; try omega)
theorem wireNormL_eq_wireL (l : List Term) (hw : wfL l = true) : wireNormL l = wireL l := by
  match l with
  | [] => simp [wireL, wireNormL]
  | t :: ts =>
    simp only [wfL, Bool.and_eq_true] at hw
    simp [wireL, wireNormL, wireNorm_eq_wire t hw.1, wireNormL_eq_wireL ts hw.2]
termination_by sizeOf l
decreasing_by all_goals (simp_wf; try omega)
theorem wireNormKV_pointwise (kvs : List (Term × Term)) (hw : wfKV kvs = true) :
    ∀ p ∈ kvs, wireNorm p.1 = wire p.1 ∧ wireNorm p.2 = wire p.2 := by
  match kvs with
  | [] => intro p hp; cases hp
  | (k, v) :: ts =>
    simp only [wfKV, Bool.and_eq_true] at hw
    intro p hp
    rcases List.mem_cons.mp hp with rfl | hp
    · exact ⟨wireNorm_eq_wire k hw.1.1, wireNorm_eq_wire v hw.1.2⟩
    · exact wireNormKV_pointwise ts hw.2 p hp
termination_by sizeOf kvs
decreasing_by all_goals (simp_wf; try omega)
end

/-! ### struct maps: well-formed and one level deeper than their values -/

/-- every entry satisfies `P` on its key and `Q` on its value -/
theorem mapInsert_all (P Q : Term → Prop) (m : List (Term × Term)) (k v : Term) (hk : P k) (hv : Q v)
    (hm : ∀ p ∈ m, P p.1 ∧ Q p.2) : ∀ p ∈ mapInsert m k v, P p.1 ∧ Q p.2 := by
  induction m with
  | nil => intro p hp; simp [mapInsert] at hp; subst hp; exact ⟨hk, hv⟩
  | cons p0 r ih =>
    obtain ⟨k', v'⟩ := p0
    have h0 := hm (k', v') (by simp)
    have hr : ∀ p ∈ r, P p.1 ∧ Q p.2 := fun p hp => hm p (List.mem_cons_of_mem _ hp)
    intro q hq
    simp only [mapInsert] at hq
    cases h : Term.cmp k k' <;> simp only [h] at hq
    · rcases List.mem_cons.mp hq with rfl | hq
      · exact ⟨hk, hv⟩
      · exact hm q hq
    · rcases List.mem_cons.mp hq with rfl | hq
      · exact ⟨h0.1, hv⟩
      · exact hr q hq
    · rcases List.mem_cons.mp hq with rfl | hq
      · exact h0
      · exact ih hr q hq

theorem mapInsert_length_le (m : List (Term × Term)) (k v : Term) : (mapInsert m k v).length ≤ m.length + 1 := by
  induction m with
  | nil => simp [mapInsert]
  | cons p0 r ih =>
    obtain ⟨k', v'⟩ := p0
    simp only [mapInsert]
    cases Term.cmp k k' <;> simp <;> omega

theorem foldl_mapInsert_all {α : Type} (P Q : Term → Prop) (kf vf : α → Term) (l : List α) (acc : List (Term × Term))
    (hl : ∀ e ∈ l, P (kf e) ∧ Q (vf e)) (hacc : ∀ p ∈ acc, P p.1 ∧ Q p.2) :
    (∀ p ∈ l.foldl (fun m e => mapInsert m (kf e) (vf e)) acc, P p.1 ∧ Q p.2) ∧
      (l.foldl (fun m e => mapInsert m (kf e) (vf e)) acc).length ≤ acc.length + l.length := by
  induction l generalizing acc with
  | nil => exact ⟨hacc, by simp⟩
  | cons a r ih =>
    simp only [List.foldl_cons]
    have h1 := hl a (by simp)
    have := ih (mapInsert acc (kf a) (vf a)) (fun e he => hl e (List.mem_cons_of_mem _ he))
      (mapInsert_all P Q acc _ _ h1.1 h1.2 hacc)
    refine ⟨this.1, ?_⟩
    have hlen := mapInsert_length_le acc (kf a) (vf a)
    simp only [List.length_cons]
    omega

theorem wfKV_of_all : ∀ (m : List (Term × Term)), (∀ p ∈ m, wfT p.1 = true ∧ wfT p.2 = true) → wfKV m = true
  | [], _ => rfl
  | (k, v) :: r, h => by
    have h0 := h (k, v) (by simp)
    simp only [wfKV, Bool.and_eq_true]
    exact ⟨⟨h0.1, h0.2⟩, wfKV_of_all r (fun p hp => h p (List.mem_cons_of_mem _ hp))⟩

theorem depKV_le_of_all (n : Nat) : ∀ (m : List (Term × Term)), (∀ p ∈ m, dep p.1 ≤ n ∧ dep p.2 ≤ n) → depKV m ≤ n
  | [], _ => by simp [depKV]
  | (k, v) :: r, h => by
    have h0 := h (k, v) (by simp)
    have := depKV_le_of_all n r (fun p hp => h p (List.mem_cons_of_mem _ hp))
    simp only [depKV] at h0 ⊢
    omega

/-- a struct map built from atom keys (valid UTF-8 names) and well-formed values is well-formed -/
theorem wfT_mkMap (l : List (Bytes × Term)) (hl : ∀ kv ∈ l, validUtf8 kv.1 = true ∧ wfT kv.2 = true)
    (hn : l.length ≤ MAX_MAP_SIZE) : wfT (.map (mkMap l)) = true := by
  have := foldl_mapInsert_all (fun k => wfT k = true) (fun v => wfT v = true) (fun kv : Bytes × Term => Term.atom kv.1)
    (fun kv => kv.2) l [] (fun e he => by simpa [wfT] using hl e he) (by simp)
  simp only [wfT, Bool.and_eq_true, decide_eq_true_eq]
  refine ⟨?_, wfKV_of_all _ this.1⟩
  have h2 := this.2
  simp only [List.length_nil, Nat.zero_add] at h2
  exact Nat.le_trans h2 hn

/-- its nesting depth is one more than that of its deepest value -/
theorem dep_mkMap (l : List (Bytes × Term)) (n : Nat) (hl : ∀ kv ∈ l, dep kv.2 ≤ n) : dep (.map (mkMap l)) ≤ n + 1 := by
  have := foldl_mapInsert_all (fun k => dep k ≤ n) (fun v => dep v ≤ n) (fun kv : Bytes × Term => Term.atom kv.1)
    (fun kv => kv.2) l [] (fun e he => ⟨by simp [dep], hl e he⟩) (by simp)
  have h := depKV_le_of_all n _ this.1
  simp only [dep]
  unfold mkMap
  omega

end Edp.Ex
