import EdpVerif.Generated.Control
import EdpVerif.Spec.Control
import EdpVerif.Lemmas.Control
import EdpVerif.Lemmas.ControlReject
import EdpVerif.Impl.ControlCtor
import EdpVerif.Spec.ControlCtor
import EdpVerif.Impl.Encode
import EdpVerif.Impl.Decode
/-
C08 — control messages parse and serialise losslessly with the protocol's numbering.

`Control.parse / toTerm / intoTerm` interpret a `Table` (the three matches of control.rs as data);
`Gen.controlTable` is that data re-extracted from /repo on every run; `Spec.controlTable` is the protocol's.
Property theorems only; helper lemmas are in EdpVerif/Lemmas/Control.lean.
-/
namespace Edp.Props.C08
open Edp Edp.Control

/-! ## what the property asks of a table -/

/-- every control tuple the protocol allows (`Spec.shape`: headed by `Integer 0..255`; an unlink id stands for an
integer `0 ≤ id < 2^64` — the one exception the property itself makes) parses, and both serialisers give back a
tuple denoting the same value -/
def Lossless (tbl : Table) : Prop :=
  ∀ t, Spec.shape t = .control →
    ∃ m u, parse tbl t = .ok m ∧ toTerm tbl m = some u ∧ intoTerm tbl m = some u ∧ u.den = t.den

/-- every structured message (any `u64` id) serialises, and what comes back from the wire `w` parses to the same
variant with the same value in every field -/
def Survives (tbl : Table) (w : Term → Term) : Prop :=
  ∀ v fs, wellTyped tbl (.known v fs) = true →
    ∃ t m', toTerm tbl (.known v fs) = some t ∧ intoTerm tbl (.known v fs) = some t ∧
      parse tbl (w t) = .ok m' ∧ Msg.Same m' (Msg.mapTerms w (.known v fs))

/-- every operation the library implements uses the protocol's tag, arity and element order -/
def Numbered (tbl : Table) : Prop := ∀ a ∈ tbl.fromArms, Spec.agrees tbl a = true

/-- `decode ∘ encode` of the codec model (identity where either fails) -/
def wire (t : Term) : Term :=
  match encode t with
  | .ok b =>
    match decode Ext.none b with
    | .ok t' => t'
    | .error _ => t
  | .error _ => t

/-! ## the regenerated table is consistent (re-checked against the source on every run) -/

theorem C08_table_ok : TableOK Gen.controlTable := by decide

/-- the element the library reads as an unlink id is the protocol's `Id` element of that operation -/
theorem C08_ids_at_protocol_position :
    ∀ a ∈ Gen.controlTable.fromArms, Spec.idsAtSpec Gen.controlTable a = true := by decide

/-! ## round trip -/

/-- For EVERY consistent table: a tuple headed by `Integer 0..255` parses — whether or not the tag is one the table
knows — and `to_term` and `into_term` of the result give the same tuple, which denotes the same value as the input.
`idGuard` is the property's own exception: an element read as an unlink id stands for an integer `0 ≤ id < 2^64`
(as `Integer` or `BigInt`, minimal digits or not). -/
theorem C08_roundtrip (tbl : Table) (h : TableOK tbl) (t : Term) (ht : tagged t = true)
    (hg : idGuard tbl t = true) :
    ∃ m u, parse tbl t = .ok m ∧ toTerm tbl m = some u ∧ intoTerm tbl m = some u ∧ u.den = t.den := by
  unfold tagged at ht
  split at ht
  · rename_i i rest
    simp at ht
    exact roundtrip h i rest ht.1 ht.2 hg
  · simp at ht

example : tagged (.tuple [.int 35, .big false [255, 255, 255, 255, 255, 255, 255, 255, 0, 0], .nil, .nil]) = true ∧
    idGuard Gen.controlTable (.tuple [.int 35, .big false [255, 255, 255, 255, 255, 255, 255, 255, 0, 0], .nil, .nil]) = true := by
  decide

/-- the only tuples headed by `Integer 0..255` that a consistent table rejects are those the property excludes -/
theorem C08_rejected_only_for_bad_id (tbl : Table) (h : TableOK tbl) (t : Term) (ht : tagged t = true)
    (e : PErr) (he : parse tbl t = .error e) : idGuard tbl t = false := by
  cases hg : idGuard tbl t with
  | false => rfl
  | true =>
    obtain ⟨m, u, hm, _⟩ := C08_roundtrip tbl h t ht hg
    rw [hm] at he
    cases he

example : tagged (.tuple [.int 35, .int (-1), .nil, .nil]) = true ∧
    parse Gen.controlTable (.tuple [.int 35, .int (-1), .nil, .nil]) = .error .err ∧
    parse Gen.controlTable (.tuple [.int 36, .big false [0, 0, 0, 0, 0, 0, 0, 0, 1], .nil, .nil]) = .error .err :=
  ⟨by decide, rfl, rfl⟩

/-- **The exception is an exception in both directions**: a tuple headed by `Integer 0..255` whose id element (where
the operation selected by tag and arity has one) does NOT stand for an integer `0 ≤ id < 2^64` — negative, 65 bits
or more, or not an integer at all — is rejected with an error: never accepted with an altered id, never a panic.
(`IntsAreI64`: the elements are Rust values, `OwnedTerm::Integer` carries an `i64`.) Together with `C08_roundtrip`:
for every consistent table a tagged tuple parses IF AND ONLY IF the guard holds. -/
theorem C08_bad_id_rejected (tbl : Table) (h : TableOK tbl) (raw : Int) (rest : List Term) (h0 : 0 ≤ raw)
    (h255 : raw ≤ 255) (hw : IntsAreI64 rest) (hg : idGuard tbl (.tuple (.int raw :: rest)) = false) :
    parse tbl (.tuple (.int raw :: rest)) = .error .err :=
  bad_id_rejected h raw rest h0 h255 hw hg

example : idGuard Gen.controlTable (.tuple [.int 35, .int (-1), .nil, .nil]) = false ∧
    idGuard Gen.controlTable (.tuple [.int 36, .big false [0, 0, 0, 0, 0, 0, 0, 0, 1], .nil, .nil]) = false ∧
    idGuard Gen.controlTable (.tuple [.int 35, .atom [97], .nil, .nil]) = false ∧
    IntsAreI64 [.int (-1), .nil, .nil] := by
  refine ⟨by decide, by decide, by decide, ?_⟩
  intro e he i hi
  simp at he
  rcases he with rfl | rfl | rfl <;> cases hi <;> decide

/-- for the library's table, in the protocol's terms: a tuple of shape `badId` is rejected -/
theorem C08_parses_iff_allowed (raw : Int) (rest : List Term) (h0 : 0 ≤ raw) (h255 : raw ≤ 255)
    (hw : IntsAreI64 rest) :
    (∃ m, parse Gen.controlTable (.tuple (.int raw :: rest)) = .ok m) ↔
      idGuard Gen.controlTable (.tuple (.int raw :: rest)) = true := by
  constructor
  · intro ⟨m, hm⟩
    cases hg : idGuard Gen.controlTable (.tuple (.int raw :: rest)) with
    | true => rfl
    | false =>
      rw [C08_bad_id_rejected _ C08_table_ok raw rest h0 h255 hw hg] at hm
      cases hm
  · intro hg
    obtain ⟨m, _, hm, _⟩ := C08_roundtrip _ C08_table_ok (.tuple (.int raw :: rest)) (by simp [tagged, h0, h255]) hg
    exact ⟨m, hm⟩

/-- FULL statement for the library's table: every control tuple the protocol allows parses and re-serialises (both
serialisers) to a tuple of the same value -/
theorem C08_lossless : Lossless Gen.controlTable := by
  intro t hs
  obtain ⟨ht, hg⟩ := idGuard_of_shape C08_table_ok C08_ids_at_protocol_position t hs
  exact C08_roundtrip _ C08_table_ok t ht hg

example : Spec.shape (.tuple [.int 36, .big false [0, 0, 0, 0, 0, 0, 0, 128], .atom [97], .nil]) = .control ∧
    Spec.shape (.tuple [.int 34, .nil, .nil, .nil]) = .control ∧
    Spec.shape (.tuple [.int 200, .nil]) = .control := by decide

/-- anything else — a non-tuple, the empty tuple, a head that is not `Integer 0..255` — is rejected with an error
(never a panic), for every table -/
theorem C08_rejects (tbl : Table) (t : Term) (h : tagged t = false) : parse tbl t = .error .err :=
  rejects tbl t h

example : tagged (.tuple [.int 256, .nil]) = false ∧ tagged (.tuple []) = false ∧ tagged (.atom [97]) = false ∧
    tagged (.tuple [.big false [1], .nil]) = false := by decide

/-- with a consistent table no arm indexes outside the tuple: `from_term` never panics, on any term -/
theorem C08_never_panics (tbl : Table) (h : TableOK tbl) (t : Term) : parse tbl t ≠ .error .panic :=
  no_panic h t

example : TableOK Gen.controlTable := C08_table_ok

/-- the borrowing and the consuming serialiser agree on every message -/
theorem C08_into_eq_to (tbl : Table) (h : TableOK tbl) (m : Msg) : intoTerm tbl m = toTerm tbl m :=
  into_eq_to h m

/-! ## structured messages survive the wire -/

/-- For EVERY consistent table and every wire `w` that maps tuples element-wise, returns `Integer 0..255` unchanged
and returns an integer as an integer of the same value (`Transparent`; for `decode ∘ encode` that is C01's round
trip): every structured message, with any `u64` id, serialises (both serialisers), and parsing what comes back yields
the same variant with the wire image of every field and the same id — no field dropped, reordered or altered. -/
theorem C08_structured_survives (tbl : Table) (h : TableOK tbl) (w : Term → Term) (hw : Transparent w) :
    Survives tbl w :=
  fun v fs hm => serialise_wire_parse h w hw v fs hm

example : Transparent id := ⟨fun l => by simp, fun _ _ _ => rfl, fun _ _ h => h⟩

/-- in memory (`w = id`) for the library's table: `from_term (to_term m)` is `m`, for every structured message -/
theorem C08_survives_in_memory : Survives Gen.controlTable id :=
  C08_structured_survives _ C08_table_ok id ⟨fun l => by simp, fun _ _ _ => rfl, fun _ _ h => h⟩

example : wellTyped Gen.controlTable (.known "UnlinkId"
    [("id", .uid 18446744073709551615), ("from_pid", .term .nil), ("to_pid", .term .nil)]) = true := by decide

-- (the former failing inputs 2^31, 2^63, 2^64-1 are exercised through the real codec and the codec model by the
-- harness on every run: `c08wire` lines)

/-! ## numbering -/

/-- FULL statement: every operation the library implements has the protocol's tag number, arity and element order,
and reads exactly the `Id` element as an integer (SPAWN_REQUEST(_TT): the layout with ArgList inside the tuple is
accepted, see Spec/Control.lean) -/
theorem C08_numbered : Numbered Gen.controlTable := by
  unfold Numbered
  decide

example : ∃ a ∈ Gen.controlTable.fromArms, a.variant = "AliasSendTt" ∧ enumDisc Gen.controlTable a.ty = some 34 := by
  decide

/-- every operation of the protocol's table is implemented by some variant of the library -/
theorem C08_covers_protocol :
    ∀ op ∈ Spec.controlTable, ∃ a ∈ Gen.controlTable.fromArms, lookup Spec.opOfVariant a.variant = some op.name := by
  decide

/-- tag numbers are pairwise distinct, in the library and in the protocol table -/
theorem C08_tags_distinct :
    (Gen.controlTable.enumTags.map (·.2)).Nodup ∧ (Spec.controlTable.map (·.tag)).Nodup := by decide

/-! ## field kinds and constructors -/

/-- the kinds of the declared fields follow the protocol: a field is a `u64` exactly when it plays the protocol's `Id`
role; every other field (pids, atoms, references, reasons, flags, trace tokens, cookies) is an `OwnedTerm` that the
parser takes as it comes — which is what "every tuple headed by a tag parses" demands: the parser may not refuse a
tuple because an element is not of the Erlang type the operation usually carries there. -/
theorem C08_field_kinds_follow_protocol :
    ∀ v ∈ Gen.controlTable.variants, ∀ p ∈ v.2,
      (p.2 = true ↔ lookup Spec.roleOfField p.1 = some Spec.idRole) ∧ (lookup Spec.roleOfField p.1).isSome := by
  decide

/-- **The constructor functions build the protocol's tuples.** For every `pub fn .. -> Self` of `impl ControlMessage`
(the list is regenerated from control.rs on every run) and ALL argument terms: the call yields a well-typed message
of the variant, both serialisers turn it into the same tuple, and that tuple is what the protocol prescribes for the
operation — its tag, and at position k the argument passed for the parameter that plays the operation's k-th role. -/
theorem C08_constructors_build_protocol_tuples :
    ∀ c ∈ ctors, ∀ args : List Term, args.length = c.params.length →
      ∃ m t, construct c args = some m ∧ wellTyped Gen.controlTable m = true ∧
        toTerm Gen.controlTable m = some t ∧ intoTerm Gen.controlTable m = some t ∧
        Spec.ctorTuple c.variant c.params args = some t := by
  intro c hc
  simp only [ctors, Gen.CONTROL_CONSTRUCTORS, List.map_cons, List.map_nil, List.mem_cons, List.not_mem_nil,
    or_false] at hc
  repeat' (rcases hc with rfl | hc)
  all_goals subst_vars
  all_goals
    intro args hl
    rcases args with _ | ⟨a, _ | ⟨b, _ | ⟨c, _ | ⟨d, _ | ⟨e, r⟩⟩⟩⟩⟩ <;> simp at hl
    exact ⟨_, _, rfl, rfl, rfl, rfl, rfl⟩

example : ctors.length = 14 ∧ (ctors.map (·.name)).Nodup := by decide
example (a b c : Term) : ∃ c₀ ∈ ctors, c₀.name = "reg_send" ∧
    (construct c₀ [a, b, c]).bind (toTerm Gen.controlTable) = some (.tuple [.int 6, a, b, c]) :=
  ⟨⟨"reg_send", ["from_pid", "cookie", "to_name"], "RegSend",
    [("from_pid", "from_pid"), ("cookie", "cookie"), ("to_name", "to_name")]⟩, by decide, rfl, rfl⟩

end Edp.Props.C08
