#!/usr/bin/env python3
"""Merge a builder's copy back: tools/merge_builder.py <name> <base-commit> [--apply]
Lists files that differ between /tmp/bld/<name>/verif and <base-commit>; with --apply copies them into /verif
(3-way `git merge-file` when /verif's file changed since the base too). Skips evidence/, runs/, caches, Generated/."""
import os, subprocess, sys, filecmp, tempfile, shutil
name, base = sys.argv[1], sys.argv[2]
apply = "--apply" in sys.argv
src = f"/tmp/bld/{name}/verif"
ROOT = os.path.dirname(os.path.dirname(os.path.abspath(__file__)))
SKIP = ("evidence/", "runs/", ".cache/", "lean/.lake/", "lean/EdpVerif/Generated/", "harness/target/", "__pycache__", "harness/Cargo.lock",
        "harness/Cargo.toml", "harness/.cargo/config.toml", "tools/__pycache__", "notes/seed-regression.txt", "seeded/", "tools/run_seeds.py",
        "tools/try_patch.sh", "tools/confirm_seed.py", "tools/mkcopy.sh", "tools/merge_builder.py")
def git_show(path):
    p = subprocess.run(["git", "-C", ROOT, "show", f"{base}:{path}"], capture_output=True)
    return p.stdout if p.returncode == 0 else None
changed = []
for d, dirs, files in os.walk(src):
    rel_d = os.path.relpath(d, src)
    for f in files:
        rel = os.path.normpath(os.path.join(rel_d, f))
        if any(rel.startswith(s) or s in rel for s in SKIP):
            continue
        b = git_show(rel)
        cur = open(os.path.join(d, f), "rb").read()
        if b is None or b != cur:
            changed.append((rel, b is None))
for rel, new in sorted(changed):
    dst = os.path.join(ROOT, rel)
    mine = open(dst, "rb").read() if os.path.exists(dst) else None
    b = git_show(rel)
    status = "new" if new else "changed"
    if mine is not None and mine != b and not new:
        status += " (ALSO changed in /verif: 3-way)"
    if new and mine is not None and mine != open(os.path.join(src, rel), "rb").read():
        status += " (exists in /verif with other content!)"
    print(f"{status:45s} {rel}")
    if apply:
        os.makedirs(os.path.dirname(dst), exist_ok=True)
        if mine is not None and b is not None and mine != b:
            with tempfile.NamedTemporaryFile(delete=False) as tb:
                tb.write(b)
            r = subprocess.run(["git", "merge-file", dst, tb.name, os.path.join(src, rel)])
            os.unlink(tb.name)
            if r.returncode:
                print("   CONFLICTS:", r.returncode, rel)
        else:
            shutil.copy(os.path.join(src, rel), dst)
