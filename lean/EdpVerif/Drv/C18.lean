import EdpVerif.Drv.Common
import EdpVerif.Impl.Procs
import EdpVerif.Spec.Procs
import EdpVerif.Generated.MiscMailbox
/-! Driver requests of property C18 (local processes).

* `c18run cap tok…`  — replay of an executed history through the small-step model (trace inclusion): the tokens are the
  atomic blocks of a run of the real `Node` on a current-thread runtime, in the order they happened
    `c<t>:<op>`   client task t ran the call `op` from start to end
                  (`sp.<trap>` `rg.n.p` `ur.n` `wh.n` `rd` `ct` `sd.p.id.f` `sn.n.id.f` `lk.a.b` `ul.a.b` `mo.a.b` `dm.a.b.r`)
    `h<p>`        the task of process p received one message and ran the handler
    `x<p>.1|2|3`  the task of p arrived at `proc:before_exit_signals` | `proc:between_links_and_monitors` |
                  `proc:before_registry_remove` (the accesses to shared state since the previous point are replayed here)
    `d<p>`        the task of p ended (`registry.remove`, mailbox dropped)
  The result is one item per token: the call's result, the handled message, `.` for x/d; `!…` when the model cannot take
  the step. Runs of `MonitorExit` of one monitored pid that are adjacent in a receiver's handled sequence are sorted by
  reference (the real order is the iteration order of a `HashSet`).
* `c18reg ops…`      — `ProcessRegistry` driven directly, sequentially
* `c18gs body result live` — `GenServerProcess::handle_message` on `Regular{body}`
* `c18ge from body callreply ids live` — `GenEventManager::handle_message` on `Regular{from, body}`
* `c18spec tok=result…` — the Spec oracle on an observed history (`E<p>` / `M<p>.<r>`: notices with reason `noproc`)
-/
namespace Edp.Drv
namespace C18
open Edp.Impl.Procs

def nat (s : String) : Except String Nat :=
  match s.toNat? with
  | some n => .ok n
  | none => .error ("bad-nat " ++ s)

def parseOp (s : String) : Except String Op :=
  match s.splitOn "." with
  | ["sp", tr] => do pure (.spawn ((← nat tr) != 0))
  | ["rg", n, p] => do pure (.register (← nat n) (← nat p))
  | ["ur", n] => do pure (.unregister (← nat n))
  | ["wh", n] => do pure (.whereis (← nat n))
  | ["rd"] => pure .registered
  | ["ct"] => pure .count
  | ["sd", p, i, f] => do pure (.send (← nat p) (← nat i) ((← nat f) != 0))
  | ["sn", n, i, f] => do pure (.sendName (← nat n) (← nat i) ((← nat f) != 0))
  | ["lk", a, b] => do pure (.link (← nat a) (← nat b))
  | ["ul", a, b] => do pure (.unlink (← nat a) (← nat b))
  | ["mo", a, b] => do pure (.monitor (← nat a) (← nat b))
  | ["dm", a, b, r] => do pure (.demonitor (← nat a) (← nat b) (← nat r))
  | _ => .error ("bad-op " ++ s)

def sortNat (l : List Nat) : List Nat := (l.toArray.qsort (· < ·)).toList

def resText : Res → String
  | .ok => "ok"
  | .pid p => s!"pid={p}"
  | .ref r => s!"ref={r}"
  | .found none => "found=-"
  | .found (some p) => s!"found={p}"
  | .names l => "names=" ++ ".".intercalate ((sortNat l).map toString)
  | .count n => s!"count={n}"
  | .noProc => "noproc"
  | .closed => "closed"
  | .taken => "taken"
  | .noName => "noname"

def msgText : Msg → String
  | .regular i _ => s!"r{i}"
  | .exit f => s!"e{f}"
  | .monExit m r => s!"m{m}.{r}"
  | .exitNoproc f => s!"E{f}"
  | .monNoproc m r => s!"M{m}.{r}"

/-- an output item: a plain text, or a message handled by process `p` -/
inductive Item
  | txt (s : String)
  | handled (p : Nat) (m : Msg)

/-- step the task of `p` while `cond` holds of its pc (bounded) -/
def stepWhile (cond : PPc → Bool) : Nat → St → Nat → Option St
  | 0, st, _ => some st
  | fuel + 1, st, p =>
    if cond (st.procs p).pc then
      match procStep st p 0 with
      | some st' => stepWhile cond fuel st' p
      | none => none
    else some st

def isNotifyLNil : PPc → Bool
  | .notifyL [] => true
  | _ => false
def isNotifyMNil : PPc → Bool
  | .notifyM [] => true
  | _ => false

def replayTok (st : St) (tok : String) : Except String (St × Item) :=
  if tok.startsWith "c" then
    match (tok.drop 1).toString.splitOn ":" with
    | [t, op] => do
      let t ← nat t
      let op ← parseOp op
      let st' := run st (callEvs t op)
      if st'.out.length = st.out.length + 1 ∧ st'.cpc t = .idle then
        match st'.out.getLast? with
        | some (_, r) => pure (st', .txt (resText r))
        | none => pure (st', .txt "!noresult")
      else pure (st, .txt "!stuck")
    | _ => .error ("bad-token " ++ tok)
  else if tok.startsWith "h" then do
    let p ← nat (tok.drop 1).toString
    match (st.procs p).pc, (st.procs p).mailbox with
    | .recv, m :: _ =>
      match procStep st p 0 with
      | some st' => pure (st', .handled p m)
      | none => pure (st, .txt "!stuck")
    | .recv, [] => pure (st, .txt "!empty")
    | _, _ => pure (st, .txt "!pc")
  else if tok.startsWith "x" then
    match (tok.drop 1).toString.splitOn "." with
    | [p, k] => do
      let p ← nat p
      let k ← nat k
      if k = 1 then
        pure (st, .txt (if (st.procs p).pc = .exiting then "." else "!pc"))
      else if k = 2 then
        if (st.procs p).pc = .exiting then
          match stepWhile (fun pc => !isNotifyLNil pc) 4000 st p with
          | some st' => pure (st', .txt ".")
          | none => pure (st, .txt "!stuck")
        else pure (st, .txt "!pc")
      else
        if isNotifyLNil (st.procs p).pc then
          match procStep st p 0 with
          | some st1 =>
            match stepWhile (fun pc => !isNotifyMNil pc) 4000 st1 p with
            | some st' => pure (st', .txt ".")
            | none => pure (st, .txt "!stuck")
          | none => pure (st, .txt "!stuck")
        else pure (st, .txt "!pc")
    | _ => .error ("bad-token " ++ tok)
  else if tok.startsWith "d" then do
    let p ← nat (tok.drop 1).toString
    if isNotifyMNil (st.procs p).pc then
      match stepWhile (fun pc => pc != .dead) 3 st p with
      | some st' => pure (st', .txt (if (st'.procs p).pc = .dead then "." else "!pc"))
      | none => pure (st, .txt "!stuck")
    else pure (st, .txt "!pc")
  else .error ("bad-token " ++ tok)

/-- sort runs of adjacent `monExit` of one monitored pid by reference -/
def canonRuns : List Msg → List Msg
  | [] => []
  | .monExit q r :: rest =>
    let run := rest.takeWhile (fun m => match m with | .monExit q' _ => q' = q | _ => false)
    let refs := sortNat (r :: run.filterMap (fun m => match m with | .monExit _ r' => some r' | _ => none))
    refs.map (.monExit q ·) ++ canonRuns (rest.drop run.length)
  | m :: rest => m :: canonRuns rest
termination_by l => l.length
decreasing_by all_goals (simp_wf; try omega)

def lookupQ (qs : List (Nat × List Msg)) (p : Nat) : List Msg := ((qs.find? (·.1 = p)).map (·.2)).getD []
def setQ (qs : List (Nat × List Msg)) (p : Nat) (l : List Msg) : List (Nat × List Msg) :=
  (p, l) :: qs.filter (·.1 ≠ p)

/-- render the items; handled messages are taken from the canonicalised per-process sequences -/
def render (items : List Item) : String :=
  let ps := (items.filterMap fun | .handled p _ => some p | _ => none).eraseDups
  let qs := ps.map fun p => (p, canonRuns (items.filterMap fun | .handled p' m => if p' = p then some m else none | _ => none))
  let rec go (items : List Item) (qs : List (Nat × List Msg)) (acc : List String) : List String :=
    match items with
    | [] => acc.reverse
    | .txt s :: r => go r qs (s :: acc)
    | .handled p _ :: r =>
      match lookupQ qs p with
      | m :: ms => go r (setQ qs p ms) (msgText m :: acc)
      | [] => go r qs ("!lost" :: acc)
  ";".intercalate (go items qs [])

def replay (cap : Nat) (toks : List String) : Except String String := do
  let mut st := St.init cap
  let mut items : List Item := []
  for tok in toks do
    let (st', it) ← replayTok st tok
    st := st'
    items := it :: items
  pure (render items.reverse)

/-! ### `ProcessRegistry`, sequentially -/

def regOp (r : Reg) (s : String) : Except String (Reg × String) :=
  match s.splitOn "." with
  | ["in", p] => do let p ← nat p; pure (r.insert p, "ok")
  | ["rm", p] => do let p ← nat p; pure (r.remove p, if p ∈ r.byPid then "some" else "none")
  | ["gt", p] => do let p ← nat p; pure (r, if p ∈ r.byPid then "some" else "none")
  | ["rg", n, p] => do
    let n ← nat n; let p ← nat p
    let x := r.register n p
    pure (x.1, resText x.2)
  | ["ur", n] => do let n ← nat n; let x := r.unregister n; pure (x.1, resText x.2)
  | ["wh", n] => do let n ← nat n; pure (r, resText (.found (r.whereis n)))
  | ["rd"] => pure (r, resText (.names r.registered))
  | ["ct"] => pure (r, resText (.count r.count))
  | _ => .error ("bad-regop " ++ s)

def regRun (ops : List String) : Except String String := do
  let mut r : Reg := {}
  let mut outs : List String := []
  for o in ops do
    let (r', s) ← regOp r o
    r := r'
    outs := s :: outs
  pure (";".intercalate outs.reverse)

/-! ### behaviours -/

def runE (r : Except String String) : String :=
  match r with
  | .ok s => s
  | .error e => "bad-op " ++ e

def pidArg (p : Edp.PidF) : String := Edp.Term.pidText p

def actText : GsAct → String
  | .call f r q => s!"call:{pidArg f}:{r.text}:{q.text}"
  | .cast q => s!"cast:{q.text}"
  | .info b => s!"info:{b.text}"

def parseGsResult (s : String) : Except String GsResult :=
  if s == "n" then pure .noReply else if s == "e" then pure .err
  else if s.startsWith "r:" then do pure (.reply (← getTerm (s.drop 2).toString))
  else .error "bad-result"

def repliesText (live : Edp.Term) (l : List (Edp.PidF × Edp.Term)) : String :=
  let l := l.filter fun e => Edp.Term.pid e.1 == live
  if l.isEmpty then "-" else ",".intercalate (l.map fun e => e.2.text)

/-- the handler callbacks one message causes (ids in the given order) -/
def geCallbacks (ids : List Edp.Term) : GeAct → List String
  | .notify e => ids.map fun i => s!"event:{i.text}:{e.text}"
  | .syncNotify e => ids.map fun i => s!"event:{i.text}:{e.text}"
  | .info b => ids.map fun i => s!"info:{i.text}:{b.text}"
  | .call _ _ h q => if ids.any (· == h) then [s!"call:{h.text}:{q.text}"] else []
  | .which _ _ => []

def geActText (ids : List Edp.Term) (a : GeAct) : String :=
  let l := geCallbacks ids a
  if l.isEmpty then "-" else ",".intercalate l

end C18

open C18 in
def handleC18 : List String → Option String
  | "c18run" :: cap :: toks => some <| C18.runE do
      -- `src`: the capacity of the source (`DEFAULT_MAILBOX_CAPACITY`) plus the one message the process task holds between
      -- `recv()` and the handler call (the model's `recv` step takes and handles in one step)
      let cap ← if cap == "src" then pure (Edp.Gen.MAILBOX_DEFAULT_CAPACITY + 1) else C18.nat cap
      C18.replay cap toks
  | "c18reg" :: ops => some <| C18.runE (C18.regRun ops)
  | ["c18gs", body, res, live] => some <| C18.runE do
      let body ← getTerm body
      let live ← getTerm live
      let res ← C18.parseGsResult res
      pure (C18.actText (Edp.Impl.Procs.gsDispatch body) ++ ";" ++ C18.repliesText live (Edp.Impl.Procs.gsReplies body res))
  | ["c18ge", frm, body, callReply, ids, live] => some <| C18.runE do
      let body ← getTerm body
      let live ← getTerm live
      let frm ← if frm == "-" then pure none else do
        match ← getTerm frm with
        | .pid p => pure (some p)
        | _ => .error "bad-from"
      let cr ← if callReply == "-" then pure none else do pure (some (← getTerm callReply))
      let ids ← if ids == "-" then pure [] else (ids.splitOn ";").mapM getTerm
      pure (C18.geActText ids (Edp.Impl.Procs.geDispatch body) ++ ";" ++
        C18.repliesText live (Edp.Impl.Procs.geReplies frm body cr ids))
  | ["c18gsspec", body, res, live, got] => some <| C18.runE do
      let body ← getTerm body
      let live ← getTerm live
      let mode ← if res.startsWith "r:" then do pure (some (← getTerm (res.drop 2).toString)) else pure none
      let got ← if got == "-" then pure [] else (got.splitOn ";").mapM getTerm
      pure (Edp.Spec.Procs.gsCheck body mode live got)
  | ["c18gespec", frm, body, callReply, ids, live, got] => some <| C18.runE do
      let body ← getTerm body
      let live ← getTerm live
      let frm ← if frm == "-" then pure none else do pure (some (← getTerm frm))
      let cr ← if callReply == "-" then pure none else do pure (some (← getTerm callReply))
      let ids ← if ids == "-" then pure [] else (ids.splitOn ";").mapM getTerm
      let got ← if got == "-" then pure [] else (got.splitOn ";").mapM getTerm
      pure (Edp.Spec.Procs.geCheck frm body cr ids live got)
  | "c18spec" :: toks => some (Edp.Spec.Procs.check toks)
  | _ => none

end Edp.Drv
