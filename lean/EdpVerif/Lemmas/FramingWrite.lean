import EdpVerif.Impl.Framing
import EdpVerif.Lemmas.Framing
/-! Helper lemmas for C05, write side: `write_framed` with a scripted `poll_flush`, write timeouts, and a caller that
sends several messages over the same sink. Core Lean only. -/
namespace Edp.Framing
open Edp

/-- a sink whose `poll_flush` never fails and never stalls past the timeout -/
def GoodFlush (fl : List FEv) : Prop := ∀ e ∈ fl, e ≠ FEv.fail ∧ e ≠ FEv.stall

theorem flushAll_good : ∀ (fl : List FEv), GoodFlush fl → (flushAll fl).1 = .ok () ∧ GoodFlush (flushAll fl).2 := by
  intro fl
  induction fl with
  | nil => intro h; exact ⟨rfl, h⟩
  | cons e t ih =>
    intro h
    have ht : GoodFlush t := fun x hx => h x (by simp [hx])
    cases e with
    | done => exact ⟨rfl, ht⟩
    | pending => exact ih ht
    | fail => exact absurd rfl (h .fail (by simp)).1
    | stall => exact absurd rfl (h .stall (by simp)).2

theorem flushAll_nostall : ∀ (fl : List FEv), (∀ e ∈ fl, e ≠ FEv.stall) →
    (flushAll fl).1 ≠ .error .timeout ∧ (∀ e ∈ (flushAll fl).2, e ≠ FEv.stall) := by
  intro fl
  induction fl with
  | nil => intro h; exact ⟨by simp [flushAll], h⟩
  | cons e t ih =>
    intro h
    have ht : ∀ x ∈ t, x ≠ FEv.stall := fun x hx => h x (by simp [hx])
    cases e with
    | done => exact ⟨by simp [flushAll], ht⟩
    | pending => exact ih ht
    | fail => exact ⟨by simp [flushAll], ht⟩
    | stall => exact absurd rfl (h .stall (by simp))

theorem writeAll_nostall : ∀ (s : List WEv) (buf : Bytes), (∀ e ∈ s, e ≠ WEv.stall) →
    (writeAll buf s).res ≠ .error .timeout ∧ (∀ e ∈ (writeAll buf s).rest, e ≠ WEv.stall) := by
  intro s
  induction s with
  | nil =>
    intro buf h
    cases buf <;> exact ⟨by simp [writeAll], by simp [writeAll]⟩
  | cons e t ih =>
    intro buf h
    have ht : ∀ x ∈ t, x ≠ WEv.stall := fun x hx => h x (by simp [hx])
    cases buf with
    | nil => rw [writeAll_nil]; exact ⟨by simp, h⟩
    | cons b bs =>
      cases e with
      | pending => simpa [writeAll] using ih (b :: bs) ht
      | fail => exact ⟨by simp [writeAll], ht⟩
      | stall => exact absurd rfl (h .stall (by simp))
      | accept k =>
        by_cases hk : k = 0
        · subst hk; exact ⟨by simp [writeAll], ht⟩
        · simp only [writeAll, hk, if_false]
          exact ih _ ht

/-- everything `write_framed` guarantees, on every sink script and every flush script -/
theorem writeFramed_spec (mode : Mode) (msg : Bytes) (s : List WEv) (fl : List FEv) :
    (writeFramed mode msg s fl).chunks.flatten <+: frame mode msg ∧
    ((writeFramed mode msg s fl).res = .ok () →
      (writeFramed mode msg s fl).chunks.flatten = frame mode msg ∧ (writeFramed mode msg s fl).flushes = 1) ∧
    (∀ e, (writeFramed mode msg s fl).res = .error e → (writeFramed mode msg s fl).flushes = 0 ∧
      ((writeFramed mode msg s fl).chunks.flatten.length < (frame mode msg).length ∨
        (flushAll fl).1 = .error e)) ∧
    ((writeFramed mode msg s fl).chunks.flatten.length < (frame mode msg).length →
      ∃ e, (writeFramed mode msg s fl).res = .error e) := by
  obtain ⟨a1, a2, a3⟩ := writeAll_spec s (beN mode.prefixSize msg.length)
  obtain ⟨b1, b2, b3⟩ := writeAll_spec (writeAll (beN mode.prefixSize msg.length) s).rest msg
  cases h1 : (writeAll (beN mode.prefixSize msg.length) s).res with
  | error e =>
    have hw : writeFramed mode msg s fl = ⟨.error e, (writeAll (beN mode.prefixSize msg.length) s).chunks, 0,
        (writeAll (beN mode.prefixSize msg.length) s).rest, fl⟩ := by
      simp only [writeFramed, h1]
    rw [hw]
    simp only [frame]
    have := a3 e h1
    refine ⟨?_, by simp, ?_, ?_⟩
    · obtain ⟨u, hu⟩ := a1
      exact ⟨u ++ msg, by rw [← List.append_assoc, hu]⟩
    · intro e' _
      exact ⟨by first | rfl | trivial, Or.inl (by rw [List.length_append]; omega)⟩
    · intro _; exact ⟨e, rfl⟩
  | ok u =>
    cases u
    have e1 := a2 h1
    cases h2 : (writeAll msg (writeAll (beN mode.prefixSize msg.length) s).rest).res with
    | error e =>
      have hw : writeFramed mode msg s fl = ⟨.error e, (writeAll (beN mode.prefixSize msg.length) s).chunks ++
          (writeAll msg (writeAll (beN mode.prefixSize msg.length) s).rest).chunks, 0,
          (writeAll msg (writeAll (beN mode.prefixSize msg.length) s).rest).rest, fl⟩ := by
        simp only [writeFramed, h1, h2]
      rw [hw]
      simp only [frame]
      have := b3 e h2
      refine ⟨?_, by simp, ?_, ?_⟩
      · rw [List.flatten_append, e1]
        obtain ⟨u, hu⟩ := b1
        exact ⟨u, by rw [List.append_assoc, hu]⟩
      · intro e' _
        refine ⟨by first | rfl | trivial, Or.inl ?_⟩
        rw [List.flatten_append, e1, List.length_append, List.length_append]; omega
      · intro _; exact ⟨e, rfl⟩
    | ok u =>
      cases u
      have e2 := b2 h2
      cases h3 : flushAll fl with
      | mk fres fr =>
        cases fres with
        | error e =>
          have hw : writeFramed mode msg s fl = ⟨.error e, (writeAll (beN mode.prefixSize msg.length) s).chunks ++
              (writeAll msg (writeAll (beN mode.prefixSize msg.length) s).rest).chunks, 0,
              (writeAll msg (writeAll (beN mode.prefixSize msg.length) s).rest).rest, fr⟩ := by
            simp only [writeFramed, h1, h2, h3]
          rw [hw]
          simp only [frame]
          refine ⟨?_, by simp, ?_, ?_⟩
          · rw [List.flatten_append, e1, e2]; exact List.prefix_refl _
          · intro e' he'
            simp only [Except.error.injEq] at he'
            subst he'
            exact ⟨by first | rfl | trivial, Or.inr rfl⟩
          · intro _; exact ⟨e, rfl⟩
        | ok u =>
          cases u
          have hw : writeFramed mode msg s fl = ⟨.ok (), (writeAll (beN mode.prefixSize msg.length) s).chunks ++
              (writeAll msg (writeAll (beN mode.prefixSize msg.length) s).rest).chunks, 1,
              (writeAll msg (writeAll (beN mode.prefixSize msg.length) s).rest).rest, fr⟩ := by
            simp only [writeFramed, h1, h2, h3]
          rw [hw]
          simp only [frame]
          refine ⟨?_, ?_, by simp, ?_⟩
          · rw [List.flatten_append, e1, e2]; exact List.prefix_refl _
          · intro _
            exact ⟨by rw [List.flatten_append, e1, e2], by first | rfl | trivial⟩
          · intro h
            rw [List.flatten_append, e1, e2] at h
            simp at h

/-- a good sink makes `write_framed` succeed and stays good -/
theorem writeFramed_good (mode : Mode) (msg : Bytes) (s : List WEv) (fl : List FEv) (hs : GoodSink s)
    (hf : GoodFlush fl) :
    (writeFramed mode msg s fl).res = .ok () ∧ GoodSink (writeFramed mode msg s fl).rest ∧
      GoodFlush (writeFramed mode msg s fl).frest := by
  obtain ⟨g1, g2⟩ := writeAll_good s (beN mode.prefixSize msg.length) hs
  obtain ⟨g3, g4⟩ := writeAll_good _ msg g2
  obtain ⟨g5, g6⟩ := flushAll_good fl hf
  cases h3 : flushAll fl with
  | mk fres fr =>
    rw [h3] at g5 g6
    simp only at g5 g6
    subst g5
    have hw : writeFramed mode msg s fl = ⟨.ok (), (writeAll (beN mode.prefixSize msg.length) s).chunks ++
        (writeAll msg (writeAll (beN mode.prefixSize msg.length) s).rest).chunks, 1,
        (writeAll msg (writeAll (beN mode.prefixSize msg.length) s).rest).rest, fr⟩ := by
      simp only [writeFramed, g1, g3, h3]
    rw [hw]
    exact ⟨rfl, g4, g6⟩

/-- without stalls no write times out, and the scripts that are left have no stalls either -/
theorem writeFramed_nostall (mode : Mode) (msg : Bytes) (s : List WEv) (fl : List FEv)
    (hs : ∀ e ∈ s, e ≠ WEv.stall) (hf : ∀ e ∈ fl, e ≠ FEv.stall) :
    (writeFramed mode msg s fl).res ≠ .error .timeout ∧ (∀ e ∈ (writeFramed mode msg s fl).rest, e ≠ WEv.stall) ∧
      (∀ e ∈ (writeFramed mode msg s fl).frest, e ≠ FEv.stall) := by
  obtain ⟨g1, g2⟩ := writeAll_nostall s (beN mode.prefixSize msg.length) hs
  obtain ⟨g3, g4⟩ := writeAll_nostall _ msg g2
  obtain ⟨g5, g6⟩ := flushAll_nostall fl hf
  cases h1 : (writeAll (beN mode.prefixSize msg.length) s).res with
  | error e =>
    have hw : writeFramed mode msg s fl = ⟨.error e, (writeAll (beN mode.prefixSize msg.length) s).chunks, 0,
        (writeAll (beN mode.prefixSize msg.length) s).rest, fl⟩ := by
      simp only [writeFramed, h1]
    rw [hw]
    rw [h1] at g1
    exact ⟨g1, g2, hf⟩
  | ok u =>
    cases u
    cases h2 : (writeAll msg (writeAll (beN mode.prefixSize msg.length) s).rest).res with
    | error e =>
      have hw : writeFramed mode msg s fl = ⟨.error e, (writeAll (beN mode.prefixSize msg.length) s).chunks ++
          (writeAll msg (writeAll (beN mode.prefixSize msg.length) s).rest).chunks, 0,
          (writeAll msg (writeAll (beN mode.prefixSize msg.length) s).rest).rest, fl⟩ := by
        simp only [writeFramed, h1, h2]
      rw [hw]
      rw [h2] at g3
      exact ⟨g3, g4, hf⟩
    | ok u =>
      cases u
      cases h3 : flushAll fl with
      | mk fres fr =>
        rw [h3] at g5 g6
        cases fres with
        | error e =>
          have hw : writeFramed mode msg s fl = ⟨.error e, (writeAll (beN mode.prefixSize msg.length) s).chunks ++
              (writeAll msg (writeAll (beN mode.prefixSize msg.length) s).rest).chunks, 0,
              (writeAll msg (writeAll (beN mode.prefixSize msg.length) s).rest).rest, fr⟩ := by
            simp only [writeFramed, h1, h2, h3]
          rw [hw]
          exact ⟨g5, g4, g6⟩
        | ok u =>
          cases u
          have hw : writeFramed mode msg s fl = ⟨.ok (), (writeAll (beN mode.prefixSize msg.length) s).chunks ++
              (writeAll msg (writeAll (beN mode.prefixSize msg.length) s).rest).chunks, 1,
              (writeAll msg (writeAll (beN mode.prefixSize msg.length) s).rest).rest, fr⟩ := by
            simp only [writeFramed, h1, h2, h3]
          rw [hw]
          exact ⟨by simp, g4, g6⟩

/-! ### several messages over one sink -/

theorem writeMany_good (mode : Mode) : ∀ (msgs : List Bytes) (s : List WEv) (fl : List FEv), GoodSink s →
    GoodFlush fl →
    (writeMany mode msgs s fl).1 = msgs.map (fun _ => .ok ()) ∧
      (writeMany mode msgs s fl).2.flatten = (msgs.map (frame mode)).flatten := by
  intro msgs
  induction msgs with
  | nil => intro s fl _ _; exact ⟨rfl, rfl⟩
  | cons m ms ih =>
    intro s fl hs hf
    obtain ⟨g1, g2, g3⟩ := writeFramed_good mode m s fl hs hf
    obtain ⟨i1, i2⟩ := ih _ _ g2 g3
    have sp := (writeFramed_spec mode m s fl).2.1 g1
    simp only [writeMany, g1, List.map_cons, List.flatten_cons, List.flatten_append]
    exact ⟨by rw [i1], by rw [i2, sp.1]⟩

/-- without write timeouts, what reaches the wire is always a prefix of the frames of the messages, in order -/
theorem writeMany_nostall (mode : Mode) : ∀ (msgs : List Bytes) (s : List WEv) (fl : List FEv),
    (∀ e ∈ s, e ≠ WEv.stall) → (∀ e ∈ fl, e ≠ FEv.stall) →
    (∀ r ∈ (writeMany mode msgs s fl).1, r ≠ .error .timeout) ∧
      (writeMany mode msgs s fl).2.flatten <+: (msgs.map (frame mode)).flatten := by
  intro msgs
  induction msgs with
  | nil => intro s fl _ _; exact ⟨by simp [writeMany], by simp [writeMany]⟩
  | cons m ms ih =>
    intro s fl hs hf
    obtain ⟨g1, g2, g3⟩ := writeFramed_nostall mode m s fl hs hf
    obtain ⟨sp1, sp2, _, _⟩ := writeFramed_spec mode m s fl
    obtain ⟨i1, i2⟩ := ih _ _ g2 g3
    cases hr : (writeFramed mode m s fl).res with
    | ok u =>
      cases u
      have := (sp2 hr).1
      simp only [writeMany, hr, List.map_cons, List.flatten_cons, List.flatten_append, this]
      refine ⟨?_, ?_⟩
      · intro r h
        rcases List.mem_cons.mp h with h | h
        · subst h; simp
        · exact i1 r h
      · exact (List.prefix_append_right_inj _).mpr i2
    | error e =>
      cases e with
      | timeout => exact absurd hr g1
      | writeZero =>
        simp only [writeMany, hr, List.map_cons, List.flatten_cons]
        exact ⟨by simp, List.IsPrefix.trans sp1 (List.prefix_append _ _)⟩
      | io =>
        simp only [writeMany, hr, List.map_cons, List.flatten_cons]
        exact ⟨by simp, List.IsPrefix.trans sp1 (List.prefix_append _ _)⟩

end Edp.Framing
