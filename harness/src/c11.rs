//! C11 / C12: the term order. One universe of well-formed terms; all pairs (and triples) of it.
use crate::canon::term_text;
use crate::tgen::{gen_term, Cfg};
use crate::Ctx;
use erltf::types::{Atom, BigInt, ExternalFun, ExternalPid, ExternalPort, ExternalReference, InternalFun};
use erltf::{BorrowedTerm, OwnedTerm};
use std::cmp::Ordering;
use std::collections::{BTreeMap, HashMap};
use std::hash::{Hash, Hasher};

fn big(neg: bool, mut v: u128) -> OwnedTerm {
    let mut d = vec![];
    while v > 0 {
        d.push((v & 0xff) as u8);
        v >>= 8;
    }
    OwnedTerm::BigInt(BigInt::new(neg, d))
}

fn int(i: i64) -> OwnedTerm {
    OwnedTerm::Integer(i)
}
fn fl(f: f64) -> OwnedTerm {
    OwnedTerm::Float(f)
}
fn atom(s: &str) -> OwnedTerm {
    OwnedTerm::Atom(Atom::new(s))
}
fn map(kv: Vec<(OwnedTerm, OwnedTerm)>) -> OwnedTerm {
    let mut m = BTreeMap::new();
    for (k, v) in kv {
        m.insert(k, v);
    }
    OwnedTerm::Map(m)
}
fn ifun(arity: u8, num_free: u32, index: u32, free: Vec<OwnedTerm>) -> OwnedTerm {
    OwnedTerm::InternalFun(Box::new(InternalFun::new(
        arity,
        [7u8; 16],
        index,
        num_free,
        Atom::new("m"),
        1,
        2,
        ExternalPid::new(Atom::new("a@h"), 1, 2, 3),
        free,
    )))
}

pub fn universe(ctx: &mut Ctx, extra: usize) -> Vec<OwnedTerm> {
    let mut u: Vec<OwnedTerm> = vec![];
    // numbers around every representation boundary, in every representation
    for &i in &[0i64, 1, -1, 2, 255, 256, -256, 2147483647, 2147483648, -2147483648, -2147483649,
        (1 << 53) - 1, 1 << 53, (1 << 53) + 1, (1 << 53) + 2, -(1 << 53) - 1, i64::MAX, i64::MAX - 1, i64::MIN, i64::MIN + 1] {
        u.push(int(i));
    }
    for &(n, v) in &[(false, 1u128 << 40), (false, (1u128 << 53) + 1), (false, 1u128 << 63), (false, (1u128 << 63) - 1),
        (true, 1u128 << 63), (true, (1u128 << 63) + 1), (false, 1u128 << 64), (false, (1u128 << 64) + 1),
        (false, (2u128 << 64) + 1), (false, (1u128 << 64) + 2), (true, (2u128 << 64) + 1), (true, (1u128 << 64) + 2),
        (false, 100000000000000000000u128), (true, 100000000000000000000u128), (false, 100000000000000000001u128),
        (false, 5), (true, 5), (false, 0), (false, 300), (false, 1u128 << 100), (false, (1u128 << 100) + 1)] {
        u.push(big(n, v));
    }
    for &f in &[0.0f64, -0.0, 0.5, 1.0, 1.5, -1.0, -0.5, 2.0, 255.0, 256.5, 9007199254740992.0, 9007199254740994.0,
        9007199254740991.0, -9007199254740992.0, 9223372036854775808.0, -9223372036854775808.0, 9223372036854777856.0,
        18446744073709551616.0, 1e20, -1e20, 1.0000000000000002e20, 1.2676506002282294e30, 5e-324, 2.2250738585072014e-308,
        f64::MAX, f64::MIN, 4294967296.0, 2147483648.0, 36893488147419103232.0, 300.0, 5.0, -5.0, 1099511627776.0] {
        u.push(fl(f));
    }
    for s in ["", "a", "ab", "b", "ok", "z", "é", "日本", "\u{10000}", "A"] {
        u.push(atom(s));
    }
    let n1 = Atom::new("a@h");
    let n2 = Atom::new("b@h");
    u.push(OwnedTerm::Reference(ExternalReference::new(n1.clone(), 1, vec![1, 2, 3])));
    u.push(OwnedTerm::Reference(ExternalReference::new(n1.clone(), 1, vec![1, 2])));
    u.push(OwnedTerm::Reference(ExternalReference::new(n1.clone(), 2, vec![1, 2, 3])));
    u.push(OwnedTerm::Reference(ExternalReference::new(n2.clone(), 1, vec![0])));
    u.push(OwnedTerm::Reference(ExternalReference::with_local_ext_bytes(n1.clone(), 1, vec![1, 2, 3], vec![1u8; 20])));
    u.push(OwnedTerm::ExternalFun(ExternalFun::new(Atom::new("m"), Atom::new("f"), 1)));
    u.push(OwnedTerm::ExternalFun(ExternalFun::new(Atom::new("m"), Atom::new("f"), 2)));
    u.push(OwnedTerm::ExternalFun(ExternalFun::new(Atom::new("m"), Atom::new("g"), 0)));
    u.push(ifun(1, 0, 5, vec![]));
    u.push(ifun(2, 0, 5, vec![])); // differs only in arity
    u.push(ifun(1, 0, 6, vec![]));
    u.push(ifun(1, 1, 5, vec![int(1)]));
    u.push(ifun(1, 1, 5, vec![fl(1.0)]));
    u.push(ifun(1, 2, 5, vec![int(1), int(2)]));
    u.push(OwnedTerm::Port(ExternalPort::new(n1.clone(), 5, 1)));
    u.push(OwnedTerm::Port(ExternalPort::new(n1.clone(), 1 << 40, 1)));
    u.push(OwnedTerm::Port(ExternalPort::new(n1.clone(), 5, 2)));
    u.push(OwnedTerm::Port(ExternalPort::with_local_ext_bytes(n1.clone(), 5, 1, vec![9u8; 12])));
    u.push(OwnedTerm::Pid(ExternalPid::new(n1.clone(), 1, 2, 3)));
    u.push(OwnedTerm::Pid(ExternalPid::new(n1.clone(), 1, 2, 4)));
    u.push(OwnedTerm::Pid(ExternalPid::new(n1.clone(), 2, 0, 0)));
    u.push(OwnedTerm::Pid(ExternalPid::new(n2.clone(), 0, 0, 0)));
    u.push(OwnedTerm::Pid(ExternalPid::with_local_ext_bytes(n1.clone(), 1, 2, 3, vec![3u8; 16])));
    // tuples
    u.push(OwnedTerm::Tuple(vec![]));
    u.push(OwnedTerm::Tuple(vec![int(1)]));
    u.push(OwnedTerm::Tuple(vec![fl(1.0)]));
    u.push(OwnedTerm::Tuple(vec![int(2)]));
    u.push(OwnedTerm::Tuple(vec![int(1), int(2)]));
    u.push(OwnedTerm::Tuple(vec![int(0), int(0), int(0)]));
    u.push(OwnedTerm::Tuple(vec![atom("a"), big(false, 1 << 64)]));
    u.push(OwnedTerm::Tuple(vec![atom("a"), fl(18446744073709551616.0)]));
    // maps
    u.push(map(vec![]));
    u.push(map(vec![(atom("a"), int(1))]));
    u.push(map(vec![(atom("a"), fl(1.0))]));
    u.push(map(vec![(atom("a"), int(2))]));
    u.push(map(vec![(atom("b"), int(0))]));
    u.push(map(vec![(atom("a"), int(2)), (atom("b"), int(1))]));
    u.push(map(vec![(atom("a"), int(1)), (atom("c"), int(0))]));
    u.push(map(vec![(atom("a"), int(1)), (atom("b"), int(5))]));
    u.push(map(vec![(int(1), atom("x")), (int(2), atom("y"))]));
    u.push(map(vec![(int(1), atom("x")), (atom("k"), atom("y"))]));
    u.push(map(vec![(OwnedTerm::Tuple(vec![int(1)]), atom("x"))]));
    u.push(map(vec![(fl(1.0), atom("x")), (int(2), atom("y"))]));
    u.push(map(vec![(OwnedTerm::Tuple(vec![fl(1.0)]), atom("x"))]));
    // lists: nil, empty list, proper, improper, strings of chars
    u.push(OwnedTerm::Nil);
    u.push(OwnedTerm::List(vec![]));
    u.push(OwnedTerm::List(vec![int(1)]));
    u.push(OwnedTerm::List(vec![int(3)]));
    u.push(OwnedTerm::List(vec![int(1), int(2)]));
    u.push(OwnedTerm::List(vec![int(1), int(5)]));
    u.push(OwnedTerm::List(vec![fl(1.0), int(2)]));
    u.push(OwnedTerm::List(vec![int(2)]));
    u.push(OwnedTerm::List(vec![OwnedTerm::List(vec![]), OwnedTerm::Nil]));
    u.push(OwnedTerm::ImproperList { elements: vec![int(1)], tail: Box::new(int(2)) });
    u.push(OwnedTerm::ImproperList { elements: vec![int(1)], tail: Box::new(int(3)) });
    u.push(OwnedTerm::ImproperList { elements: vec![int(2)], tail: Box::new(int(3)) });
    u.push(OwnedTerm::ImproperList { elements: vec![int(1), int(5)], tail: Box::new(atom("x")) });
    u.push(OwnedTerm::ImproperList { elements: vec![int(1)], tail: Box::new(OwnedTerm::Binary(vec![])) });
    u.push(OwnedTerm::ImproperList { elements: vec![int(1)], tail: Box::new(OwnedTerm::Tuple(vec![])) });
    u.push(OwnedTerm::ImproperList { elements: vec![int(1), int(2)], tail: Box::new(OwnedTerm::Binary(vec![1])) });
    // binaries, strings, bit-strings (unused bits zero)
    for b in [vec![], vec![0u8], vec![1], vec![1, 2, 3], vec![1, 2, 4], vec![1, 2, 3, 4], vec![0x80], vec![0xc0], vec![0xff], vec![97]] {
        u.push(OwnedTerm::Binary(b));
    }
    u.push(OwnedTerm::String("a".to_string()));
    u.push(OwnedTerm::String("".to_string()));
    u.push(OwnedTerm::String("abc".to_string()));
    for (b, n) in [(vec![0x80u8], 1u8), (vec![0x80], 2), (vec![0xc0], 2), (vec![0x00], 1), (vec![1, 2, 0x00], 1), (vec![1, 2, 0x80], 1),
        (vec![1, 2, 3], 8), (vec![1, 0x80], 7), (vec![97, 0x40], 2), (vec![0xfe], 7), (vec![0xff, 0x80], 1)] {
        u.push(OwnedTerm::BitBinary { bytes: b, bits: n });
    }
    // generated well-formed terms
    let cfg = Cfg { max_depth: 3, huge: false, local_ids: true, ..Cfg::default() };
    for _ in 0..extra {
        u.push(gen_term(&mut ctx.rng, &cfg, 1));
    }
    u
}

fn ord(o: Ordering) -> &'static str {
    match o {
        Ordering::Less => "lt",
        Ordering::Equal => "eq",
        Ordering::Greater => "gt",
    }
}

/// records every byte the `Hash` impl writes (the default `write_*` methods all end in `write`)
struct Rec(Vec<u8>);
impl Hasher for Rec {
    fn finish(&self) -> u64 {
        0
    }
    fn write(&mut self, bytes: &[u8]) {
        self.0.extend_from_slice(bytes);
    }
}

fn hash_stream(t: &OwnedTerm) -> Vec<u8> {
    let mut r = Rec(vec![]);
    t.hash(&mut r);
    r.0
}

fn h(t: &OwnedTerm) -> u64 {
    let mut s = std::collections::hash_map::DefaultHasher::new();
    t.hash(&mut s);
    s.finish()
}

/// traversal-order markers of numeric kinds: terms that compare equal but differ here are distinct in Erlang's exact (`=:=`) sense
fn num_shape(t: &OwnedTerm, out: &mut String) {
    match t {
        OwnedTerm::Integer(_) | OwnedTerm::BigInt(_) => out.push('i'),
        OwnedTerm::Float(_) => out.push('f'),
        OwnedTerm::Tuple(l) | OwnedTerm::List(l) => l.iter().for_each(|e| num_shape(e, out)),
        OwnedTerm::ImproperList { elements, tail } => {
            elements.iter().for_each(|e| num_shape(e, out));
            num_shape(tail, out)
        }
        OwnedTerm::Map(m) => m.iter().for_each(|(k, v)| {
            num_shape(k, out);
            num_shape(v, out)
        }),
        OwnedTerm::InternalFun(f) => f.free_vars.iter().for_each(|e| num_shape(e, out)),
        _ => out.push('.'),
    }
}

fn map_keys<'a>(t: &'a OwnedTerm, out: &mut Vec<&'a OwnedTerm>) {
    match t {
        OwnedTerm::Tuple(l) | OwnedTerm::List(l) => l.iter().for_each(|e| map_keys(e, out)),
        OwnedTerm::ImproperList { elements, tail } => {
            elements.iter().for_each(|e| map_keys(e, out));
            map_keys(tail, out)
        }
        OwnedTerm::Map(m) => m.iter().for_each(|(k, v)| {
            out.push(k);
            map_keys(k, out);
            map_keys(v, out)
        }),
        OwnedTerm::InternalFun(f) => f.free_vars.iter().for_each(|e| map_keys(e, out)),
        _ => {}
    }
}

/// classifier of the recorded finding: map keys that are `==` but not `=:=` (1 vs 1.0) are ordered int-before-float by Erlang
pub fn key_tie(a: &OwnedTerm, b: &OwnedTerm) -> bool {
    let (mut ka, mut kb) = (vec![], vec![]);
    map_keys(a, &mut ka);
    map_keys(b, &mut kb);
    for x in &ka {
        for y in &kb {
            if x.cmp(y) == Ordering::Equal {
                let (mut sx, mut sy) = (String::new(), String::new());
                num_shape(x, &mut sx);
                num_shape(y, &mut sy);
                if sx != sy {
                    return true;
                }
            }
        }
    }
    false
}

pub fn run(ctx: &mut Ctx) {
    run_mode(ctx, false)
}

pub fn run_mode(ctx: &mut Ctx, c12: bool) {
    let extra = ctx.n(60, 140);
    let u = universe(ctx, extra);
    let n = u.len();
    ctx.add("universe", n as u64);
    let texts: Vec<String> = u.iter().map(term_text).collect();
    let mut m = vec![Ordering::Equal; n * n];
    for i in 0..n {
        for j in 0..n {
            let o = match std::panic::catch_unwind(|| u[i].cmp(&u[j])) {
                Ok(o) => o,
                Err(_) => {
                    ctx.fail("c11-cmp-panics", &format!("{} {}", texts[i], texts[j]));
                    Ordering::Equal
                }
            };
            m[i * n + j] = o;
            ctx.count(match o {
                Ordering::Less => "pairs_lt",
                Ordering::Equal => "pairs_eq",
                Ordering::Greater => "pairs_gt",
            });
            if c12 {
                let tag = if key_tie(&u[i], &u[j]) { "kf-c12-map-key-exact" } else { "gen" };
                ctx.prop(tag, &format!("c12cmp {} {}", texts[i], texts[j]), ord(o));
            } else {
                ctx.tie("gen", &format!("c11cmp {} {}", texts[i], texts[j]), ord(o));
            }
        }
    }
    ctx.add("exhaustive", 1);
    if c12 {
        // slice::sort and BTreeMap iteration order against the pairwise results
        let mut sorted: Vec<usize> = (0..n).collect();
        sorted.sort_by(|&a, &b| u[a].cmp(&u[b]));
        for w in sorted.windows(2) {
            if m[w[0] * n + w[1]] == Ordering::Greater {
                ctx.fail("c12-sort-misplaces", &format!("{} sorted before {}", texts[w[0]], texts[w[1]]));
            }
        }
        return;
    }
    // ties of the equality and hash models (Impl/EqHash.lean): `==` on every pair that compares Equal and on a
    // sample of the others; the hashed byte stream of every term
    for i in 0..n {
        ctx.tie("hash", &format!("c11hash {}", texts[i]), &crate::canon::hexarg(&hash_stream(&u[i])));
        for j in 0..n {
            if m[i * n + j] == Ordering::Equal || (i * 31 + j * 17) % 23 == 0 {
                ctx.tie("eqv", &format!("c11eqv {} {}", texts[i], texts[j]), if u[i] == u[j] { "true" } else { "false" });
                ctx.count("eqv_pairs");
            }
        }
    }
    // model tie only (not part of the law checks): big integers with high-order zero digits, which the decoder
    // accepts as they arrive; the code compares digit counts first, so these do not compare by value
    let nonmin: Vec<OwnedTerm> = vec![
        OwnedTerm::BigInt(BigInt::new(false, vec![1, 0])),
        OwnedTerm::BigInt(BigInt::new(false, vec![0])),
        OwnedTerm::BigInt(BigInt::new(true, vec![0, 0])),
        OwnedTerm::BigInt(BigInt::new(false, vec![5, 0, 0])),
        OwnedTerm::BigInt(BigInt::new(true, vec![1, 0])),
        OwnedTerm::BigInt(BigInt::new(false, vec![0, 0, 0, 0, 0, 0, 0, 0, 1, 0])),
        OwnedTerm::BigInt(BigInt::new(false, vec![1])),
    ];
    for a in &nonmin {
        let ta = term_text(a);
        for (j, b) in u.iter().enumerate().filter(|(_, b)| matches!(b, OwnedTerm::Integer(_) | OwnedTerm::BigInt(_) | OwnedTerm::Float(_))) {
            ctx.tie("nonmin", &format!("c11cmp {} {}", ta, texts[j]), ord(a.cmp(b)));
            ctx.tie("nonmin", &format!("c11cmp {} {}", texts[j], ta), ord(b.cmp(a)));
            ctx.count("nonminimal_big_pairs");
        }
        for b in &nonmin {
            ctx.tie("nonmin", &format!("c11cmp {} {}", ta, term_text(b)), ord(a.cmp(b)));
        }
    }
    // C11 laws on the implementation itself
    for i in 0..n {
        let bi = BorrowedTerm::from(&u[i]);
        for j in 0..n {
            let o = m[i * n + j];
            if m[j * n + i] != o.reverse() {
                ctx.fail("c11-not-antisymmetric", &format!("{} {} : {} / {}", texts[i], texts[j], ord(o), ord(m[j * n + i])));
            }
            let bj = BorrowedTerm::from(&u[j]);
            if bi.cmp(&bj) != o {
                ctx.fail("c11-borrowed-differs", &format!("{} {} : owned {} borrowed {}", texts[i], texts[j], ord(o), ord(bi.cmp(&bj))));
            }
            if u[i] == u[j] {
                if o != Ordering::Equal {
                    ctx.fail("c11-eq-not-cmp-equal", &format!("{} {}", texts[i], texts[j]));
                }
                if h(&u[i]) != h(&u[j]) {
                    ctx.fail("c11-eq-hash-differs", &format!("{} {}", texts[i], texts[j]));
                }
                ctx.count("pairs_structurally_equal");
            }
        }
    }
    // transitivity: all triples
    let mut bad = 0;
    'outer: for i in 0..n {
        for j in 0..n {
            if m[i * n + j] == Ordering::Greater {
                continue;
            }
            for k in 0..n {
                if m[j * n + k] != Ordering::Greater && m[i * n + k] == Ordering::Greater {
                    ctx.fail("c11-not-transitive", &format!("{} <= {} <= {} but first > third", texts[i], texts[j], texts[k]));
                    bad += 1;
                    if bad > 5 {
                        break 'outer;
                    }
                }
                // equality must be a congruence for the order
                if m[i * n + j] == Ordering::Equal && m[i * n + k] != m[j * n + k] {
                    ctx.fail("c11-not-transitive", &format!("{} = {} but they compare differently with {}", texts[i], texts[j], texts[k]));
                    bad += 1;
                    if bad > 5 {
                        break 'outer;
                    }
                }
            }
        }
    }
    ctx.add("triples", (n * n * n) as u64);
    // ordered and hashed containers neither lose nor duplicate
    let mut bt: BTreeMap<OwnedTerm, usize> = BTreeMap::new();
    let mut hm: HashMap<OwnedTerm, usize> = HashMap::new();
    for (i, t) in u.iter().enumerate() {
        bt.insert(t.clone(), i);
        hm.insert(t.clone(), i);
    }
    for (i, t) in u.iter().enumerate() {
        match bt.get(t) {
            Some(&j) if m[i * n + j] == Ordering::Equal => {}
            other => ctx.fail("c11-btreemap-loses", &format!("{} -> {:?}", texts[i], other)),
        }
        match hm.get(t) {
            Some(&j) if u[j] == *t => {}
            other => ctx.fail("c11-hashmap-loses", &format!("{} -> {:?}", texts[i], other)),
        }
    }
    let classes = {
        // number of equivalence classes of cmp == Equal
        let mut reps: Vec<usize> = vec![];
        for i in 0..n {
            if !reps.iter().any(|&r| m[i * n + r] == Ordering::Equal) {
                reps.push(i);
            }
        }
        reps.len()
    };
    if bt.len() != classes {
        ctx.fail("c11-btreemap-loses", &format!("BTreeMap holds {} keys for {} equivalence classes", bt.len(), classes));
    }
    let keys: Vec<&OwnedTerm> = bt.keys().collect();
    for w in keys.windows(2) {
        if w[0].cmp(w[1]) != Ordering::Less {
            ctx.fail("c11-btreemap-misplaces", &format!("{} before {}", term_text(w[0]), term_text(w[1])));
        }
    }
}
