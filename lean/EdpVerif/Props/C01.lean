import EdpVerif.Impl.TableTie
import EdpVerif.Impl.Encode
import EdpVerif.Impl.Den
import EdpVerif.Spec.Etf
import EdpVerif.Lemmas.RoundTrip
import EdpVerif.Lemmas.Reencode
import EdpVerif.Lemmas.EncErr
import EdpVerif.Lemmas.SpecValid
import EdpVerif.Impl.EncodeEntry
import EdpVerif.Impl.DistHeader
import EdpVerif.Generated.MiscC01
import EdpVerif.Lemmas.WireOrder
import EdpVerif.Lemmas.RoundTripLocal
/-
C01 — encode/decode round trip preserves the Erlang value of every term.
Property theorems only; helper lemmas live in EdpVerif/Lemmas.
-/
namespace Edp.Props.C01
open Edp Edp.Term Edp.DistHeader

/-- first byte of an encoder result, as a number -/
def headTag (r : Except EncErr Bytes) : Option Nat :=
  match r with
  | .ok (b :: _) => some b.toNat
  | _ => none

/-- table tie re-checked against the source on every run: for every one of the 17 variants (and the LOCAL_EXT replay
of an identifier) the tag byte the encoder MODEL writes is the constant `tools/gen_tables.py` re-extracts from tags.rs
under the name encoder.rs uses for that variant; and every successful `encode` starts with `VERSION` -/
theorem C01_encoder_emits_generated_tags :
    [headTag (enc [] (.int 0)), headTag (enc [] (.int 256)), headTag (enc [] (.int 2147483648)),
     headTag (enc [] (.float 0)), headTag (enc [] (.atom [])), headTag (enc [[97]] (.atom [97])),
     headTag (enc [] (.bin [])), headTag (enc [] (.bits [0] 1)), headTag (enc [] (.str [])),
     headTag (enc [] (.list [])), headTag (enc [] (.list [.nil])), headTag (enc [] (.ilist [] .nil)),
     headTag (enc [] (.map [])), headTag (enc [] (.tuple [])), headTag (enc [] (.big false [])), headTag (enc [] .nil),
     headTag (enc [] (.pid { node := [], id := 0, serial := 0, creation := 0 })),
     headTag (enc [] (.pid { node := [], id := 0, serial := 0, creation := 0, loc := some [] })),
     headTag (enc [] (.port [] 0 0 none)), headTag (enc [] (.ref [] 0 [] none)), headTag (enc [] (.xfun [] [] 0)),
     headTag (enc [] (.ifun 0 [] 0 0 [] 0 0 { node := [], id := 0, serial := 0, creation := 0 } []))]
    = [Gen.SMALL_INTEGER_EXT, Gen.INTEGER_EXT, Gen.SMALL_BIG_EXT, Gen.NEW_FLOAT_EXT, Gen.SMALL_ATOM_UTF8_EXT,
       Gen.ATOM_CACHE_REF, Gen.BINARY_EXT, Gen.BIT_BINARY_EXT, Gen.BINARY_EXT, Gen.NIL_EXT, Gen.LIST_EXT, Gen.LIST_EXT,
       Gen.MAP_EXT, Gen.SMALL_TUPLE_EXT, Gen.SMALL_BIG_EXT, Gen.NIL_EXT, Gen.NEW_PID_EXT, Gen.LOCAL_EXT, Gen.V4_PORT_EXT,
       Gen.NEWER_REFERENCE_EXT, Gen.EXPORT_EXT, Gen.NEW_FUN_EXT].map some
    ∧ ∀ t bs, encode t = .ok bs → ∃ b, bs = UInt8.ofNat Gen.VERSION :: b ∧ enc [] t = .ok b := by
  refine ⟨by decide, ?_⟩
  intro t bs h
  unfold encode at h
  cases h1 : enc [] t with
  | error e => simp [h1] at h
  | ok b => simp [h1] at h; exact ⟨b, by rw [← h]; rfl, rfl⟩

/-- the width decisions of the encoder model are taken at the thresholds regenerated from encoder.rs (and these are
the format's: a one-byte value / length field holds up to 255, INTEGER_EXT is a signed 32-bit field):
integers, atoms (for every atom cache that does not hold the atom), big integers, tuples -/
theorem C01_encoder_thresholds :
    (∀ v : Int, 0 ≤ v → v ≤ Gen.C01_ENC_SMALL_INT_MAX → encInt v = [97, UInt8.ofNat v.toNat]) ∧
    (∀ v : Int, Gen.C01_ENC_INT32_RANGE = true → (v < 0 ∨ v > Gen.C01_ENC_SMALL_INT_MAX) → -2147483648 ≤ v → v ≤ 2147483647 →
      encInt v = 98 :: be32 (v % 4294967296).toNat) ∧
    (∀ v : Int, (v < -2147483648 ∨ v > 2147483647) → (encInt v).head? = some 110) ∧
    (∀ a : Bytes, a.length ≤ Gen.C01_ENC_SMALL_ATOM_MAX → encAtom [] a = .ok (119 :: be8 a.length ++ a)) ∧
    (∀ a : Bytes, a.length > Gen.C01_ENC_SMALL_ATOM_MAX → a.length ≤ u16max → encAtom [] a = .ok (118 :: be16 a.length ++ a)) ∧
    (∀ a : Bytes, a.length > u16max → encAtom [] a = .error .atomTooLarge) ∧
    (∀ n d, (encBig n d).head? = some (if d.length ≤ Gen.C01_ENC_BIGINT_SMALL_MAX then 110 else 111)) ∧
    (∀ l b, l.length ≤ Gen.C01_ENC_SMALL_TUPLE_MAX → enc [] (.tuple l) = .ok b → b.head? = some 104) ∧
    (∀ l b, l.length > Gen.C01_ENC_SMALL_TUPLE_MAX → enc [] (.tuple l) = .ok b → b.head? = some 105) ∧
    Gen.C01_ENC_SMALL_BIG_MAX ≥ 8 := by
  refine ⟨?_, ?_, ?_, ?_, ?_, ?_, ?_, ?_, ?_, by decide⟩
  · intro v h0 h1
    have h1' : v ≤ 255 := by simpa [Gen.C01_ENC_SMALL_INT_MAX] using h1
    simp [encInt, h0, h1']
  · intro v _ h0 h1 h2
    have h0' : v < 0 ∨ v > 255 := by simpa [Gen.C01_ENC_SMALL_INT_MAX] using h0
    have : ¬ (0 ≤ v ∧ v ≤ 255) := by omega
    simp [encInt, this, h1, h2]
  · intro v h
    have h1 : ¬ (0 ≤ v ∧ v ≤ 255) := by omega
    have h2 : ¬ (-2147483648 ≤ v ∧ v ≤ 2147483647) := by omega
    simp [encInt, h1, h2]
  · intro a h
    simp only [Gen.C01_ENC_SMALL_ATOM_MAX] at h
    have h1 : ¬ a.length > u16max := by simp [u16max]; omega
    have h2 : ¬ a.length > 255 := by omega
    simp [encAtom, indexOf?, h1, h2]
  · intro a h h'
    simp only [Gen.C01_ENC_SMALL_ATOM_MAX] at h
    have h1 : ¬ a.length > u16max := by omega
    simp [encAtom, indexOf?, h1, h]
  · intro a h
    simp [encAtom, indexOf?, h]
  · intro n d
    by_cases h : d.length ≤ 255 <;> simp [encBig, Gen.C01_ENC_BIGINT_SMALL_MAX, h]
  · intro l b h he
    simp only [Gen.C01_ENC_SMALL_TUPLE_MAX] at h
    simp only [enc, h, ↓reduceIte] at he
    split at he
    · simp at he; simp [← he]
    · simp at he
  · intro l b h he
    simp only [Gen.C01_ENC_SMALL_TUPLE_MAX] at h
    have h1 : ¬ l.length ≤ 255 := by omega
    simp only [enc, h1, ↓reduceIte] at he
    split at he
    · simp at he
    · split at he
      · simp at he; simp [← he]
      · simp at he

example : encInt 255 = [97, 255] ∧ encInt 256 = [98, 0, 0, 1, 0] ∧ encInt (-1) = [98, 255, 255, 255, 255] := by
  refine ⟨?_, ?_, ?_⟩
  · simpa using C01_encoder_thresholds.1 255 (by decide) (by decide)
  · simpa [be32, beN] using C01_encoder_thresholds.2.1 256 rfl (by decide) (by decide) (by decide)
  · simpa [be32, beN] using C01_encoder_thresholds.2.1 (-1) rfl (by decide) (by decide) (by decide)

/-- integer type → largest value -/
def tyMax : String → Nat
  | "u8" => 255
  | "u16" => 65535
  | "u32" => 4294967295
  | _ => 0

/-- "size errors instead of truncation": the `try_from` guards regenerated from encoder.rs are, function by function,
the limits of the encoder model (`u16max` for atom names and reference words, `u32max` for everything else) with the
error variant the model returns — and these are the widths of the format's length fields (2 and 4 bytes).  The casts of
a length that remain are listed too: all sit behind one of these guards or a width test, except the two the notes
name (`encode_bigint`'s `len as u32` and the NEW_FUN_EXT size), so a new unguarded cast breaks this obligation. -/
theorem C01_size_guards_are_the_formats :
    Gen.C01_ENC_SIZE_GUARDS.map (fun g => (g.1, tyMax g.2.1, g.2.2)) =
      [("encode_atom_impl", u16max, "AtomTooLarge"), ("encode_binary", u32max, "BinaryTooLarge"),
       ("encode_bit_binary", u32max, "BinaryTooLarge"), ("encode_list_impl", u32max, "ListTooLarge"),
       ("encode_improper_list_impl", u32max, "ListTooLarge"), ("encode_map_impl", u32max, "MapTooLarge"),
       ("encode_tuple_impl", u32max, "TupleTooLarge"), ("encode_reference_impl", u16max, "ReferenceTooLarge")] ∧
    u16max = 256 ^ 2 - 1 ∧ u32max = 256 ^ 4 - 1 ∧
    Gen.C01_ENC_LEN_CASTS =
      [("encode_atom_impl", "len as u16"), ("encode_atom_impl", "len as u8"), ("encode_integer", "significant_len as u8"),
       ("encode_integer", "significant_len as u32"), ("encode_tuple_impl", "elements.len() as u8"),
       ("encode_bigint", "len as u8"), ("encode_bigint", "len as u32"),
       ("encode_new_fun_ext_impl", "(temp_buf.len()+4) as u32")] := by decide

/-- decoding what the encoder wrote returns the term's wire form (`wire t`: the same term with integers beyond 32 bits
as big integers, strings as binaries, the empty list as nil, improper lists with a nil tail as proper lists, maps
re-inserted in arrival order) — for every well-formed term within the nesting limit and every behaviour `x` of
the external calls.  `wfT` is documented in Lemmas/RoundTrip.lean (it excludes only what the Rust types cannot hold,
plus the listed representable terms the library's own decoder refuses). -/
theorem C01_roundtrip (x : Ext) (t : Term) (bs : Bytes) (hw : wfT t = true) (hd : dep t ≤ MAX_NESTING_DEPTH)
    (he : encode t = .ok bs) : decode x bs = .ok (wire t) := by
  unfold encode at he
  cases h : enc [] t with
  | error e => simp [h] at he
  | ok b =>
    simp [h] at he; subst he
    have hl := tsz_le_length [] t b hw h
    have := dec_enc x {} [] (cfgFor_nil _) (by simp) t b [] (b.length + 1 + x.extra) 0 hw (by omega) h (by omega)
    simp only [List.append_nil] at this
    simp [decode, decodeWith, this]

/-- a term with an i64 beyond 32 bits, an empty list, a string, a map and an improper list with nil tail -/
def ex1 : Term := .tuple [.int 1, .list [], .int 4294967296, .str [104, 105], .map [(.atom [97], .ilist [.int 2] .nil)]]

example (x : Ext) : decode x [131, 104, 5, 97, 1, 106, 110, 5, 0, 0, 0, 0, 0, 1, 109, 0, 0, 0, 2, 104, 105,
      116, 0, 0, 0, 1, 119, 1, 97, 108, 0, 0, 0, 1, 97, 2, 106] =
    .ok (.tuple [.int 1, .nil, .big false [0, 0, 0, 0, 1], .bin [104, 105], .map [(.atom [97], .list [.int 2])]]) :=
  C01_roundtrip x ex1 _ (by decide) (by decide) (by rfl)

/-- the same through the zero-copy decoder (every tag the encoder emits without a cache is in its tag set) -/
theorem C01_roundtrip_borrowed (x : Ext) (t : Term) (bs : Bytes) (hw : wfT t = true) (hd : dep t ≤ MAX_NESTING_DEPTH)
    (he : encode t = .ok bs) : decodeBorrowed x bs = .ok (wire t) := by
  unfold encode at he
  cases h : enc [] t with
  | error e => simp [h] at he
  | ok b =>
    simp [h] at he; subst he
    have hl := tsz_le_length [] t b hw h
    have := dec_enc x { borrowed := true } [] (cfgFor_nil _) (by simp) t b [] (b.length + 1 + x.extra) 0 hw (by omega) h (by omega)
    simp only [List.append_nil] at this
    simp [decodeBorrowed, decodeWith, this]

example (x : Ext) : decodeBorrowed x [131, 104, 2, 97, 1, 106] = .ok (.tuple [.int 1, .nil]) :=
  C01_roundtrip_borrowed x (.tuple [.int 1, .list []]) _ (by decide) (by decide) (by rfl)

/-! ### the value is preserved -/

/-- the decoded term denotes the same Erlang value as the original: for every well-formed term whose maps have
pairwise strictly increasing keys (`sortedKeys`: under `Term.cmp`, on the keys as they come back from the wire).
The guard is what makes `BTreeMap` re-insertion the identity; without it the decoder may reorder or merge entries
(C03 known finding: numerically equal keys of different type). -/
theorem C01_value_preserved (t : Term) (hw : wfT t = true) (hs : sortedKeys t = true) : den (wire t) = den t :=
  den_wire t hw hs

def ex2 : Term := .map [(.int 1, .str [104]), (.int 2, .int 5000000000), (.atom [97], .ilist [.int 2] (.list []))]

theorem C01_ex2_sorted : sortedKeys ex2 = true := by
  simp [ex2, sortedKeys, sortedKeysKV, sortedKeysL, pairwiseLt, allLt, wireKV, wire, wireL, Term.cmp, Term.norm, Term.cmpN]
  decide

example : wire ex2 = .map [(.int 1, .bin [104]), (.int 2, .big false [0, 242, 5, 42, 1]), (.atom [97], .list [.int 2])] := by
  have h := insertAll_sorted _ (by simpa [ex2, sortedKeys, sortedKeysKV, sortedKeysL] using C01_ex2_sorted :
    pairwiseLt (wireKV [(.int 1, .str [104]), (.int 2, .int 5000000000), (.atom [97], .ilist [.int 2] (.list []))]) = true)
  simp only [ex2, wire, h]
  simp [wireKV, wire, wireL, leN, sigLen]

example : den (wire ex2) = den ex2 := C01_value_preserved ex2 (by decide) C01_ex2_sorted

/-- normalisations: a string is the binary with the same bytes, the empty list is nil, and an i64 that comes back as a
big integer is the same integer -/
theorem C01_str_is_binary (s : Bytes) : den (.str s) = den (.bin s) := rfl

theorem C01_empty_list_is_nil : den (.list []) = den .nil := rfl

theorem C01_i64_as_big (i : Int) (h : -9223372036854775808 ≤ i ∧ i ≤ 9223372036854775807) :
    den (wire (.int i)) = .int i := den_wire_int i h

example : den (.big false [0, 242, 5, 42, 1]) = .int 5000000000 := by simp [den, bigVal, magVal]

/-! ### re-encoding -/

/-- re-encoding the decoded term yields the same bytes — for every term (no well-formedness needed) whose maps have
increasing keys and that contains no improper list with no elements and a nil tail -/
theorem C01_reencode (t : Term) (bs : Bytes) (hs : sortedKeys t = true) (hn : noEmptyImproper t = true)
    (he : encode t = .ok bs) : encode (wire t) = .ok bs := by
  unfold encode at he ⊢
  cases h : enc [] t with
  | error e => simp [h] at he
  | ok b => simp [h] at he; subst he; simp [enc_wire [] t b hs hn h]

example : ∃ bs, encode ex2 = .ok bs ∧ encode (wire ex2) = .ok bs :=
  ⟨_, rfl, C01_reencode ex2 _ C01_ex2_sorted (by decide) rfl⟩

/-- the full cycle: encode, decode with the library's decoder, encode again -/
theorem C01_decode_then_reencode (x : Ext) (t t' : Term) (bs : Bytes) (hw : wfT t = true)
    (hd : dep t ≤ MAX_NESTING_DEPTH) (hs : sortedKeys t = true) (hn : noEmptyImproper t = true)
    (he : encode t = .ok bs) (hdec : decode x bs = .ok t') : encode t' = .ok bs := by
  rw [C01_roundtrip x t bs hw hd he] at hdec
  cases hdec
  exact C01_reencode t bs hs hn he

/-- the excluded shape is a genuine exception: `ImproperList{elements: [], tail: Nil}` is written as
`108,0,0,0,0,106`, decoded as the empty list, and that is written as `106` -/
theorem C01_reencode_not_for_empty_improper :
    ∃ t bs, wfT t = true ∧ sortedKeys t = true ∧ encode t = .ok bs ∧ wire t = .list [] ∧ encode (.list []) = .ok [131, 106] ∧
      bs ≠ [131, 106] :=
  ⟨.ilist [] .nil, [131, 108, 0, 0, 0, 0, 106], by decide, by decide, rfl, rfl, rfl, by decide⟩

/-! ### errors are size-limit errors, exactly -/

/-- whenever the encoder reports an error — for ANY term, well-formed or not — the term contains a node that exceeds
the limit the error names (`over e t`, Lemmas/EncErr.lean): `atomTooLarge` an atom name (of an atom, of a plain
identifier's node, of a fun's module/function) longer than 65535 bytes; `binaryTooLarge` a binary, string or
bit-string longer than `u32::MAX` bytes; `listTooLarge` / `tupleTooLarge` / `mapTooLarge` more than `u32::MAX`
elements; `refTooLarge` a plain reference with more than 65535 id words -/
theorem C01_error_only_for_size (t : Term) (e : EncErr) (h : encode t = .error e) : over e t = true := by
  unfold encode at h
  cases h1 : enc [] t with
  | ok b => simp [h1] at h
  | error e' => simp [h1] at h; subst h; exact enc_err [] t e' h1

example : ∃ a : Bytes, encode (.tuple [.atom a]) = .error .atomTooLarge ∧ over .atomTooLarge (.tuple [.atom a]) = true := by
  refine ⟨List.replicate 65536 97, ?_⟩
  have h : (List.replicate 65536 (97 : UInt8)).length = 65536 := List.length_replicate
  generalize List.replicate 65536 (97 : UInt8) = a at h
  simp [encode, enc, encL, encAtom, indexOf?, u16max, over, overL, atomOver, h]

/-- and exactly then: the encoder fails if and only if some limit is exceeded -/
theorem C01_error_iff_over_limit (t : Term) : (∃ e, encode t = .error e) ↔ (∃ e, over e t = true) := by
  constructor
  · rintro ⟨e, h⟩; exact ⟨e, C01_error_only_for_size t e h⟩
  · rintro ⟨e, h⟩
    unfold encode
    cases h1 : enc [] t with
    | ok b => exact absurd h1 (enc_over t e b h)
    | error e' => exact ⟨e', rfl⟩

/-- within all limits the encoder succeeds -/
theorem C01_ok_within_limits (t : Term) (h : ∀ e, over e t = false) : ∃ bs, encode t = .ok bs := by
  cases h1 : encode t with
  | ok b => exact ⟨b, rfl⟩
  | error e => have := C01_error_only_for_size t e h1; rw [h e] at this; cases this

/-- the atom-table error of the distribution-header encoder never comes out of the plain encoder -/
theorem C01_never_too_many_atoms (t : Term) : encode t ≠ .error .tooManyAtoms := by
  intro h
  have := C01_error_only_for_size t _ h
  rw [over_tooManyAtoms] at this
  cases this

/-! ### the bytes are a valid encoding of the term's value -/

/-- the encoder's output is read by the INDEPENDENT reader of the External Term Format (`Spec.parseTop`, written from
the format's documentation) as exactly the value the term denotes, with nothing left over — for every well-formed term
(any nesting depth), any zlib behaviour of the reader.  Maps: the reader keeps arrival order and `den` keeps stored
order, so the equality is on the nose, no key-order guard.  Two guards, both excluding representable terms:
`finiteFloats` (NaN and the infinities are not Erlang floats; the encoder writes them without complaint, see
`C01_valid_not_for_nan`) and `bs.length ≤ u32::MAX` (NEW_FUN_EXT carries its own size as `(len + 4) as u32`,
silently truncated for a fun of 4 GiB or more). -/
theorem C01_valid (env : Spec.Env) (t : Term) (bs : Bytes) (hw : wfT t = true) (hfin : finiteFloats t = true)
    (he : encode t = .ok bs) (hsz : bs.length ≤ 4294967295) (hrefs : env.refs = []) :
    Spec.parseTop env bs = some (den t, []) := by
  unfold encode at he
  cases h : enc [] t with
  | error e => simp [h] at he
  | ok b =>
    simp [h] at he; subst he
    exact specTop_enc env [] (by simpa using hrefs) (by simp) t b hw hfin h (by simp at hsz; omega)

example : Spec.parseTop {} [131, 104, 5, 97, 1, 106, 110, 5, 0, 0, 0, 0, 0, 1, 109, 0, 0, 0, 2, 104, 105,
      116, 0, 0, 0, 1, 119, 1, 97, 108, 0, 0, 0, 1, 97, 2, 106] = some (den ex1, []) :=
  C01_valid {} ex1 _ (by decide) (by decide) (by rfl) (by decide) rfl

/-- with an atom cache (distribution header): the reader resolves ATOM_CACHE_REF through the same table -/
theorem C01_valid_cached (env : Spec.Env) (cache : List Bytes) (t : Term) (b r : Bytes) (hw : wfT t = true)
    (hfin : finiteFloats t = true) (he : enc cache t = .ok b) (hsz : b.length ≤ 4294967295)
    (hlen : cache.length ≤ 256) (hrefs : env.refs = cache.map cps) :
    Spec.parse env (b.length + 1) (b ++ r) = some (den t, r) :=
  spec_enc env cache hrefs hlen t b r (b.length + 1) hw hfin he (by omega)
    (by have := tsz_le_length cache t b hw he; omega)

example : Spec.parse { refs := [[97]] } 3 ([82, 0] ++ [7]) = some (.atom [97], [7]) :=
  C01_valid_cached { refs := [[97]] } [[97]] (.atom [97]) [82, 0] [7] (by decide) (by decide) (by rfl) (by decide) (by decide) (by rfl)

/-- the float guard is a genuine exception: a NaN is encoded without an error, and the bytes are not a valid encoding -/
theorem C01_valid_not_for_nan :
    ∃ t bs, wfT t = true ∧ encode t = .ok bs ∧ Spec.parseTop {} bs = none :=
  ⟨.float 0x7FF8000000000000, [131, 70, 0x7F, 0xF8, 0, 0, 0, 0, 0, 0], by decide, rfl, by
    simp [Spec.parseTop, Spec.parse, rdN]⟩

/-! ### the other entry points hand out the same term bytes -/

/-- `encode_to_writer`: whatever was written before, the writer receives exactly the bytes `encode` returns, after
them, when it accepts them; an encoder error comes back unchanged and nothing is written -/
theorem C01_writer_same_bytes (t : Term) (w : Bytes) :
    (∀ bs, encode t = .ok bs → encodeToWriter t w true = .ok (w ++ bs) ∧ encodeToWriter t w false = .error .io) ∧
    (∀ e acc, encode t = .error e → encodeToWriter t w acc = .error (.enc e)) ∧
    (∀ acc out, encodeToWriter t w acc = .ok out → ∃ bs, encode t = .ok bs ∧ out = w ++ bs) := by
  refine ⟨?_, ?_, ?_⟩
  · intro bs h; simp [encodeToWriter, h]
  · intro e acc h; simp [encodeToWriter, h]
  · intro acc out h
    unfold encodeToWriter at h
    cases he : encode t with
    | error e => simp [he] at h
    | ok b =>
      simp only [he] at h
      split at h
      · simp at h; exact ⟨b, rfl, h.symm⟩
      · simp at h

example : encodeToWriter (.int 5) [1, 2] true = .ok [1, 2, 131, 97, 5] :=
  (C01_writer_same_bytes (.int 5) [1, 2]).1 [131, 97, 5] rfl |>.1

/-- `encode_with_dist_header` (one term, any order `order` of its atoms in the header): behind `131, 68` and the header
come exactly the bytes of the shared term encoder run with that atom table, and — for a well-formed term with finite
floats — the independent reader, resolving ATOM_CACHE_REF through the same table, reads them as the term's value -/
theorem C01_dist_header_same_term_bytes (env : Spec.Env) (order : List Bytes) (t : Term) (bs : Bytes)
    (h : encodeDist order [t] = .ok bs) :
    ∃ hdr body, bs = 131 :: 68 :: (hdr ++ body) ∧ enc order t = .ok body ∧ order.length ≤ 255 ∧
      (wfT t = true → finiteFloats t = true → body.length ≤ 4294967295 → env.refs = order.map cps →
        Spec.parse env (body.length + 1) body = some (den t, [])) := by
  have key : ∀ body, enc order t = .ok body → order.length ≤ 255 →
      (wfT t = true → finiteFloats t = true → body.length ≤ 4294967295 → env.refs = order.map cps →
        Spec.parse env (body.length + 1) body = some (den t, [])) := by
    intro body hb hl hw hfin hsz hrefs
    have := C01_valid_cached env order t body [] hw hfin hb hsz (by omega) hrefs
    simpa using this
  unfold encodeDist at h
  split at h
  · rename_i hemp
    have ho : order = [] := by simpa using hemp
    subst ho
    simp only [encL] at h
    cases hb : enc [] t with
    | error e => simp [hb] at h
    | ok b =>
      simp [hb] at h
      exact ⟨[0], b, by simp [← h], rfl, by simp, key b hb (by simp)⟩
  · split at h
    · simp at h
    · rename_i hn
      split at h
      · simp at h
      · simp only [encL] at h
        cases hb : enc order t with
        | error e => simp [hb] at h
        | ok b =>
          simp [hb] at h
          exact ⟨header order, b, by simp [← h], rfl, by omega, key b hb (by omega)⟩

example : encodeDist [[97]] [.tuple [.atom [97], .int 1]] = .ok ([131, 68] ++ header [[97]] ++ [104, 2, 82, 0, 97, 1]) := by
  rfl

/-! ### the `sortedKeys` guard follows from the `BTreeMap` invariant of the INPUT term

`sortedKeys` speaks about the keys as they come back from the wire.  A Rust `OwnedTerm::Map` is a `BTreeMap`: it hands its
entries out in strictly ascending key order (`mapsStrict t`: at every map node of `t`, pairwise, under `Term.cmp`) — a
statement about the term as it is, before any encoding.  The order does not see what the wire does to a term
(`C01_order_invariant_under_wire`), so the guard follows and the three guarded theorems hold for every well-formed term
whose maps are `BTreeMap`s. -/

/-- `Term.cmp (wire a) (wire b) = Term.cmp a b`: integer widths (`Integer` ↔ `BigInt`), `String` → `Binary`, `List([])` → `Nil`,
improper lists with a nil tail → proper lists and the re-insertion of map entries are all invisible to the order — all
terms of `i64` integers (`i64T`, a type invariant; implied by `wfT`) whose maps are `BTreeMap`s -/
theorem C01_order_invariant_under_wire (a b : Term) (ha : i64T a = true) (hb : i64T b = true)
    (sa : mapsStrict a = true) (sb : mapsStrict b = true) : Term.cmp (wire a) (wire b) = Term.cmp a b :=
  cmp_wire a b ha hb sa sb

theorem C01_ex2_btree : mapsStrict ex2 = true := by
  simp [ex2, mapsStrict, mapsStrictKV, mapsStrictL, pairwiseLt, allLt, Term.cmp, Term.norm, Term.cmpN]
  decide

example : Term.cmp (wire (.int 5000000000)) (wire (.str [104])) = Term.cmp (.int 5000000000) (.str [104]) :=
  C01_order_invariant_under_wire _ _ (by decide) (by decide) (by simp [mapsStrict]) (by simp [mapsStrict])

/-- without the map guard: the order ignores everything but the re-insertion, for ALL terms (`wire0`: the wire image
with map entries left where they are) -/
theorem C01_order_invariant_all_terms (a b : Term) : Term.cmp (wire0 a) (wire0 b) = Term.cmp a b := cmp_wire0 a b

/-- the guard of `C01_value_preserved` / `C01_reencode`, discharged: a well-formed term whose maps are `BTreeMap`s has
increasing keys after the wire -/
theorem C01_sorted_keys_from_btree (t : Term) (hw : wfT t = true) (hs : mapsStrict t = true) : sortedKeys t = true :=
  sortedKeys_of_mapsStrict t (i64T_of_wfT t hw) hs

/-- what comes back from the wire is a term whose maps are `BTreeMap`s again (so the statements can be iterated) -/
theorem C01_wire_keeps_btree (t : Term) (hw : wfT t = true) (hs : mapsStrict t = true) : mapsStrict (wire t) = true :=
  mapsStrict_wire t (i64T_of_wfT t hw) hs

/-- value preservation for every well-formed term whose maps are `BTreeMap`s (no guard on the wire keys) -/
theorem C01_value_preserved_btree (t : Term) (hw : wfT t = true) (hs : mapsStrict t = true) : den (wire t) = den t :=
  den_wire t hw (C01_sorted_keys_from_btree t hw hs)

example : den (wire ex2) = den ex2 := C01_value_preserved_btree ex2 (by decide) C01_ex2_btree

/-- the full cycle encode → decode (library decoder, any external behaviour) → the value is the original value -/
theorem C01_decoded_value_is_original (x : Ext) (t t' : Term) (bs : Bytes) (hw : wfT t = true)
    (hd : dep t ≤ MAX_NESTING_DEPTH) (hs : mapsStrict t = true) (he : encode t = .ok bs) (hdec : decode x bs = .ok t') :
    den t' = den t ∧ mapsStrict t' = true := by
  rw [C01_roundtrip x t bs hw hd he] at hdec
  cases hdec
  exact ⟨C01_value_preserved_btree t hw hs, C01_wire_keeps_btree t hw hs⟩

/-- re-encoding for every well-formed term whose maps are `BTreeMap`s -/
theorem C01_reencode_btree (t : Term) (bs : Bytes) (hw : wfT t = true) (hs : mapsStrict t = true)
    (hn : noEmptyImproper t = true) (he : encode t = .ok bs) : encode (wire t) = .ok bs :=
  C01_reencode t bs (C01_sorted_keys_from_btree t hw hs) hn he

example : ∃ bs, encode ex2 = .ok bs ∧ encode (wire ex2) = .ok bs :=
  ⟨_, rfl, C01_reencode_btree ex2 _ (by decide) C01_ex2_btree (by decide) rfl⟩

/-! ### identifiers that carry preserved LOCAL_EXT bytes, at any depth

`wfT` asks identifiers in plain form.  `wfX cache` (Lemmas/RoundTripLocal.lean) is `wfT` except that a pid, port or
reference anywhere in the term — and the creator pid of a fun — may carry `loc = some (hash ++ plain)`, 8 hash bytes
followed by the encoding of its logical fields: what `parse_local_ext` preserves.  Such an identifier costs one more
nesting level (`depX`). -/

/-- the round trip for terms with node-local identifiers at any depth (owned decoder; the zero-copy decoder has no
LOCAL_EXT arm) -/
theorem C01_roundtrip_local (x : Ext) (t : Term) (bs : Bytes) (hw : wfX [] t) (hd : depX t ≤ MAX_NESTING_DEPTH)
    (he : encode t = .ok bs) : decode x bs = .ok (wire t) := decode_encode_local x t bs hw hd he

/-- it extends `C01_roundtrip`: every `wfT` term is a `wfX` term -/
theorem C01_local_wellformedness_extends (cache : List Bytes) (t : Term) (h : wfT t = true) : wfX cache t :=
  wfX_of_wfT cache t h

/-- a node-local pid as a map value inside a tuple -/
def ex3loc : Bytes := [1, 2, 3, 4, 5, 6, 7, 8, 88, 119, 1, 97, 0, 0, 0, 1, 0, 0, 0, 2, 0, 0, 0, 3]
def ex3 : Term := .tuple [.map [(.int 1, .pid { node := [97], id := 1, serial := 2, creation := 3, loc := some ex3loc })]]

example : wfX [] ex3 ∧ depX ex3 ≤ MAX_NESTING_DEPTH := by
  refine ⟨?_, by simp [ex3, depX, depXL, depXKV, idDep, locOf, dep, MAX_NESTING_DEPTH]⟩
  simp only [ex3, ex3loc, wfX, wfXL, wfXKV, locOk, locOf]
  refine ⟨by decide, ⟨by decide, ⟨by decide, ?_, trivial⟩⟩, trivial⟩
  exact ⟨[1, 2, 3, 4, 5, 6, 7, 8], [88, 119, 1, 97, 0, 0, 0, 1, 0, 0, 0, 2, 0, 0, 0, 3], rfl, rfl, by decide, rfl⟩

end Edp.Props.C01
